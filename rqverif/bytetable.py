"""Byte tables read off the code: what a byte-by-byte *emitter* (a loop that writes one escape sequence per input byte) produces for
each of the 256 byte values, and the escape table of a byte-by-byte *reader* (the `match` after a backslash).  Both are finite tables;
the rules compare them (writer and reader of one format must agree).

The emitter table is obtained by term evaluation over the finite domain 0..255: the loop body is loop-free MIR whose branches depend
on the item byte only, so for each value the taken path and the pieces it writes (`write_char`, `write_str`, `write!` with the
placeholder specification taken from the expanded AST) are determined.  Anything else in the body raises Unsupported: the form is
then reported as not recognised rather than guessed at."""
from . import dataflow as df
from .facts import callee_of
from .seqmodel import Unsupported

CONT = ("controlflow", "Continue")


def _escape_default(c):
    if c == 9:
        return "\\t"
    if c == 13:
        return "\\r"
    if c == 10:
        return "\\n"
    if c in (39, 34, 92):
        return "\\" + chr(c)
    if 0x20 <= c <= 0x7e:
        return chr(c)
    return "\\x%02x" % c


def render(pieces, args):
    out = ""
    for p in pieces:
        if "lit" in p:
            out += p["lit"]
            continue
        if not p.get("plain", False) or p.get("width", -1) == -2:
            raise Unsupported("placeholder with precision / alignment / sign / run-time width")
        i = p.get("arg", -1)
        if not (0 <= i < len(args)):
            raise Unsupported("placeholder argument %r" % i)
        kind, v = args[i]
        tr = p.get("trait")
        if kind != tr and not (tr == "Display" and kind == "Display"):
            raise Unsupported("argument built for %s used by a %s placeholder" % (kind, tr))
        if tr == "Octal":
            s = "%o" % v
        elif tr == "LowerHex":
            s = "%x" % v
        elif tr == "UpperHex":
            s = "%X" % v
        elif tr == "Display":
            s = v if isinstance(v, str) else str(v)
        else:
            raise Unsupported("placeholder %s" % tr)
        w = p.get("width", -1)
        if w > len(s):
            fill = "0" if p.get("zero") else (p.get("fill") or " ")
            # integers are right-aligned by default; zero padding always is
            s = fill * (w - len(s)) + s if (p.get("zero") or tr != "Display" or not isinstance(v, str)) else s + fill * (w - len(s))
        out += s
    return out


def eval_region(prog, fn, start_bb, env, stop_bbs, fuel=600):
    """Walk fn from start_bb with the given values of locals until a block of stop_bbs or a return is reached.  Returns (text written
    to the formatter, block reached).  Values: ints, str (string constants), lists (argument arrays), tuples (markers)."""
    env = dict(env)
    for i in range(1, fn.arg_count + 1):
        env.setdefault(i, ("param", i))
    out = []

    def place(pl):
        l = pl["l"]
        if l not in env:
            raise Unsupported("local %d read before it is set" % l)
        v = env[l]
        for p_ in pl.get("p", []):
            if p_ == "deref":
                continue
            if isinstance(p_, dict) and "downcast" in p_:
                continue
            if isinstance(p_, dict) and "f" in p_:
                if isinstance(v, tuple) and v and v[0] == "pair":
                    v = v[1 + p_["f"]]
                continue          # payload of Some(item) / Continue(()): the value itself
            raise Unsupported("projection %r" % (p_,))
        return v

    def promoted_value(op):
        # a promoted constant: only the ranges of `(a..b).contains(&x)` / `(a..=b).contains(&x)` are understood
        owner = prog.fns.get(op.get("item")) or fn
        bodies = owner.raw.get("promoted") or []
        i = op["promoted"]
        if not (0 <= i < len(bodies)):
            raise Unsupported("promoted constant %r" % op.get("dbg"))
        for blk in bodies[i]["blocks"]:
            for st in blk["stmts"]:
                rv = st.get("rv") or {}
                if st.get("k") == "assign" and rv.get("k") == "agg" and (rv.get("adt") or "").startswith("core::ops::range::Range") and \
                        all(o.get("k") == "const" and "int" in o for o in rv["ops"]) and len(rv["ops"]) == 2:
                    return ("range", rv["ops"][0]["int"], rv["ops"][1]["int"], "Inclusive" in rv["adt"])
            t_ = blk["term"]
            if t_["k"] == "call" and (callee_of(t_).get("path") or "").endswith("RangeInclusive::<Idx>::new") and \
                    all(o.get("k") == "const" and "int" in o for o in t_["args"]):
                return ("range", t_["args"][0]["int"], t_["args"][1]["int"], True)
        raise Unsupported("promoted constant %r" % op.get("dbg"))

    def operand(op):
        if op.get("k") == "const":
            if "int" in op:
                return op["int"]
            if "bytes" in op:
                return op["bytes"]
            if op.get("ty") == "()":
                return 0
            if "promoted" in op:
                return promoted_value(op)
            return ("const", op.get("dbg"))
        return place(op["pl"])
    bb = start_bb
    first = True
    while fuel > 0:
        fuel -= 1
        if bb in stop_bbs and not first:
            return "".join(out), bb
        first = False
        b = fn.blocks[bb]
        for st in b["stmts"]:
            if st["k"] != "assign":
                continue
            rv = st["rv"]
            k = rv["k"]
            if k == "use":
                v = operand(rv["op"])
            elif k in ("ref", "rawptr"):
                v = place(rv["pl"])
            elif k == "cast":
                v = operand(rv["op"])
                if isinstance(v, int) and rv.get("ty") in ("u8",):
                    v &= 0xff
            elif k == "bin":
                x, y = operand(rv["a"]), operand(rv["b"])
                if not (isinstance(x, int) and isinstance(y, int)):
                    raise Unsupported("operator on a non-integer")
                op = rv["op"]
                base = op.replace("WithOverflow", "")
                table = {"Eq": lambda: int(x == y), "Ne": lambda: int(x != y), "Lt": lambda: int(x < y), "Le": lambda: int(x <= y),
                         "Gt": lambda: int(x > y), "Ge": lambda: int(x >= y), "BitAnd": lambda: x & y, "BitOr": lambda: x | y,
                         "BitXor": lambda: x ^ y, "Add": lambda: x + y, "Sub": lambda: x - y, "Shr": lambda: x >> y, "Shl": lambda: x << y,
                         "Rem": lambda: x % y if y else None, "Div": lambda: x // y if y else None}
                if base not in table:
                    raise Unsupported("operator %s" % op)
                v = table[base]()
                if v is None:
                    raise Unsupported("division by zero")
                if op.endswith("WithOverflow"):
                    v = ("pair", v, 0)
            elif k == "un" and rv["op"] == "Not":
                a = operand(rv["a"])
                v = int(not a) if rv.get("aty") == "bool" else (~a) & 0xff
            elif k == "discr":
                a = place(rv["pl"]) if "pl" in rv else operand(rv["op"])
                if a == CONT:
                    v = 0
                else:
                    raise Unsupported("discriminant of %r" % (a,))
            elif k == "agg" and rv.get("ak") == "array":
                v = [operand(o) for o in rv["ops"]]
            elif k == "agg" and rv.get("ak") == "tuple":
                vs = [operand(o) for o in rv["ops"]]
                v = vs[0] if len(vs) == 1 else ("pair",) + tuple(vs)
            elif k == "agg" and (rv.get("adt") or "").startswith("core::ops::range::Range") and len(rv["ops"]) == 2:
                v = ("range", operand(rv["ops"][0]), operand(rv["ops"][1]), "Inclusive" in rv["adt"])
            elif k == "agg" and rv.get("ak") == "closure":
                v = ("closure", rv.get("closure"))
            else:
                raise Unsupported("rvalue %s" % k)
            if st["lhs"].get("p"):
                raise Unsupported("store through a projection")
            env[st["lhs"]["l"]] = v
        t = b["term"]
        k = t["k"]
        if k == "return":
            return "".join(out), None
        if k == "goto":
            bb = t["target"]
        elif k == "assert":
            bb = t["target"]
        elif k == "drop":
            bb = t["target"]
        elif k == "switch":
            v = operand(t["discr"])
            if not isinstance(v, int):
                raise Unsupported("branch on %r" % (v,))
            nxt = None
            for val, tgt in t["targets"]:
                if int(val) == int(v):
                    nxt = tgt
            bb = nxt if nxt is not None else t["otherwise"]
        elif k == "call":
            c = callee_of(t)
            p = c.get("rpath") or c.get("path") or ""
            last = p.split("::")[-1]
            args = t["args"]
            res = 0
            if last == "write_char" and len(args) == 2:
                v = operand(args[1])
                if not isinstance(v, int):
                    raise Unsupported("write_char of %r" % (v,))
                out.append(chr(v))
                res = ("ok",)
            elif last == "write_str" and len(args) == 2:
                v = operand(args[1])
                if not isinstance(v, str):
                    raise Unsupported("write_str of %r" % (v,))
                out.append(v)
                res = ("ok",)
            elif last.startswith("new_") and "fmt::rt::Argument" in p and len(args) == 1:
                kind = {"new_octal": "Octal", "new_display": "Display", "new_lower_hex": "LowerHex", "new_upper_hex": "UpperHex"}.get(last)
                if kind is None:
                    raise Unsupported("format argument %s" % last)
                res = (kind, operand(args[0]))
            elif "fmt::Arguments" in p and last in ("new", "new_v1", "new_const", "from_str", "new_v1_formatted"):
                line = (t.get("sp") or [None])[0]
                cands = [l for l in prog.literals if l["kind"] == "fmt" and l["file"] == fn.file and l["line"] == line]
                if len(cands) != 1:
                    raise Unsupported("%d format templates at line %s" % (len(cands), line))
                fargs = []
                for a in args:
                    v = operand(a)
                    if isinstance(v, list):
                        fargs = v
                res = ("fmtargs", cands[0]["pieces"], fargs)
            elif last == "write_fmt" and len(args) == 2:
                v = operand(args[1])
                if not (isinstance(v, tuple) and v and v[0] == "fmtargs"):
                    raise Unsupported("write_fmt of %r" % (v,))
                out.append(render(v[1], v[2]))
                res = ("ok",)
            elif last == "branch" and "Try" in p:
                res = CONT
            elif last == "contains" and "ops::range::Range" in p and len(args) == 2:
                r, x = operand(args[0]), operand(args[1])
                if not (isinstance(r, tuple) and r and r[0] == "range" and isinstance(x, int)):
                    raise Unsupported("contains on %r" % (r,))
                res = int(r[1] <= x <= r[2]) if r[3] else int(r[1] <= x < r[2])
            elif last == "escape_default" and "ascii" in p and len(args) == 1:
                raise Unsupported("escape_default outside a recognised emitter loop")
            else:
                raise Unsupported("call of %s" % p)
            if t.get("dest") is not None and not t["dest"].get("p"):
                env[t["dest"]["l"]] = res
            if t.get("target") is None:
                raise Unsupported("diverging call")
            bb = t["target"]
        else:
            raise Unsupported("terminator %s" % k)
    raise Unsupported("out of fuel")


def byte_loops(fn):
    """Iterator loops of fn whose item is a byte (or a reference to one)."""
    from . import patterns as pt
    out = []
    for il in pt.iterator_loops(fn):
        ity = il["iter_ty"].replace(" ", "")
        if ity.endswith("Iter<'_,u8>") or ity.endswith("Iter<'_,u8>>") or "IntoIter<u8" in ity:
            out.append(il)
    return out


def emitter_table(prog, fn, il):
    """{byte: text written in one iteration of the loop il of fn}."""
    table = {}
    dest = il["next_term"]["dest"]["l"]
    for c in range(256):
        text, end = eval_region(prog, fn, il["some_edge"][1], {dest: c}, {il["head"], il["next_bb"]})
        if end is None:
            raise Unsupported("the loop body returns for byte %d" % c)
        table[c] = text
    return table


def reader_escape_table(fn):
    """The reader's tables, read off its two byte switches: (specials, escapes, has_octal) where `specials` are the bytes that do not
    stand for themselves inside the quotes, `escapes` maps the byte after a backslash to the byte it stands for, and has_octal says
    whether the fall-through arm of that switch hands the input to a three-digit octal reader."""
    sw = []
    for bb, t in fn.terms():
        if t["k"] == "switch" and t.get("dty") == "u8" and not fn.blocks[bb]["cleanup"]:
            sw.append((bb, t))
    main = [(bb, t) for bb, t in sw if {92, 34} <= {int(v) for v, _ in t["targets"]} and len(t["targets"]) <= 4]
    esc = [(bb, t) for bb, t in sw if len(t["targets"]) >= 5]
    if len(main) != 1 or len(esc) != 1:
        raise Unsupported("%d main switches, %d escape switches" % (len(main), len(esc)))
    specials = {int(v) for v, _ in main[0][1]["targets"]}
    escapes = {}
    for v, tgt in esc[0][1]["targets"]:
        # the arm assigns a constant byte (possibly after a goto)
        b = tgt
        val = None
        for _ in range(4):
            for st in fn.blocks[b]["stmts"]:
                if st["k"] == "assign" and st["rv"]["k"] == "use" and st["rv"]["op"].get("k") == "const" and st["rv"]["op"].get("ty") == "u8":
                    val = st["rv"]["op"]["int"]
            if val is not None or fn.blocks[b]["term"]["k"] != "goto":
                break
            b = fn.blocks[b]["term"]["target"]
        if val is None:
            raise Unsupported("escape arm for %r assigns no constant byte" % chr(int(v)))
        escapes[int(v)] = val
    # the otherwise arm: a call of an octal reader
    from . import cfg
    other = esc[0][1]["otherwise"]
    reach = cfg.reachable(fn, [other])
    has_octal = False
    for bb, t in fn.calls():
        if bb in reach and (callee_of(t).get("path") or "").split("::")[-1].startswith("parse_oct"):
            has_octal = True
    return specials, escapes, has_octal


def read_back(text, specials, escapes, has_octal):
    """What the reader makes of `text` between the quotes: list of bytes, or None when it stops / fails inside."""
    out = []
    i = 0
    bs = [ord(ch) for ch in text]
    if any(b > 255 for b in bs):
        return None
    while i < len(bs):
        c = bs[i]
        if c == 92:
            if i + 1 >= len(bs):
                return None
            e = bs[i + 1]
            if e in escapes:
                out.append(escapes[e])
                i += 2
                continue
            if has_octal and i + 3 < len(bs) + 0 and all(48 <= d <= 55 for d in bs[i + 1:i + 4]) and len(bs[i + 1:i + 4]) == 3 and bs[i + 1] <= 51:
                out.append(((bs[i + 1] - 48) << 6) | ((bs[i + 2] - 48) << 3) | (bs[i + 3] - 48))
                i += 4
                continue
            return None
        if c in specials:
            return None
        out.append(c)
        i += 1
    return out
