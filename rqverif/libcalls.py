"""Reviewed table of library calls for the "never a crash" rules (C11, C14): which external callees can panic.

A function that must be total may call into std / core / alloc and a handful of crates.  Each external callee is classified:

  handled  - the range engine already produces an obligation for it (indexing, split_at, unwrap/expect, explicit panics,
             sized allocations)
  total    - reviewed: returns for every argument (errors are values); allocation failure is out of scope
  cond     - panics only for an argument outside a documented domain; discharged when that argument is a constant inside it
  panicky  - documented `# Panics` with no discharge rule here (char-boundary, index and length preconditions, overflow ...)
  print    - print!/eprint! machinery: panics when the stream cannot be written; callers decide whether that matters
  local    - a trait method of the analysed crates called through dyn (the call graph fans it out)
  unknown  - not in the table: reported, never guessed (fail closed)

The table is written as families (regexes over the resolved path) so that everyday refactors - another iterator adaptor, another
Option combinator - stay inside it, while everything with a documented panic inside those families is listed by name first.
"""
import re

LOCAL_CRATES = ("libpatch::", "rapidquilt::")

HANDLED = [
    r"ops::index::Index(Mut)?<.*>>::index(_mut)?$", r"Index<I> for \[T(; N)?\]>::index$", r"IndexMut<I> for \[T\]>::index_mut$",
    r"^core::slice::<impl \[T\]>::split_at(_mut)?$",
    r"^core::(option::Option|result::Result)::<.*>::(unwrap|expect|unwrap_err|expect_err)$",
    r"^core::panicking::", r"^std::panicking::", r"^std::rt::begin_panic",
    r"^alloc::vec::Vec::<T(, A)?>::(reserve|reserve_exact|with_capacity|resize)$", r"^alloc::string::String::with_capacity$",
    r"^alloc::vec::from_elem$", r"^alloc::(slice::<impl \[T\]>|str::<impl str>)::repeat$",
]

# documented panics (checked before the total families)
PANICKY = [
    (r"^alloc::string::String::(truncate|remove|insert|insert_str|drain|split_off|replace_range)$", "panics when the position is not on a char boundary / out of range"),
    (r"^core::str::<impl str>::(split_at|split_at_mut|slice_unchecked)$", "panics when mid is not on a char boundary"),
    (r"Index(Mut)?<.*> for (str|alloc::string::String)>::index(_mut)?$", "str slicing panics off a char boundary or out of range"),
    (r"^alloc::vec::Vec::<T(, A)?>::(remove|insert|swap_remove|drain|split_off|splice|extend_from_within)$", "panics when the index / range is out of bounds"),
    (r"^core::slice::<impl \[T\]>::(swap|copy_from_slice|clone_from_slice|copy_within|rotate_left|rotate_right|chunks\w*|rchunks\w*|windows|"
     r"select_nth_unstable\w*|as_chunks\w*|split_at_mut|swap_with_slice|array_windows)$", "panics on an out-of-range index, zero size or length mismatch"),
    (r"::Iterator(>)?::(step_by|sum|product)$", "step_by(0) panics; sum/product overflow panics with overflow checks"),
    (r"^core::num::<impl \w+>::(pow|abs|next_power_of_two|div_euclid|rem_euclid|ilog\w*|isqrt|clamp|strict_\w+|div_ceil|next_multiple_of)$", "overflow / domain panic"),
    (r"^core::cell::RefCell::<T>::(borrow|borrow_mut|replace|swap)$", "panics when already borrowed"),
    (r"^std::env::args$", "panics on a non-UTF-8 argument"),
    (r"^<std::time::\w+ as core::ops::arith::(Add|Sub)", "panics on overflow"), (r"^core::time::Duration::(from_secs_f\d+|mul_f\d+|div_f\d+)$", "panics on overflow / NaN"),
    (r"^std::thread::", "joins / spawns can panic"), (r"^std::sync::mpsc::", "not reviewed"),
    (r"^core::(option::Option|result::Result)::<.*>::(unwrap_unchecked|unwrap_err_unchecked)$", "undefined behaviour when absent"),
]

COND = [
    (r"^core::num::<impl \w+>::from_str_radix$", 1, (2, 36), "radix must be in 2..=36"),
    (r"^core::char::methods::<impl char>::(to_digit|is_digit)$", 1, (0, 36), "radix must be at most 36"),
    (r"^core::char::(convert::)?from_digit$", 1, (0, 36), "radix must be at most 36"),
]

PRINT = [r"^std::io::stdio::_e?print$"]

_TRAITS = (r"core::(clone::Clone|default::Default|cmp::(PartialEq|PartialOrd|Ord|Eq)(<.*>)?|convert::(From|Into|AsRef|AsMut|TryFrom|TryInto)<.*>|"
           r"ops::deref::(Deref|DerefMut)|iter::traits::collect::(IntoIterator|Extend<.*>|FromIterator<.*>)|iter::traits::iterator::Iterator|"
           r"iter::traits::double_ended::DoubleEndedIterator|iter::traits::exact_size::ExactSizeIterator|ops::try_trait::(Try|FromResidual<.*>)|"
           r"hash::(Hash|BuildHasher|Hasher)|fmt::(Display|Debug|Write|Octal|LowerHex|UpperHex)|borrow::(Borrow|BorrowMut)<.*>|str::traits::FromStr|"
           r"ops::arith::(Add|Sub)<&?usize>|ops::bit::\w+(<.*>)?|ops::drop::Drop)")

TOTAL = [
    r"^<.* as " + _TRAITS + r">::\w+$",
    r"^<.* as alloc::(string::ToString|borrow::ToOwned)>::\w+$",
    r"^<.* as std::os::(unix|fd)::", r"^<.* as std::io::(Write|Read|BufRead|Seek)>::\w+$", r"^<.* as failure::", r"^<.* as colored::",
    r"^core::(cmp|clone|convert|default|mem|hint|marker|borrow|any|ascii|bool|fmt|ops::range|sync::atomic|iter)::",
    r"^core::ops::function::Fn(Once|Mut)?::call(_once|_mut)?$",
    r"^core::option::Option::<.*>::\w+$", r"^core::result::Result::<.*>::\w+$",
    r"^core::slice::<impl \[T\]>::(len|is_empty|iter|iter_mut|first|last|first_mut|last_mut|get|get_mut|split_first|split_last|starts_with|ends_with|"
    r"strip_prefix|strip_suffix|contains|as_ptr|to_vec|binary_search\w*|sort\w*|reverse|concat|join|split|splitn|rsplit\w*|split_inclusive|fill|into_vec|"
    r"as_ref|trim_ascii\w*|eq_ignore_ascii_case|is_ascii|to_ascii_\w+|escape_ascii|partition_point|is_sorted\w*|as_mut_ptr|iter)$",
    r"^core::slice::(iter|cmp|memchr|ascii)::",
    r"^core::str::<impl str>::(len|is_empty|as_bytes|bytes|chars|char_indices|starts_with|ends_with|contains|find|rfind|split\w*|rsplit\w*|lines|trim\w*|"
    r"strip_prefix|strip_suffix|parse|to_owned|eq_ignore_ascii_case|is_char_boundary|get|to_ascii_\w+|to_lowercase|to_uppercase|as_ptr|matches|"
    r"match_indices|is_ascii|to_string|escape_\w+)$",
    r"^core::str::(converts::from_utf8|lossy|iter|pattern|validations)",
    r"^core::str::traits::<impl core::cmp::(PartialEq|PartialOrd|Ord|Eq)(<.*>)? for str>::\w+$",
    r"^core::str::traits::<impl core::str::traits::FromStr for \w+>::from_str$",
    r"^<\w+ as core::str::traits::FromStr>::from_str$",
    r"^core::num::<impl [\w:]+ for \w+>::from_str$",
    r"^core::num::<impl \w+>::(checked_\w+|saturating_\w+|wrapping_\w+|overflowing_\w+|from_str|min|max|count_\w+|leading_\w+|trailing_\w+|to_\we_bytes|"
    r"from_\we_bytes|is_power_of_two|swap_bytes|rotate_\w+|signum|is_positive|is_negative|abs_diff|unsigned_abs)$",
    r"^core::char::",
    r"^core::num::<impl u8>::(is_ascii\w*|to_ascii_\w+|eq_ignore_ascii_case|as_ascii|is_utf8_char_boundary)$",
    r"^core::char::methods::<impl char>::\w+$",
    r"^alloc::string::String::(new|from_utf8|from_utf8_lossy|push|push_str|as_str|as_bytes|len|is_empty|clear|pop|into_bytes|into_boxed_str|"
    r"shrink_to_fit|as_mut_str|capacity|retain)$",
    r"^alloc::vec::Vec::<T(, A)?>::(new|push|pop|len|is_empty|clear|as_slice|as_mut_slice|iter|extend_from_slice|append|last|first|truncate|retain|"
    r"dedup\w*|into_boxed_slice|shrink_to_fit|capacity|as_ptr|contains)$",
    r"^alloc::(fmt::format$|borrow::Cow|boxed::Box::<T>::new$|slice::<impl \[T\]>::(join|concat|to_vec|into_vec)$)",
    r"^memchr::", r"^std::path::", r"^std::ffi::", r"^std::collections::hash::(map|set)::", r"^failure::", r"^colored::", r"^atty::",
    r"^std::fs::", r"^std::io::(Write|Read|BufRead|error|buffered|stdio::(stdout|stderr|Stdout|Stderr))", r"^std::env::(var|var_os|args_os|current_dir)$",
    r"^std::sync::poison::mutex::Mutex::<T>::(lock|new|into_inner|try_lock)$", r"^itertools::",
    # rayon: building a pool returns a Result; install() only re-raises a panic of the closure it runs (that closure is analysed)
    r"^rayon_core::(ThreadPoolBuilder(::<S>)?::(new|num_threads|build)|thread_pool::ThreadPool::install|current_num_threads)$",
    r"^std::process::exit$",
]

_c = lambda pats: [re.compile(p) for p in pats]
_HANDLED, _PRINT, _TOTAL = _c(HANDLED), _c(PRINT), _c(TOTAL)
_PANICKY = [(re.compile(p), why) for p, why in PANICKY]
_COND = [(re.compile(p), i, dom, why) for p, i, dom, why in COND]


def classify(path, term=None):
    """-> (class, detail)"""
    if not path or path == "?":
        return "unknown", "callee could not be resolved"
    if path.startswith(LOCAL_CRATES):
        return "local", "trait method of an analysed crate (fanned out by the call graph)"
    for r in _HANDLED:
        if r.search(path):
            return "handled", "obligation produced by the range engine"
    for r, why in _PANICKY:
        if r.search(path):
            return "panicky", why
    for r, i, (lo, hi), why in _COND:
        if r.search(path):
            a = term["args"][i] if term is not None and i < len(term["args"]) else None
            if a is not None and a.get("k") == "const" and isinstance(a.get("int"), int) and lo <= a["int"] <= hi:
                return "total", "%s: constant %d" % (why, a["int"])
            return "panicky", why + " (argument is not a constant in range)"
    if path.startswith("getopts::"):
        return "getopts", "option names must agree between definition and query (checked by getopts_check)"
    for r in _PRINT:
        if r.search(path):
            return "print", "print!/eprint! panic when the stream cannot be written"
    for r in _TOTAL:
        if r.search(path):
            return "total", "reviewed family"
    return "unknown", "not in the reviewed table of library calls"


# ---- getopts: names queried must have been defined; definitions must satisfy validate_names ---------------------------------------
GETOPTS_DEFS = ("optflag", "optflagmulti", "optflagopt", "optmulti", "optopt", "reqopt")
GETOPTS_QUERIES = ("opt_defined", "opt_present", "opt_count", "opt_positions", "opt_strs", "opt_strs_pos", "opt_str", "opt_default", "opt_get",
                   "opt_get_default")
GETOPTS_TOTAL = ("new", "parse", "usage", "short_usage", "parsing_style", "long_only", "free_trailing_start")


def _family(fid):
    return fid.split("::{closure")[0]


def getopts_definitions(prog):
    """{top-level function id: set of defined names}, plus problems found in the definitions themselves."""
    from . import dataflow as df
    from .facts import callee_of
    cache = prog.__dict__.get("_getopts_defs")
    if cache is not None:
        return cache
    defs, problems = {}, {}
    for fn in prog.fns.values():
        for bb, t in fn.calls():
            rp = callee_of(t).get("rpath") or ""
            if not (rp.startswith("getopts::Options::") and rp.split("::")[-1] in GETOPTS_DEFS):
                continue
            sh, lg = df.operand_expr(fn, t["args"][1]), df.operand_expr(fn, t["args"][2])
            lit = lambda x: x[1] if isinstance(x, tuple) and x[0] == "const" and isinstance(x[1], str) else None
            s_, l_ = lit(sh), lit(lg)
            key = (fn.id, bb)
            if s_ is None or l_ is None:
                problems[key] = "option names are not literals"
                continue
            if len(s_.encode()) > 1 or len(l_.encode()) == 1 or (not s_ and not l_):
                problems[key] = "names (%r, %r) violate getopts' validate_names (short: one character or empty, long: empty or longer than one)" % (s_, l_)
            defs.setdefault(_family(fn.id), set()).update(x for x in (s_, l_) if x)
    prog.__dict__["_getopts_defs"] = (defs, problems)
    return defs, problems


def getopts_check(prog, fn, bb, t, rp):
    """-> (ok, detail) for a call into getopts."""
    from . import dataflow as df
    m = rp.split("::")[-1]
    defs, problems = getopts_definitions(prog)
    if m in GETOPTS_DEFS:
        p = problems.get((fn.id, bb))
        return (p is None), (p or "literal names accepted by validate_names")
    if m in GETOPTS_QUERIES:
        nm = df.operand_expr(fn, t["args"][1])
        if not (isinstance(nm, tuple) and nm[0] == "const" and isinstance(nm[1], str)):
            return False, "queried option name is not a literal"
        fam = _family(fn.id)
        known = defs.get(fam) or set().union(*defs.values()) if defs else set()
        where = "in %s" % fam.split("::")[-1] if defs.get(fam) else "anywhere in the program"
        if nm[1] in known:
            return True, "option %r is defined %s" % (nm[1], where)
        return False, "option %r is queried but never defined %s: getopts panics with \"No option '%s' defined\"" % (nm[1], where, nm[1])
    if m in GETOPTS_TOTAL:
        return True, "returns a Result / cannot panic once every definition passed validate_names"
    return False, "getopts::%s is not in the reviewed table" % m
