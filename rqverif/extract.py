"""Fact extraction: run the rq-facts driver over /repo's current working tree.

The driver is injected with RUSTC_WORKSPACE_WRAPPER under `cargo +nightly check`.
Facts are cached by a hash of the analysed sources and the driver binary, so an
unchanged tree is not re-extracted and an edited tree always is.
"""
import fcntl
import glob
import hashlib
import json
import os
import re
import shutil
import subprocess
import sys
import time
import uuid

VERIF = os.path.dirname(os.path.dirname(os.path.abspath(__file__)))
REPO = os.environ.get("RQ_REPO") or "/repo"
CACHE = os.path.join(VERIF, ".cache")
DRIVER_DIR = os.path.join(VERIF, "driver")
DRIVER = os.path.join(DRIVER_DIR, "target", "release", "rq-facts")
CRATES = [("libpatch", "lib"), ("rapidquilt", "bin")]


class ExtractError(Exception):
    pass


def _env():
    env = dict(os.environ)
    env["CARGO_NET_OFFLINE"] = "true"
    return env


def nightly_sysroot():
    return subprocess.check_output(["rustc", "+nightly", "--print", "sysroot"], env=_env(), text=True).strip()


def build_driver(quiet=True):
    """Build the driver if the binary is missing or older than its sources."""
    srcs = glob.glob(os.path.join(DRIVER_DIR, "src", "*.rs")) + [os.path.join(DRIVER_DIR, "Cargo.toml")]
    if os.path.exists(DRIVER) and all(os.path.getmtime(DRIVER) >= os.path.getmtime(s) for s in srcs):
        return
    r = subprocess.run(["cargo", "build", "--release", "--offline"], cwd=DRIVER_DIR, env=_env(),
                       stdout=subprocess.PIPE, stderr=subprocess.STDOUT, text=True)
    if r.returncode != 0:
        raise ExtractError("driver build failed:\n" + r.stdout[-4000:])


def source_files(repo=REPO):
    files = []
    for root, dirs, names in os.walk(os.path.join(repo, "src")):
        dirs.sort()
        for nm in sorted(names):
            if nm.endswith(".rs"):
                files.append(os.path.join(root, nm))
    for nm in ("Cargo.toml", "Cargo.lock"):
        p = os.path.join(repo, nm)
        if os.path.exists(p):
            files.append(p)
    return files


def tree_hash(repo=REPO):
    h = hashlib.sha256()
    for p in source_files(repo):
        h.update(os.path.relpath(p, repo).encode())
        h.update(b"\0")
        with open(p, "rb") as f:
            h.update(f.read())
        h.update(b"\0")
    with open(DRIVER, "rb") as f:
        h.update(f.read())
    return h.hexdigest()[:24]


def extract(repo=REPO, fresh=False, target_dir=None):
    """Returns (facts_dir, info). Raises ExtractError if the tree cannot be analysed."""
    os.makedirs(CACHE, exist_ok=True)
    t0 = time.time()
    with open(os.path.join(CACHE, "lock"), "w") as lockf:
        fcntl.flock(lockf, fcntl.LOCK_EX)
        build_driver()
        h = tree_hash(repo)
        out = os.path.join(CACHE, "facts", h)
        info = {"tree_hash": h, "cached": False}
        ok_marker = os.path.join(out, "OK")
        if not fresh and os.path.exists(ok_marker):
            info["cached"] = True
            info["extract_s"] = 0.0
            os.utime(out, None)
            return out, info
        # never remove or rewrite a fact set another process may be reading (checks run concurrently): a fresh extraction, or a
        # repair of an incomplete set, goes into a directory of its own
        if fresh:
            # a set extracted from scratch for this very tree (same hash of all sources and of the driver) a moment ago by a
            # concurrent thorough run is as fresh as one made now
            for d in sorted(glob.glob(out + ".*"), key=os.path.getmtime, reverse=True):
                if os.path.exists(os.path.join(d, "OK")) and time.time() - os.path.getmtime(os.path.join(d, "OK")) < 600:
                    info["cached"] = "fresh set of a concurrent run"
                    info["extract_s"] = 0.0
                    return d, info
        if fresh or os.path.exists(out):
            out = out + "." + uuid.uuid4().hex[:8]
            ok_marker = os.path.join(out, "OK")
        os.makedirs(out)
        tdir = target_dir or os.path.join(CACHE, "target")
        if fresh and target_dir is None:
            tdir = os.path.join(CACHE, "target-fresh")
            shutil.rmtree(tdir, ignore_errors=True)
        # cargo's freshness cache would skip the wrapper: drop the members' fingerprints
        for fp in glob.glob(os.path.join(tdir, "debug", ".fingerprint", "rapidquilt-*")):
            shutil.rmtree(fp, ignore_errors=True)
        nonce = uuid.uuid4().hex
        env = _env()
        env["LD_LIBRARY_PATH"] = os.path.join(nightly_sysroot(), "lib") + ":" + env.get("LD_LIBRARY_PATH", "")
        env["RUSTFLAGS"] = "-Zmir-opt-level=0 -Awarnings"
        env["RUSTC_WORKSPACE_WRAPPER"] = DRIVER
        env["RQ_FACTS_DIR"] = out
        env["RQ_FACTS_NONCE"] = nonce
        env["CARGO_TARGET_DIR"] = tdir
        env["CARGO_PROFILE_DEV_DEBUG"] = "0"
        env.pop("RUSTC_WRAPPER", None)
        r = subprocess.run(["cargo", "+nightly", "check", "--offline", "--manifest-path",
                            os.path.join(repo, "Cargo.toml")],
                           env=env, stdout=subprocess.PIPE, stderr=subprocess.STDOUT, text=True)
        if fresh and target_dir is None:
            shutil.rmtree(tdir, ignore_errors=True)
        if r.returncode != 0:
            shutil.rmtree(out, ignore_errors=True)
            raise ExtractError("cargo check with the fact driver failed (does the tree compile?):\n" + r.stdout[-6000:])
        for crate, kind in CRATES:
            p = os.path.join(out, "%s.%s.json" % (crate, kind))
            if not os.path.exists(p):
                shutil.rmtree(out, ignore_errors=True)
                raise ExtractError("fact file missing for crate %s (wrapper skipped?)" % crate)
            with open(p) as f:
                head = f.read(400)
            if nonce not in head:
                shutil.rmtree(out, ignore_errors=True)
                raise ExtractError("stale fact file for crate %s (nonce mismatch)" % crate)
        with open(ok_marker, "w") as f:
            f.write(nonce)
        # keep the cache small: beyond the 12 most recent fact sets, drop those nobody has touched for half an hour
        root = os.path.join(CACHE, "facts")
        sets = sorted((os.path.getmtime(os.path.join(root, d)), d) for d in os.listdir(root))
        for mt, d in sets[:-12]:
            if time.time() - mt > 1800:
                shutil.rmtree(os.path.join(root, d), ignore_errors=True)
        info["extract_s"] = round(time.time() - t0, 2)
        return out, info


def load(facts_dir):
    data = {}
    for crate, kind in CRATES:
        with open(os.path.join(facts_dir, "%s.%s.json" % (crate, kind))) as f:
            text = f.read()
        # the driver prints local paths as `crate::…`; make them globally unique
        text = re.sub(r"(?<![A-Za-z0-9_])crate::", crate + "::", text)
        data[crate] = json.loads(text)
    return data


if __name__ == "__main__":
    try:
        d, info = extract(fresh="--fresh" in sys.argv)
    except ExtractError as e:
        print("EXTRACT-ERROR:", e)
        sys.exit(2)
    print(d, info)
