"""Engine A: whole-program call graph over both crates, and effect sets.

Edges:
  * resolved direct calls to local functions;
  * `dyn Trait` calls fan out to every local impl (and the default body);
  * calls through `Fn*::call*` on a closure / fn item type;
  * *value edges*: a closure constructed in F, or a function item mentioned in F
    outside callee position, is assumed to be invoked by whoever receives it, so
    F -> closure is an edge located at the call that takes the value as an
    argument (or at the construction site when it cannot be located).

Third-party functions are leaves; their effect comes from the tables below.
"""
import re

from .facts import callee_of

# ---- effect tables (resolved std / libc paths) ----------------------------------------
FS_WRITE = {
    "std::fs::File::create": "create",
    "std::fs::File::create_new": "create",
    "std::fs::File::options": "open-options",
    "std::fs::OpenOptions::open": "open-options",
    "std::fs::remove_file": "unlink",
    "std::fs::remove_dir": "rmdir",
    "std::fs::remove_dir_all": "rmdir",
    "std::fs::create_dir": "mkdir",
    "std::fs::create_dir_all": "mkdir",
    "std::fs::DirBuilder::create": "mkdir",
    "std::fs::rename": "rename",
    "std::fs::copy": "copy",
    "std::fs::write": "write",
    "std::fs::set_permissions": "chmod",
    "std::fs::File::set_permissions": "fchmod",
    "std::fs::File::set_len": "truncate",
    "std::fs::File::set_times": "utimes",
    "std::fs::File::set_modified": "utimes",
    "std::fs::hard_link": "link",
    "std::fs::soft_link": "symlink",
    "std::os::unix::fs::symlink": "symlink",
    "std::os::unix::fs::chown": "chown",
    "std::os::unix::fs::fchown": "chown",
    "std::os::unix::fs::lchown": "chown",
    "std::os::unix::fs::chroot": "chroot",
    "std::env::set_current_dir": "chdir",
}
FS_WRITE_PREFIX = ("std::process::Command::",)  # spawning anything may write
LIBC_WRITE = re.compile(r"^libc::.*::(open|open64|openat|creat|unlink|unlinkat|rmdir|mkdir|mkdirat|rename|renameat|"
                        r"chmod|fchmod|fchmodat|truncate|ftruncate|write|pwrite|writev|link|linkat|symlink|"
                        r"symlinkat|chown|fchown|utimes|utimensat|futimens|mkfifo|mknod|remove|fopen|msync|mprotect)$")
EXIT = {"std::process::exit": "exit", "std::process::abort": "abort"}
PANIC = ("core::panicking::", "std::panicking::", "std::rt::begin_panic", "core::option::unwrap_failed",
         "core::result::unwrap_failed", "core::option::expect_failed")

FN_TRAITS = ("core::ops::function::Fn", "core::ops::function::FnMut", "core::ops::function::FnOnce")


def fs_write_kind(path):
    if path in FS_WRITE:
        return FS_WRITE[path]
    if path.startswith(FS_WRITE_PREFIX):
        return "spawn"
    if LIBC_WRITE.match(path):
        return "libc"
    return None


class Site:
    """One call-graph edge instance."""
    __slots__ = ("caller", "bb", "term", "callee", "kind")

    def __init__(self, caller, bb, term, callee, kind):
        self.caller = caller    # Fn
        self.bb = bb
        self.term = term
        self.callee = callee    # fn id (local) or external path
        self.kind = kind        # "call" | "virtual" | "value" | "ext"

    def where(self):
        return self.caller.where(self.term) if self.term is not None else self.caller.where()


# Foreign traits through which library code drives user code when instantiated with a local type.  Derivable value traits
# (Clone, Debug, PartialEq, Default, From ...) are left out on purpose: every type mention would add edges to them, and their
# implementations here are derived or trivially pure.
GENERIC_CALLBACK_TRAITS = {
    "core::iter::traits::iterator::Iterator", "core::iter::traits::double_ended::DoubleEndedIterator",
    "core::iter::traits::exact_size::ExactSizeIterator", "core::iter::traits::collect::IntoIterator",
    "std::io::Write", "std::io::Read", "std::io::BufRead", "std::io::Seek", "core::fmt::Write", "core::fmt::Display",
    "core::cmp::Ord", "core::cmp::PartialOrd", "core::hash::Hash",
}


class CallGraph:
    def __init__(self, prog):
        self.prog = prog
        self.out = {fid: [] for fid in prog.fns}     # fid -> [Site] (local callees)
        self.ext = {fid: [] for fid in prog.fns}     # fid -> [Site] (external callees)
        self.inn = {fid: [] for fid in prog.fns}
        for fn in prog.fns.values():
            self._scan(fn)
        for fid, sites in self.out.items():
            for s in sites:
                self.inn.setdefault(s.callee, []).append(s)

    # -- construction -----------------------------------------------------------------------
    def _scan(self, fn):
        prog = self.prog
        value_targets = {}   # local -> set(target fn id)  (closures / fn items held in a local)
        located = set()
        for bb, idx, s in fn.stmts():
            if s["k"] != "assign":
                continue
            rv = s["rv"]
            tgt = None
            if rv["k"] == "agg" and rv.get("ak") == "closure":
                tgt = rv["closure"]
            elif rv["k"] in ("use", "cast"):
                op = rv["op"]
                if op.get("k") == "const":
                    if "fn" in op and "p" not in s["lhs"]:
                        tgt = (op.get("res") or {}).get("rpath") or op["fn"]
                    elif "closure" in op:
                        tgt = op["closure"]
            if tgt is not None and "p" not in s["lhs"]:
                value_targets.setdefault(s["lhs"]["l"], set()).add((tgt, bb, idx))
        # propagate through plain copies/moves/refs of those locals (one level is what MIR needs)
        changed = True
        rounds = 0
        while changed and rounds < 6:
            changed = False
            rounds += 1
            for bb, idx, s in fn.stmts():
                if s["k"] != "assign" or "p" in s["lhs"]:
                    continue
                rv = s["rv"]
                src = None
                if rv["k"] in ("use", "cast") and rv["op"].get("k") in ("copy", "move") and "p" not in rv["op"]["pl"]:
                    src = rv["op"]["pl"]["l"]
                elif rv["k"] == "ref" and "p" not in rv["pl"]:
                    src = rv["pl"]["l"]
                if src is not None and src in value_targets:
                    cur = value_targets.setdefault(s["lhs"]["l"], set())
                    new = value_targets[src] - cur
                    if new:
                        cur.update(new)
                        changed = True
        for bb, t in fn.calls():
            c = callee_of(t)
            # constants of fn / closure type passed directly as arguments
            for a in t["args"]:
                if a.get("k") == "const":
                    tg = None
                    if "fn" in a:
                        tg = (a.get("res") or {}).get("rpath") or a["fn"]
                    elif "closure" in a:
                        tg = a["closure"]
                    if tg:
                        self._add(fn, bb, t, tg, "value")
                elif a.get("k") in ("copy", "move") and "p" not in a["pl"]:
                    for (tg, vb, vi) in value_targets.get(a["pl"]["l"], ()):
                        self._add(fn, bb, t, tg, "value")
                        located.add((tg, vb, vi))
            if c["indirect"]:
                op = t["func"]
                if op.get("k") in ("copy", "move") and "p" not in op["pl"]:
                    for (tg, vb, vi) in value_targets.get(op["pl"]["l"], ()):
                        self._add(fn, bb, t, tg, "call")
                        located.add((tg, vb, vi))
                continue
            if c["virtual"]:
                for tg in prog.virtual_targets(c["path"]):
                    self._add(fn, bb, t, tg, "virtual")
                if not prog.virtual_targets(c["path"]):
                    self._add(fn, bb, t, c["path"], "ext")
                continue
            tgt = c["rpath"]
            if tgt not in prog.fns:
                # generic callbacks: a library function instantiated with a local type may call that type's implementations of
                # foreign traits (collect() on an adaptor chain drives the local Iterator::next; sort() the local Ord::cmp ...)
                for tg in self._generic_callbacks(c):
                    self._add(fn, bb, t, tg, "generic")
            if c["trait"] in FN_TRAITS or (c["trait"] or "").startswith("core::ops::function::"):
                if c.get("self_closure"):
                    tgt = c["self_closure"]
                elif c.get("self_fn"):
                    tgt = c["self_fn"]
            self._add(fn, bb, t, tgt, "call")
        # closures / fn values that were created but never seen flowing into a call argument
        for l, tgs in value_targets.items():
            for (tg, vb, vi) in tgs:
                if (tg, vb, vi) not in located:
                    self._add(fn, vb, None, tg, "value")

    def _generic_callbacks(self, c):
        prog = self.prog
        idx = prog.__dict__.get("_foreign_trait_impls")
        if idx is None:
            idx = {}
            local = tuple(cr + "::" for cr in {f.crate for f in prog.fns.values()})
            for im in prog.impls:
                tr = im.get("trait")
                if tr and not tr.startswith(local) and im.get("self_adt") and tr in GENERIC_CALLBACK_TRAITS:
                    idx.setdefault(im["self_adt"], []).extend(it["id"] for it in im["items"] if it["id"] in prog.fns)
            prog.__dict__["_foreign_trait_impls"] = idx
        if not idx:
            return []
        text = " ".join([c.get("self_ty") or ""] + list(c.get("fnargs") or []))
        out = []
        for adt, items in idx.items():
            if adt in text:
                # whole-word match: the ADT path followed by a non-identifier character
                i = text.find(adt)
                while i != -1:
                    j = i + len(adt)
                    if j >= len(text) or not (text[j].isalnum() or text[j] == "_"):
                        out.extend(items)
                        break
                    i = text.find(adt, j)
        return out

    def _add(self, fn, bb, term, target, kind):
        if target in self.prog.fns:
            lst = self.out[fn.id]
            for s in lst:
                if s.bb == bb and s.callee == target and s.term is term:
                    return
            lst.append(Site(fn, bb, term, target, kind))
        else:
            self.ext[fn.id].append(Site(fn, bb, term, target, "ext"))

    # -- queries ------------------------------------------------------------------------------
    def callees(self, fid):
        return sorted({s.callee for s in self.out.get(fid, [])})

    def callers(self, fid):
        return sorted({s.caller.id for s in self.inn.get(fid, [])})

    def sites_to(self, fid):
        return list(self.inn.get(fid, []))

    def closure(self, roots, skip_site=None):
        """Functions reachable from roots. skip_site(site)->True removes an edge."""
        seen = set()
        stack = [r for r in roots]
        while stack:
            f = stack.pop()
            if f in seen or f not in self.prog.fns:
                continue
            seen.add(f)
            for s in self.out.get(f, []):
                if skip_site and skip_site(s):
                    continue
                if s.callee not in seen:
                    stack.append(s.callee)
        return seen

    def reaches(self, target):
        """All functions from which `target` is reachable (incl. target)."""
        seen = {target}
        stack = [target]
        while stack:
            f = stack.pop()
            for s in self.inn.get(f, []):
                c = s.caller.id
                if c not in seen:
                    seen.add(c)
                    stack.append(c)
        return seen

    def path(self, src, dst, skip_site=None):
        """One call chain src -> ... -> dst as list of Sites (BFS), or None."""
        from collections import deque
        prev = {src: None}
        dq = deque([src])
        while dq:
            f = dq.popleft()
            if f == dst:
                break
            for s in self.out.get(f, []):
                if skip_site and skip_site(s):
                    continue
                if s.callee not in prev:
                    prev[s.callee] = s
                    dq.append(s.callee)
        if dst not in prev:
            return None
        chain = []
        cur = dst
        while prev[cur] is not None:
            chain.append(prev[cur])
            cur = prev[cur].caller.id
        chain.reverse()
        return chain

    # -- effects ---------------------------------------------------------------------------------
    def primitive_sites(self, classify):
        """[(Site, label)] for every external call site whose resolved path classify() labels."""
        out = []
        for fid, sites in self.ext.items():
            for s in sites:
                lab = classify(s.callee)
                if lab:
                    out.append((s, lab))
        return out

    def fs_write_sites(self):
        return self.primitive_sites(fs_write_kind)

    def exit_sites(self):
        return self.primitive_sites(lambda p: EXIT.get(p))

    def functions_with_effect(self, classify):
        """Transitive: fid -> True if fid or a callee has a primitive labelled by classify."""
        direct = {s.caller.id for s, _ in self.primitive_sites(classify)}
        res = set()
        for d in direct:
            res |= self.reaches(d)
        return res

    def sccs(self, nodes=None):
        """Strongly connected components (Tarjan) restricted to `nodes`."""
        nodes = set(nodes) if nodes is not None else set(self.prog.fns)
        index = {}
        low = {}
        onstack = set()
        stack = []
        out = []
        counter = [0]
        import sys
        sys.setrecursionlimit(10000)

        def strong(v):
            index[v] = low[v] = counter[0]
            counter[0] += 1
            stack.append(v)
            onstack.add(v)
            for s in self.out.get(v, []):
                w = s.callee
                if w not in nodes:
                    continue
                if w not in index:
                    strong(w)
                    low[v] = min(low[v], low[w])
                elif w in onstack:
                    low[v] = min(low[v], index[w])
            if low[v] == index[v]:
                comp = []
                while True:
                    w = stack.pop()
                    onstack.discard(w)
                    comp.append(w)
                    if w == v:
                        break
                out.append(comp)
        for v in sorted(nodes):
            if v not in index:
                strong(v)
        return out


def format_chain(chain):
    if not chain:
        return ""
    parts = [chain[0].caller.id]
    for s in chain:
        parts.append("%s (%s)" % (s.callee, s.where()))
    return " -> ".join(parts)
