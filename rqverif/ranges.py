"""Engine D: forward abstract interpretation over MIR with a difference-bound domain on access paths,
used to discharge panic-capable sites (bounds, overflow, slicing) — never by evaluating the function.

Variables are access paths:  ("v", "L3.add_count")  integer value at a path
                             ("#", "L1")            length of the slice / Vec / str at a path
Derefs and references are transparent (a reference denotes what it points to); reference temporaries are resolved
statically to the place they were taken from.  Constraints are  x - y <= c  with the special variable Z = 0.
"""
import re
from collections import deque

from . import cfg, dataflow as df
from .facts import callee_of

Z = ("Z", "")
INT_RANGES = {
    "usize": (0, 2 ** 64 - 1), "u64": (0, 2 ** 64 - 1), "u32": (0, 2 ** 32 - 1), "u16": (0, 65535), "u8": (0, 255),
    "isize": (-2 ** 63, 2 ** 63 - 1), "i64": (-2 ** 63, 2 ** 63 - 1), "i32": (-2 ** 31, 2 ** 31 - 1), "i16": (-32768, 32767),
    "i8": (-128, 127), "char": (0, 0x10FFFF), "bool": (0, 1), "u128": (0, 2 ** 128 - 1), "i128": (-2 ** 127, 2 ** 127 - 1),
}
LEN_MAX = 2 ** 63 - 1
THRESHOLDS = [-2, -1, 0, 1, 2, 3, 4, 8, 16, 64, 255, 256, 4096, 65535, 65536, 2 ** 31 - 1, 2 ** 32 - 1, 2 ** 63 - 1, 2 ** 63, 2 ** 64 - 1, 2 ** 64]


ALIAS_CALLS = ("Deref>::deref", "DerefMut>::deref_mut", "Deref::deref", "DerefMut::deref_mut", "AsRef<[T]>>::as_ref",
               "Vec::<T, A>::as_slice", "Vec::<T, A>::as_mut_slice", "Borrow<[T]>>::borrow")


class Bottom(Exception):
    pass


class State:
    __slots__ = ("out", "inn", "tag", "nottag", "optf", "condf", "dead", "sums")

    def __init__(self):
        self.out = {}     # x -> {y: c}   x - y <= c
        self.inn = {}     # y -> {x: c}
        self.tag = {}     # enum path -> variant name
        self.nottag = {}  # enum path -> frozenset of excluded variant names
        self.optf = {}    # (path, variant) -> [(x, y, c)]  facts that hold when path has that variant
        self.condf = {}   # bool path -> ([facts if true], [facts if false])
        self.sums = set() # (t, x, y, c): t = x + y + c for three variables (x <= y by repr); what a difference bound cannot say
        self.dead = False

    def copy(self):
        s = State()
        s.out = {x: dict(r) for x, r in self.out.items()}
        s.inn = {y: dict(r) for y, r in self.inn.items()}
        s.tag = dict(self.tag)
        s.nottag = dict(self.nottag)
        s.optf = {k: list(v) for k, v in self.optf.items()}
        s.condf = {k: (list(v[0]), list(v[1])) for k, v in self.condf.items()}
        s.sums = set(self.sums)
        s.dead = self.dead
        return s

    # -- constraints -------------------------------------------------------------------------------
    def get(self, x, y):
        if x == y:
            return 0
        return self.out.get(x, {}).get(y)

    def _set(self, x, y, c):
        self.out.setdefault(x, {})[y] = c
        self.inn.setdefault(y, {})[x] = c

    def add(self, x, y, c):
        """x - y <= c, with incremental closure."""
        if self.dead:
            return
        if x == y:
            if c < 0:
                self.dead = True
            return
        old = self.get(x, y)
        if old is not None and old <= c:
            return
        As = list(self.inn.get(x, {}).items()) + [(x, 0)]
        Bs = list(self.out.get(y, {}).items()) + [(y, 0)]
        for a, ca in As:
            for b, cb in Bs:
                n = ca + c + cb
                if a == b:
                    if n < 0:
                        self.dead = True
                        return
                    continue
                o = self.get(a, b)
                if o is None or n < o:
                    self._set(a, b, n)

    def eq(self, x, y, c=0):
        """x = y + c"""
        self.add(x, y, c)
        self.add(y, x, -c)

    def forget(self, v):
        if self.sums:
            gone = [tr for tr in self.sums if v in tr[:3]]
            if gone:
                self.sums = {tr for tr in self.sums if v not in tr[:3]}
                for tr in gone:
                    if tr[0] != v and tr[0][0] == "s":
                        self.forget(tr[0])      # the name of a sum dies with either operand
        for y in list(self.out.get(v, {})):
            self.inn.get(y, {}).pop(v, None)
        for x in list(self.inn.get(v, {})):
            self.out.get(x, {}).pop(v, None)
        self.out.pop(v, None)
        self.inn.pop(v, None)

    def vars(self):
        s = set(self.out) | set(self.inn)
        s.discard(Z)
        return s

    def ub(self, x):
        return self.get(x, Z)

    def lb(self, x):
        c = self.get(Z, x)
        return None if c is None else -c

    def const_of(self, x):
        u, l = self.ub(x), self.lb(x)
        return u if u is not None and u == l else None

    # -- three-variable sums ---------------------------------------------------------------------------
    def add_sum(self, t, x, y, c):
        """Record t = x + y + c.  The sum x + y gets one name of its own, S = ("s", x|y), whichever temporary holds it: equal
        sums are equal by construction (value numbering) and facts about the sum survive the temporaries and meet at joins."""
        if self.dead or Z in (t, x, y) or t in (x, y) or "s" in (t[0], x[0], y[0]):
            return
        if repr(y) < repr(x):
            x, y = y, x
        S = ("s", "%s|%s" % (show_var(x), show_var(y)))
        tr = (S, x, y, 0)
        fresh = tr not in self.sums
        self.sums.add(tr)
        self.eq(t, S, c)
        if fresh:
            self.saturate_sums(only=tr)

    def saturate_sums(self, only=None):
        """t1 = x1 + y + c1, t2 = x2 + y + c2  =>  t1 - t2 = (x1 - x2) + (c1 - c2): carry the bounds on x1 - x2 over (both ways)."""
        if self.dead or len(self.sums) < 2:
            return
        trs = list(self.sums)
        firsts = [only] if only is not None else trs
        for a in firsts:
            for b in trs:
                if a is b or a == b:
                    continue
                t1, xa, ya, c1 = a
                t2, xb, yb, c2 = b
                for (p1, q1) in ((xa, ya), (ya, xa)):
                    for (p2, q2) in ((xb, yb), (yb, xb)):
                        if q1 != q2:
                            continue
                        d = 0 if p1 == p2 else self.get(p1, p2)
                        if d is not None:
                            self.add(t1, t2, d + c1 - c2)
                        d = 0 if p1 == p2 else self.get(p2, p1)
                        if d is not None:
                            self.add(t2, t1, d + c2 - c1)
        # a sum bounds its parts: t - x = y + c
        for (t, x, y, c) in firsts:
            for (p, q) in ((x, y), (y, x)):
                u, l_ = self.get(q, Z), self.get(Z, q)
                if u is not None:
                    self.add(t, p, u + c)
                if l_ is not None:
                    self.add(p, t, l_ - c)

    # -- paths ------------------------------------------------------------------------------------
    @staticmethod
    def under(path, prefix):
        return path == prefix or path.startswith(prefix + ".") or path.startswith(prefix + "[")

    def forget_prefix(self, prefix):
        for v in list(self.vars()):
            if v[0] in ("v", "#") and self.under(v[1], prefix):
                self.forget(v)
        for p in list(self.tag):
            if self.under(p, prefix):
                del self.tag[p]
        for p in list(self.nottag):
            if self.under(p, prefix):
                del self.nottag[p]
        for k in list(self.optf):
            if self.under(k[0], prefix):
                del self.optf[k]
            else:
                self.optf[k] = [f for f in self.optf[k] if not any(t[0] in ("v", "#") and self.under(t[1], prefix) for t in (f[0], f[1]))]
        for p in list(self.condf):
            if self.under(p, prefix):
                del self.condf[p]
            else:
                tf, ff = self.condf[p]
                keep = lambda fs: [f for f in fs if not any(t[0] in ("v", "#") and self.under(t[1], prefix) for t in (f[0], f[1]))]
                self.condf[p] = (keep(tf), keep(ff))

    def copy_prefix(self, src, dst):
        """Everything known about paths under src now also holds for the corresponding paths under dst."""
        if src == dst:
            return

        def ren(p):
            return dst + p[len(src):]
        for v in list(self.vars()):
            if v[0] in ("v", "#") and self.under(v[1], src):
                self.eq((v[0], ren(v[1])), v)
        for p, t in list(self.tag.items()):
            if self.under(p, src):
                self.tag[ren(p)] = t
        for p, t in list(self.nottag.items()):
            if self.under(p, src):
                self.nottag[ren(p)] = t

        def renv(t):
            return (t[0], ren(t[1])) if t[0] in ("v", "#") and self.under(t[1], src) else t
        for k, fs in list(self.optf.items()):
            if self.under(k[0], src):
                self.optf[(ren(k[0]), k[1])] = [(renv(f[0]), renv(f[1]), f[2]) for f in fs]
        for p, (tf, ff) in list(self.condf.items()):
            if self.under(p, src):
                self.condf[ren(p)] = ([(renv(f[0]), renv(f[1]), f[2]) for f in tf], [(renv(f[0]), renv(f[1]), f[2]) for f in ff])

    def apply(self, facts):
        for x, y, c in facts:
            self.add(x, y, c)


_ROOT = re.compile(r"L(\d+)")


def vacuous(path, tags):
    """Is `path` below a variant that the state's tags exclude?  (facts about it hold vacuously)"""
    i = path.find(".@")
    while i != -1:
        base = path[:i]
        j = path.find(".", i + 2)
        k = path.find("[", i + 2)
        ends = [e for e in (j, k) if e != -1]
        end = min(ends) if ends else len(path)
        var = path[i + 2:end]
        t = tags.get(base)
        if t is not None and t != var:
            return True
        i = path.find(".@", end)
    return False


def join(a, b, widen=False):
    if a is None or a.dead:
        return b.copy() if b is not None else None
    if b is None or b.dead:
        return a.copy()
    r = State()

    def side(s1, s2, both_done):
        for x, row in s1.out.items():
            for y, c in row.items():
                c2 = s2.get(x, y)
                if c2 is not None:
                    if both_done:
                        continue
                    if widen:
                        # a = old, b = new : stable constraints stay, growing ones jump to the next threshold
                        if c2 <= c:
                            r._set(x, y, c)
                        else:
                            for th in THRESHOLDS:
                                if th >= c2:
                                    r._set(x, y, th)
                                    break
                    else:
                        r._set(x, y, max(c, c2))
                else:
                    vx = x[0] in ("v", "#") and vacuous(x[1], s2.tag)
                    vy = y[0] in ("v", "#") and vacuous(y[1], s2.tag)
                    if vx or vy:
                        r._set(x, y, c)
    side(a, b, False)
    side(b, a, True)
    for p, t in a.tag.items():
        if b.tag.get(p) == t or (p not in b.tag and vacuous(p, b.tag)):
            r.tag[p] = t
    for p, t in b.tag.items():
        if p not in r.tag and p not in a.tag and vacuous(p, a.tag):
            r.tag[p] = t
    for p in set(a.nottag) | set(a.tag):
        ea = set(a.nottag.get(p, ()))
        eb = set(b.nottag.get(p, ()))
        # a known tag excludes every other variant: approximate with the recorded exclusions of the other side
        if p in a.tag and p not in a.nottag:
            ea = {v for v in eb if v != a.tag[p]}
        if p in b.tag and p not in b.nottag:
            eb = {v for v in ea if v != b.tag[p]}
        both = ea & eb
        if both:
            r.nottag[p] = frozenset(both)
    for k, fs in a.optf.items():
        if k in b.optf:
            r.optf[k] = [f for f in fs if f in b.optf[k]]
        elif vacuous(k[0], b.tag) or b.tag.get(k[0]) not in (None, k[1]):
            r.optf[k] = list(fs)
    for k, fs in b.optf.items():
        if k not in a.optf and (vacuous(k[0], a.tag) or a.tag.get(k[0]) not in (None, k[1])):
            r.optf[k] = list(fs)
    for p, (tf, ff) in a.condf.items():
        if p in b.condf:
            r.condf[p] = ([f for f in tf if f in b.condf[p][0]], [f for f in ff if f in b.condf[p][1]])
    r.sums = a.sums & b.sums
    return r


def same(a, b):
    if a is None or b is None:
        return a is b
    if a.dead != b.dead:
        return False
    return a.out == b.out and a.tag == b.tag and a.nottag == b.nottag and a.optf == b.optf and a.condf == b.condf and a.sums == b.sums


# ---------------------------------------------------------------------------------------------------------
class Obligation:
    def __init__(self, fn, bb, term, kind, what, ok, detail):
        self.fn, self.bb, self.term, self.kind, self.what, self.ok, self.detail = fn, bb, term, kind, what, ok, detail

    def key(self):
        return "%s in %s: %s" % (self.kind, self.fn.id, self.what)


class Analyzer:
    def __init__(self, prog, summaries=None, axioms=None):
        self.prog = prog
        self.entry_nottag = {}      # fn id -> {param path: frozenset(excluded variants)}   (holds at every call site)
        self.site_nottag = {}       # callee id -> list of per-call-site {arg index: excluded variants}
        self.entry_bounds = {}      # closure id -> {param path: (lo, hi)}   numeric range of a by-value parameter at its only call site(s)
        self.site_bounds = {}       # closure id -> list of per-call-site {param path: (lo, hi)}
        self.block_hooks = {}       # (fn id, bb) -> f(state): run when the block is entered (ghost snapshots for progress measures)
        self.site_facts = {}        # closure id -> list of per-call-site (facts, sum triples) over the closure's own variables (L2 = item, L1.k = k-th capture)
        self.entry_facts = {}       # closure id -> (facts, sum triples) assumed at its entry
        self.summaries = summaries if summaries is not None else {}
        self.axioms = axioms or []
        self.refcache = {}
        # adt id -> [(kind_x, field_x, kind_y, field_y, c)]:  self.<x> - self.<y> <= c  holds whenever control is outside the type's
        # own methods.  Assumed at the entry of methods taking &self / &mut self, proven at every construction and at every return of
        # a &mut self method (obligation kind "invariant").
        self.invariants = {}

    # ---- paths ---------------------------------------------------------------------------------------
    def ref_source(self, fn, l):
        """If local l is a single-def reference temporary `l = &PLACE` / `l = copy ref-local`, the PLACE."""
        key = (fn.id, l)
        if key in self.refcache:
            return self.refcache[key]
        d = df.defs_of(fn)
        res = None
        one = d.single(l)
        if one is not None and one[0] == "stmt" and l > fn.arg_count:
            rv = one[3]["rv"]
            ty = fn.local_ty(l)
            if rv["k"] in ("ref", "rawptr"):
                res = rv["pl"]
            elif rv["k"] == "use" and rv["op"].get("k") in ("copy", "move") and (ty.startswith("&") or ty.startswith("*")):
                res = rv["op"]["pl"]
            elif rv["k"] == "cast" and rv["op"].get("k") in ("copy", "move") and (ty.startswith("&") or ty.startswith("*")) and \
                    ("Unsize" in rv["ck"] or "PtrToPtr" in rv["ck"] or "Transmute" in rv["ck"]):
                res = rv["op"]["pl"]
        if one is not None and one[0] == "call" and l > fn.arg_count:
            t = one[2]
            c = callee_of(t)
            rp, q = c.get("rpath") or "", c.get("path") or ""
            ty = fn.local_ty(l)
            if (ty.startswith("&") and len(t["args"]) == 1 and t["args"][0].get("k") in ("copy", "move") and
                    any(rp.endswith(x) or q.endswith(x) for x in ALIAS_CALLS)):
                res = t["args"][0]["pl"]
        self.refcache[key] = res
        return res

    def cpath(self, fn, pl, st, depth=0, lhs=False):
        l = pl["l"]
        proj = list(pl.get("p", []))
        src = self.ref_source(fn, l) if depth < 12 else None
        if lhs and not (proj and proj[0] == "deref"):
            src = None      # the local itself is being defined
        if src is not None:
            base = self.cpath(fn, src, st, depth + 1)
        else:
            base = "L%d" % l
        for p in proj:
            if p == "deref":
                continue
            if "f" in p:
                nm = p.get("name", p["f"])
                base += ".%s" % nm
            elif "downcast" in p:
                base += ".@%s" % p["downcast"]
            elif "index" in p:
                iv = ("v", "L%d" % p["index"])
                c = st.const_of(iv) if st is not None else None
                base += "[%s]" % (c if c is not None else "?%d" % p["index"])
            elif "cindex" in p:
                base += "[%s%d]" % ("-" if p["from_end"] else "", p["cindex"])
            else:
                base += "[??]"
        return base

    def range_closure_site(self, fn, st, t, A, D, post, obligations):
        op = t["args"][1]
        if op.get("k") not in ("copy", "move") or "p" in op["pl"]:
            return
        one = df.defs_of(fn).single(op["pl"]["l"])
        if one is None or one[0] != "stmt" or one[3]["rv"]["k"] != "agg" or one[3]["rv"].get("ak") != "closure":
            return
        cid = one[3]["rv"]["closure"]
        cl = self.prog.fns.get(cid)
        if cl is None or cl.arg_count != 2:
            return
        R = A[0]
        tmp = st.copy()
        I = ("v", "$item")
        tmp.forget(I)
        tmp.add(("v", R + ".start"), I, 0)
        tmp.add(I, ("v", R + ".end"), -1)
        self.bound_type(tmp, I, "usize")
        caps = [self.cpath(fn, o["pl"], st) if o.get("k") in ("copy", "move") else None for o in one[3]["rv"]["ops"]]
        # name the sums item + captured, so that what is known about end + captured carries over to them
        for k, P in enumerate(caps):
            if P and ("v", P) in tmp.vars():
                K = ("v", P)
                Kc = self.canon(tmp, (K, 0))
                if Kc and Kc[0] != K and Kc[0] != Z and Kc[1] == 0:
                    tmp.add_sum(("v", "$c%d" % k), I, Kc[0], 0)     # ties in with the sums the caller already knows (named by canonical operands)
                tmp.add_sum(("v", "$t%d" % k), I, K, 0)
        tmp.saturate_sums()
        if tmp.dead:
            return

        def ren(v):
            if v == Z:
                return Z
            if v == I:
                return ("v", "L2")
            if v[0] in ("v", "#"):
                for k, P in enumerate(caps):
                    if P and State.under(v[1], P):
                        return (v[0], "L1.%d" % k + v[1][len(P):])
                return None
            return None
        V = [v for v in tmp.vars() if ren(v) is not None]
        triples = []
        sren = {}
        for (S, x, y, c) in tmp.sums:
            rx, ry = ren(x), ren(y)
            if rx is None or ry is None or rx == Z or ry == Z:
                continue
            if repr(ry) < repr(rx):
                rx, ry = ry, rx
            S2 = ("s", "%s|%s" % (show_var(rx), show_var(ry)))
            sren[S] = S2
            triples.append((S2, rx, ry, c))
        allv = V + list(sren) + [Z]
        rn = lambda v: sren[v] if v in sren else ren(v)
        facts = []
        for x in allv:
            for y in allv:
                if x == y:
                    continue
                c = tmp.get(x, y)
                if c is not None:
                    facts.append((rn(x), rn(y), c))
        if obligations is not None:
            self.site_facts.setdefault(cid, []).append((facts, triples))
        # the item handed back by find / position-like combinators satisfies the same bounds relative to everything outside the range
        if (callee_of(t).get("path") or "").endswith("Iterator::find") and t["dty"] == "core::option::Option<usize>":
            pv = ("v", D + ".@Some.0")
            rf = []
            for y in list(tmp.vars()) + [Z]:
                if y == I or (y != Z and y[0] in ("v", "#") and (State.under(y[1], R) or State.under(y[1], D) or y[1].startswith("$"))):
                    continue
                if y != Z and y[0] == "s":
                    continue
                c1, c2 = tmp.get(I, y), tmp.get(y, I)
                if c1 is not None:
                    rf.append((pv, y, c1))
                if c2 is not None:
                    rf.append((y, pv, c2))
            if rf:
                post.append(("optf", "Some", rf, R))

    def value_copies(self, fn, depth=0):
        """[(return path, parameter path)]: parts of the return value that are plain copies / moves of parts of a parameter on every
        return path, read off the expression of the return place: tuples and enum constructors are descended into, `x.map(|v| ..)` on
        a Result / Option composes with the copies of the closure, calls of local functions with theirs.  Used to carry what the
        caller knows about an argument (e.g. the length of the remaining input) over to the result, also through generic helpers
        whose own body says nothing about the type."""
        key = ("copies", fn.id)
        if key in self.refcache:
            return self.refcache[key]
        self.refcache[key] = []
        out = []
        if depth < 4:
            try:
                e = df.local_expr(fn, 0)
                self._copies_of(fn, e, "L0", out, depth)
            except RecursionError:
                out = []
        self.refcache[key] = out
        return out

    def _param_path(self, e):
        """"L<i>.<fields>" when e is a field/downcast chain rooted at a parameter."""
        parts = []
        while isinstance(e, tuple) and e and e[0] in ("field", "downcast"):
            parts.append((".%s" % e[2]) if e[0] == "field" else (".@%s" % e[2]))
            e = e[1]
        if isinstance(e, tuple) and e and e[0] == "param":
            return "L%d" % e[1] + "".join(reversed(parts))
        return None

    def _copies_of(self, fn, e, rp, out, depth):
        if not isinstance(e, tuple) or not e:
            return
        pp = self._param_path(e)
        if pp is not None:
            # only parameters that still hold what the caller passed: never assigned, not handed out mutably, not a `&mut`
            n = int(_ROOT.match(pp).group(1))
            d = df.defs_of(fn)
            if not d.all(n) and n not in d.mut_borrowed and not fn.local_ty(n).startswith("&mut "):
                out.append((rp, pp))
            return
        if e[0] == "agg":
            if e[1] == "tuple":
                for i, o in enumerate(e[3]):
                    self._copies_of(fn, o, "%s.%d" % (rp, i), out, depth)
            elif e[2] is not None and len(e[3]) >= 1:       # enum variant / struct constructor
                for i, o in enumerate(e[3]):
                    self._copies_of(fn, o, "%s.@%s.%d" % (rp, e[2], i), out, depth)
            return
        if e[0] == "call":
            last = e[1].split("::")[-1]
            if last == "map" and ("Result::<T, E>::map" in e[1] or "Option::<T>::map" in e[1]) and len(e[2]) == 2 and \
                    isinstance(e[2][1], tuple) and e[2][1] and e[2][1][0] == "closure" and e[2][1][1] in self.prog.fns:
                var = "Ok" if "Result" in e[1] else "Some"
                src = self._param_path(e[2][0])
                cl = self.prog.fns[e[2][1][1]]
                if src is not None and cl.arg_count == 2:
                    for crp, cap in self.value_copies(cl, depth + 1):
                        if cap == "L2" or cap.startswith("L2."):
                            out.append(("%s.@%s.0%s" % (rp, var, crp[2:]), "%s.@%s.0%s" % (src, var, cap[2:])))
                return
            if e[1] in self.prog.fns:
                callee = self.prog.fns[e[1]]
                args = [self._param_path(a) for a in e[2]]
                for crp, cap in self.value_copies(callee, depth + 1):
                    m = re.match(r"L(\d+)(.*)", cap)
                    i = int(m.group(1)) - 1
                    if 0 <= i < len(args) and args[i] is not None:
                        out.append((rp + crp[2:], args[i] + m.group(2)))

    def param_rooted(self, fn, v):
        """Is v a value / length rooted at a parameter that is never re-assigned?"""
        if v[0] not in ("v", "#"):
            return False
        m = _ROOT.match(v[1])
        if not m:
            return False
        n = int(m.group(1))
        if not (1 <= n <= fn.arg_count):
            return False
        d = df.defs_of(fn)
        return not d.all(n) and n not in d.mut_borrowed

    def const_slice_len(self, fn, op, depth=0):
        """Number of elements when the operand is (a reference to) an array of constant length, possibly unsized into a slice."""
        import re
        if op.get("k") not in ("copy", "move") or depth > 6:
            m = re.search(r"\[[^;\[\]]+; (\d+)\]", op.get("ty", "") or "") if op.get("k") == "const" else None
            return int(m.group(1)) if m else None
        pl = op["pl"]
        if any(x != "deref" for x in pl.get("p", [])):
            return None
        m = re.match(r"^&?(?:mut )?\[[^;\[\]]+; (\d+)\]$", fn.local_ty(pl["l"]))
        if m:
            return int(m.group(1))
        one = df.defs_of(fn).single(pl["l"])
        if one is None or one[0] != "stmt":
            return None
        rv = one[3]["rv"]
        if rv["k"] == "cast" and "Unsize" in rv["ck"] or rv["k"] == "use":
            return self.const_slice_len(fn, rv["op"], depth + 1)
        if rv["k"] == "ref":
            return self.const_slice_len(fn, {"k": "copy", "pl": rv["pl"]}, depth + 1)
        return None

    def is_int_ty(self, ty):
        return ty in INT_RANGES

    def place_ty(self, fn, pl):
        return pl.get("ty") or fn.local_ty(pl["l"])

    def term_of(self, fn, op, st):
        """An operand as (var, const_offset): value = var + offset."""
        if op.get("k") == "const":
            if "int" in op:
                return (Z, op["int"])
            return None
        if op.get("k") in ("copy", "move"):
            v = ("v", self.cpath(fn, op["pl"], st))
            ty = self.place_ty(fn, op["pl"])
            if st is not None and ty in INT_RANGES and st.get(v, Z) is None:
                self.bound_type(st, v, ty)
            return (v, 0)
        return None

    def canon(self, st, term):
        """Replace the variable of a term by an equal one that lives longest (lowest local number, e.g. a user variable)."""
        if term is None or st is None:
            return term
        x, cx = term
        if x == Z or x[0] not in ("v", "#"):
            return term
        best = x
        bk = self._rank(x)
        for y, c in st.out.get(x, {}).items():
            if c == 0 and y != Z and st.get(y, x) == 0:
                k = self._rank(y)
                if k < bk:
                    best, bk = y, k
        return (best, cx)

    @staticmethod
    def _rank(v):
        m = _ROOT.match(v[1])
        return (int(m.group(1)) if m else 10 ** 9, len(v[1]))

    def bound_type(self, st, var, ty):
        r = INT_RANGES.get(ty)
        if r:
            st.add(var, Z, r[1])
            st.add(Z, var, -r[0])

    def bound_len(self, st, path):
        st.add(("#", path), Z, LEN_MAX)
        st.add(Z, ("#", path), 0)

    # ---- transfer: statements ------------------------------------------------------------------------------
    def assign(self, fn, st, s):
        lhs = s["lhs"]
        rv = s["rv"]
        P = self.cpath(fn, lhs, st, lhs=True)
        lty = self.place_ty(fn, lhs)
        k = rv["k"]
        # evaluate the right-hand side against the state *before* the strong update
        todo = []
        if k == "use":
            op = rv["op"]
            if op.get("k") == "const":
                if "int" in op:
                    todo.append(("const", op["int"]))
                elif "bytes" in op:
                    todo.append(("len", len(op["bytes"])))
            else:
                Q = self.cpath(fn, op["pl"], st)
                todo.append(("copy", Q))
        elif k in ("ref", "rawptr"):
            Q = self.cpath(fn, rv["pl"], st)
            todo.append(("copy", Q))
        elif k == "cast":
            op = rv["op"]
            if op.get("k") == "const" and "int" in op:
                r = INT_RANGES.get(rv["ty"])
                if r and r[0] <= op["int"] <= r[1]:
                    todo.append(("const", op["int"]))
            elif op.get("k") in ("copy", "move"):
                Q = self.cpath(fn, op["pl"], st)
                if "IntToInt" in rv["ck"]:
                    r = INT_RANGES.get(rv["ty"])
                    u, l_ = st.ub(("v", Q)), st.lb(("v", Q))
                    if r and u is not None and l_ is not None and r[0] <= l_ and u <= r[1]:
                        todo.append(("copy", Q))
                else:
                    todo.append(("copy", Q))
        elif k == "bin":
            a = self.term_of(fn, rv["a"], st)
            b = self.term_of(fn, rv["b"], st)
            op = rv["op"]
            tgt = P + ".0" if op.endswith("WithOverflow") else P
            base = op.replace("WithOverflow", "").replace("Unchecked", "")
            if a and b and base in ("Add", "Sub"):
                todo.append(("arith", base, self.canon(st, a), self.canon(st, b), tgt))
            elif base in ("BitAnd",) and a and b:
                todo.append(("and", a, b, tgt))
            elif base in ("Lt", "Le", "Gt", "Ge", "Eq", "Ne") and a and b:
                todo.append(("cmp", base, self.canon(st, a), self.canon(st, b)))
        elif k == "un":
            if rv["op"] == "PtrMetadata" and rv["a"].get("k") in ("copy", "move"):
                todo.append(("lenof", self.cpath(fn, rv["a"]["pl"], st)))
            elif rv["op"] == "PtrMetadata" and rv["a"].get("k") == "const" and "bytes" in rv["a"]:
                todo.append(("const", len(rv["a"]["bytes"])))
            elif rv["op"] == "Not":
                if rv["a"].get("k") in ("copy", "move"):
                    todo.append(("not", self.cpath(fn, rv["a"]["pl"], st)))
        elif k == "agg":
            parts = []
            names = rv.get("fields") if rv.get("ak") == "adt" else None
            for i, o in enumerate(rv["ops"]):
                fname = names[i] if names and i < len(names) else i
                if o.get("k") == "const":
                    if "int" in o:
                        parts.append((fname, ("const", o["int"])))
                    elif "bytes" in o:
                        parts.append((fname, ("len", len(o["bytes"]))))
                elif o.get("k") in ("copy", "move"):
                    parts.append((fname, ("copy", self.cpath(fn, o["pl"], st), self.place_ty(fn, o["pl"]))))
            todo.append(("agg", rv.get("ak"), rv.get("variant"), rv.get("adt"), parts))
        elif k == "discr":
            pass
        # snapshot what copies need before forgetting (copy from a path under P itself, e.g. x = x.0)
        tmp = None
        for t in todo:
            if t[0] == "copy" and (State.under(t[1], P) or State.under(P, t[1])):
                tmp = "T!"
                st.forget_prefix(tmp)
                st.copy_prefix(t[1], tmp)
        st.forget_prefix(P)
        for t in todo:
            if t[0] == "const":
                st.eq(("v", P), Z, t[1])
            elif t[0] == "len":
                st.eq(("#", P), Z, t[1])
            elif t[0] == "copy":
                st.copy_prefix(tmp if tmp else t[1], P)
                if not tmp:
                    if self.is_int_ty(lty):
                        st.eq(("v", P), ("v", t[1]))
                    elif self.is_seq_ty(lty):
                        self.bound_len(st, t[1])
                        st.eq(("#", P), ("#", t[1]))
            elif t[0] == "lenof":
                self.bound_len(st, t[1])
                st.eq(("v", P), ("#", t[1]))
            elif t[0] == "arith":
                _, base, a, b, tgt = t
                self.arith(st, base, a, b, ("v", tgt))
            elif t[0] == "and":
                _, a, b, tgt = t
                # x & c  <=  c   for non-negative constants
                for side in (a, b):
                    if side[0] == Z and side[1] >= 0:
                        st.add(("v", tgt), Z, side[1])
                st.add(Z, ("v", tgt), 0)
            elif t[0] == "cmp":
                _, base, a, b = t
                st.condf[P] = (self.cmp_facts(st, base, a, b, True), self.cmp_facts(st, base, a, b, False))
            elif t[0] == "not":
                cf = st.condf.get(t[1])
                if cf:
                    st.condf[P] = (cf[1], cf[0])
            elif t[0] == "agg":
                _, ak, variant, adt, parts = t
                pre = P
                if ak == "adt" and variant is not None and self.is_enum(adt):
                    pre = P + ".@" + variant
                    st.tag[P] = variant
                for fname, what in parts:
                    q = "%s.%s" % (pre, fname)
                    if what[0] == "const":
                        st.eq(("v", q), Z, what[1])
                    elif what[0] == "len":
                        st.eq(("#", q), Z, what[1])
                    else:
                        st.copy_prefix(what[1], q)
                        fty = what[2] if len(what) > 2 else None
                        if fty and self.is_int_ty(fty):
                            st.eq(("v", q), ("v", what[1]))
                        elif fty and self.is_seq_ty(fty):
                            self.bound_len(st, what[1])
                            st.eq(("#", q), ("#", what[1]))
        if tmp:
            st.forget_prefix(tmp)
        if self.is_int_ty(lty):
            self.bound_type(st, ("v", P), lty)

    @staticmethod
    def is_seq_ty(ty):
        t = ty
        while t.startswith("&"):
            t = t[1:].lstrip()
            if t.startswith("mut "):
                t = t[4:]
            if t.startswith("'"):
                t = t.split(" ", 1)[1] if " " in t else t
        return t.startswith("[") or t.startswith("alloc::vec::Vec<") or t in ("str", "alloc::string::String")

    def is_enum(self, adt):
        a = self.prog.adts.get(adt)
        if a is not None:
            return a["kind"] == "Enum"
        return adt in ("core::option::Option", "core::result::Result", "core::ops::control_flow::ControlFlow", "alloc::borrow::Cow")

    def arith(self, st, base, a, b, tgt):
        (xa, ca), (xb, cb) = a, b
        if base == "Sub":
            # tgt = (xa + ca) - (xb + cb)
            if xb == Z:
                st.eq(tgt, xa, ca - cb) if xa != Z else st.eq(tgt, Z, ca - cb)
                return
            lo, hi = st.lb(xb), st.ub(xb)
            if xa == Z:
                if lo is not None:
                    st.add(tgt, Z, ca - cb - lo)
                if hi is not None:
                    st.add(Z, tgt, -(ca - cb - hi))
                return
            if hi is not None:
                st.add(xa, tgt, -(ca - cb) + hi)      # tgt >= xa + ca - cb - hi
            if lo is not None:
                st.add(tgt, xa, (ca - cb) - lo)        # tgt <= xa + ca - cb - lo
            d = st.get(xa, xb)
            if d is not None:
                st.add(tgt, Z, d + ca - cb)
            d2 = st.get(xb, xa)
            if d2 is not None:
                st.add(Z, tgt, d2 - ca + cb)
            # tgt = xa + ca - xb - cb   <=>   xa = tgt + xb + (cb - ca)
            st.add_sum(xa, tgt, xb, cb - ca)
        else:
            if xa == Z and xb == Z:
                st.eq(tgt, Z, ca + cb)
                return
            if xb == Z:
                st.eq(tgt, xa, ca + cb)
                return
            if xa == Z:
                st.eq(tgt, xb, ca + cb)
                return
            for (p, q) in ((xa, xb), (xb, xa)):
                lo, hi = st.lb(q), st.ub(q)
                if hi is not None:
                    st.add(tgt, p, hi + ca + cb)
                if lo is not None:
                    st.add(p, tgt, -(lo + ca + cb))
            st.add_sum(tgt, xa, xb, ca + cb)

    def cmp_facts(self, st, base, a, b, truth):
        (xa, ca), (xb, cb) = a, b
        # a OP b  with a = xa + ca, b = xb + cb
        def le(x, cx, y, cy, k):      # (x+cx) - (y+cy) <= k
            return (x, y, k - cx + cy)
        op = base
        if not truth:
            op = {"Lt": "Ge", "Le": "Gt", "Gt": "Le", "Ge": "Lt", "Eq": "Ne", "Ne": "Eq"}[base]
        if op == "Lt":
            return [le(xa, ca, xb, cb, -1)]
        if op == "Le":
            return [le(xa, ca, xb, cb, 0)]
        if op == "Gt":
            return [le(xb, cb, xa, ca, -1)]
        if op == "Ge":
            return [le(xb, cb, xa, ca, 0)]
        if op == "Eq":
            return [le(xa, ca, xb, cb, 0), le(xb, cb, xa, ca, 0)]
        if op == "Ne":
            # only usable against a bound: x != lower bound  =>  x >= lb + 1 (decided when applied)
            return [("NE", (xa, ca), (xb, cb))]
        return []

    def apply_facts(self, st, facts):
        for f in facts:
            if f[0] == "NE":
                (xa, ca), (xb, cb) = f[1], f[2]
                # x + ca != y + cb
                for (p, cp, q, cq) in ((xa, ca, xb, cb), (xb, cb, xa, ca)):
                    d = st.get(q, p)       # q - p <= d
                    # if we know p + cp >= q + cq (i.e. q - p <= cp - cq) then p + cp >= q + cq + 1
                    if d is not None and d <= cp - cq:
                        st.add(q, p, cp - cq - 1)
                continue
            st.add(f[0], f[1], f[2])

    # ---- transfer: calls -----------------------------------------------------------------------------------------
    def slice_of_iter(self, fn, op, st):
        """Path of the slice an iterator operand was created from (`s.iter()`), or None."""
        locs = df.operand_trace(fn, op)
        d = df.defs_of(fn)
        for l in locs:
            for dd in d.all(l):
                if dd[0] == "call":
                    p = callee_of(dd[2]).get("rpath") or ""
                    if p.endswith("core::slice::<impl [T]>::iter") and dd[2]["args"] and dd[2]["args"][0].get("k") in ("copy", "move"):
                        return self.cpath(fn, dd[2]["args"][0]["pl"], st)
        return None

    def arg_path(self, fn, t, i, st):
        a = t["args"][i]
        if a.get("k") in ("copy", "move"):
            return self.cpath(fn, a["pl"], st)
        return None

    def known_variant(self, fn, st, op, path):
        if path is not None and st.tag.get(path):
            return st.tag[path]
        e = df.operand_expr(fn, op)
        if isinstance(e, tuple) and e and e[0] == "constitem" and e[2] is not None and e[2] < len(fn.promoted):
            # the value of the promoted is what is assigned to its return place (through one reference)
            body = fn.promoted[e[2]]
            aggs = {}
            ret_src = None
            for b in body["blocks"]:
                for s in b["stmts"]:
                    if s["k"] == "assign" and "p" not in s["lhs"]:
                        if s["rv"]["k"] == "agg" and s["rv"].get("ak") == "adt" and s["rv"].get("variant"):
                            aggs[s["lhs"]["l"]] = s["rv"]["variant"]
                        if s["lhs"]["l"] == 0 and s["rv"]["k"] in ("ref", "use"):
                            pl = s["rv"].get("pl") or (s["rv"].get("op") or {}).get("pl")
                            if pl and "p" not in pl:
                                ret_src = pl["l"]
            if 0 in aggs:
                return aggs[0]
            if ret_src in aggs:
                return aggs[ret_src]
        return None

    def promoted_range(self, fn, op):
        """(lo, hi) of a promoted RangeInclusive constant operand."""
        e = df.operand_expr(fn, op)
        if not (isinstance(e, tuple) and e and e[0] == "constitem" and e[2] is not None and e[2] < len(fn.promoted)):
            return None
        ints = []
        for b in fn.promoted[e[2]]["blocks"]:
            for s in b["stmts"]:
                if s["k"] == "assign" and s["rv"]["k"] == "agg" and "RangeInclusive" in (s["rv"].get("adt") or ""):
                    for o in s["rv"]["ops"]:
                        if o.get("k") == "const" and "int" in o and o.get("ty") != "bool":
                            ints.append(o["int"])
                    if len(ints) >= 2:
                        return ints[0], ints[1]
            t = b["term"]
            if t["k"] == "call" and (callee_of(t).get("rpath") or "").endswith("RangeInclusive::<Idx>::new"):
                vals = [a.get("int") for a in t["args"]]
                if None not in vals:
                    return vals[0], vals[1]
        return None

    def call(self, fn, st, bb, t, obligations=None):
        c = callee_of(t)
        rp = c.get("rpath") or ""
        q = c.get("path") or ""
        D = self.cpath(fn, t["dest"], st, lhs=True)
        dty = t["dty"]
        nargs = len(t["args"])
        A = [self.arg_path(fn, t, i, st) for i in range(nargs)]
        T = [self.canon(st, self.term_of(fn, a, st)) for a in t["args"]]
        post = []      # deferred effects after the dest is forgotten

        def name_is(*sufs):
            return any(rp.endswith(s) or q.endswith(s) for s in sufs)

        if obligations is not None:
            self.call_obligations(fn, st, bb, t, c, A, T, obligations)
            if rp in self.prog.fns:
                self.site_nottag.setdefault(rp, []).append({i: st.nottag.get(A[i], frozenset()) for i in range(nargs) if A[i] is not None})

        if name_is("memchr::memchr::memchr", "memchr::memchr", "memchr::memrchr") and nargs == 2 and A[1]:
            S = A[1]
            post.append(("optf", "Some", [(("v", D + ".@Some.0"), ("#", S), -1), (Z, ("v", D + ".@Some.0"), 0)], S))
        elif name_is("Iterator::position", "Iterator::rposition", "Iterator>::position", "Iterator>::rposition") and nargs == 2:
            S = self.slice_of_iter(fn, t["args"][0], st)
            if S:
                post.append(("optf", "Some", [(("v", D + ".@Some.0"), ("#", S), -1), (Z, ("v", D + ".@Some.0"), 0)], S))
        elif name_is("Iterator::count") and nargs == 1 and dty == "usize":
            # counting what an adaptor chain over a slice yields gives at most the slice's length
            S = self.slice_of_iter(fn, t["args"][0], st)
            if S:
                post.append(("le_len", S))
        elif name_is("Option::<T>::unwrap_or") and nargs == 2 and A[0] and self.is_int_ty(dty):
            some = st.copy()
            fs = some.optf.get((A[0], "Some"))
            if fs:
                self.apply_facts(some, fs)
            post.append(("joinvals", [(some, (("v", A[0] + ".@Some.0"), 0)), (st.copy(), T[1])]))
        elif name_is("<impl [T]>::split_first", "<impl [T]>::split_last") and A[0]:
            # Some((x, rest)): the slice was not empty and rest is one element shorter
            r_ = ("#", D + ".@Some.0.1")
            post.append(("optf", "Some", [(Z, ("#", A[0]), -1), (r_, ("#", A[0]), -1), (("#", A[0]), r_, 1)], A[0]))
        elif name_is("<impl [T]>::first", "<impl [T]>::last") and A[0]:
            post.append(("optf", "Some", [(Z, ("#", A[0]), -1)], A[0]))
        elif name_is("<impl [T]>::get") and nargs == 2 and A[0] and t["argtys"][1] == "usize" and T[1]:
            x, cx = T[1]
            post.append(("optf", "Some", [(x, ("#", A[0]), -1 - cx)], A[0]))
        elif name_is("<impl [T]>::len", "Vec::<T, A>::len", "<impl str>::len", "String::len") and A[0]:
            post.append(("lenof", A[0]))
        elif name_is("<impl [T]>::is_empty", "Vec::<T, A>::is_empty", "<impl str>::is_empty", "String::is_empty") and A[0]:
            post.append(("condf", [(("#", A[0]), Z, 0)], [(Z, ("#", A[0]), -1)], A[0]))
        elif name_is("core::cmp::min", "Ord::min") and nargs == 2 and T[0] and T[1]:
            post.append(("minmax", "min", T[0], T[1]))
        elif name_is("core::cmp::max", "Ord::max") and nargs == 2 and T[0] and T[1]:
            post.append(("minmax", "max", T[0], T[1]))
        elif name_is(">::saturating_sub") and T[0] and T[1]:
            post.append(("satsub", T[0], T[1]))
        elif name_is(">::saturating_add") and T[0] and T[1]:
            post.append(("satadd", T[0], T[1]))
        elif name_is("Index<I> for [T]>::index", "Index<I>>::index", "IndexMut<I> for [T]>::index_mut", "Index<I> for [T; N]>::index") and nargs == 2 and A[0]:
            post.append(("index", A[0], A[1], t["argtys"][1], T[1]))
        elif name_is("<impl [T]>::split_at") and nargs == 2 and A[0] and T[1]:
            post.append(("split_at", A[0], T[1]))
        elif name_is("Try>::branch", "Try::branch") and A[0]:
            post.append(("try", A[0]))
        elif name_is("RangeInclusive::<Idx>::contains") and nargs == 2 and A[1]:
            r = self.promoted_range(fn, t["args"][0])
            if r:
                x = ("v", A[1])
                post.append(("condf", [(x, Z, r[1]), (Z, x, -r[0])], [], A[1]))
        elif name_is("<impl [T]>::strip_prefix", "<impl [T]>::strip_suffix") and A[0]:
            n = self.const_slice_len(fn, t["args"][1]) if nargs == 2 else None
            if n:       # exactly the needle's length is taken off
                post.append(("optf", "Some", [(("#", D + ".@Some.0"), ("#", A[0]), -n), (("#", A[0]), ("#", D + ".@Some.0"), n)], A[0]))
            else:
                post.append(("optf", "Some", [(("#", D + ".@Some.0"), ("#", A[0]), 0)], A[0]))
        elif name_is("<impl [T]>::starts_with", "<impl [T]>::ends_with") and nargs == 2 and A[0]:
            # a slice that starts / ends with an n-element needle has at least n elements
            n = self.const_slice_len(fn, t["args"][1])
            if n:
                post.append(("condf", [(Z, ("#", A[0]), -n)], [], A[0]))
        elif (q.endswith("PartialEq>::eq") or q.endswith("PartialEq::eq") or rp.endswith("::eq")) and nargs == 2 and A[0] and A[1] and \
                "Option<" in (t["argtys"][0] or ""):
            fa, fb = st.optf.get((A[0], "Some")), st.optf.get((A[1], "Some"))
            ta, tb = self.known_variant(fn, st, t["args"][0], A[0]), self.known_variant(fn, st, t["args"][1], A[1])
            if tb == "Some" and fa:
                post.append(("condf", list(fa), [], A[0]))
            elif ta == "Some" and fb:
                post.append(("condf", list(fb), [], A[1]))
        elif name_is("FromResidual<core::result::Result<core::convert::Infallible, E>>>::from_residual", "from_residual"):
            post.append(("settag", "Err" if dty.startswith("core::result::Result<") else "None"))
        elif name_is("Deref>::deref", "DerefMut>::deref_mut", "Deref::deref", "DerefMut::deref_mut", "AsRef<[T]>>::as_ref", "Vec::<T, A>::as_slice",
                     "Borrow<[T]>>::borrow", "<impl [T]>::as_ref") and nargs == 1 and A[0]:
            post.append(("alias", A[0]))
        elif name_is("Enumerate<I> as core::iter::traits::iterator::Iterator>::next") and nargs == 1:
            S = self.slice_of_iter(fn, t["args"][0], st)
            if S:
                pv = ("v", D + ".@Some.0.0")
                post.append(("optf", "Some", [(pv, ("#", S), -1), (Z, pv, 0), (pv, Z, (1 << 63) - 2)], S))
            elif t["argtys"] and any(x in t["argtys"][0] for x in ("core::slice::iter::Iter<", "core::slice::iter::IterMut<", "alloc::vec::into_iter::IntoIter<",
                                                                   "alloc::vec::drain::Drain<")):
                # elements of an in-memory sequence: there are at most isize::MAX of them, so the number of one is below that
                pv = ("v", D + ".@Some.0.0")
                post.append(("optf", "Some", [(pv, Z, (1 << 63) - 2), (Z, pv, 0)], None))
        elif name_is("Option::<T>::map") and nargs == 2 and A[0]:
            # Some(x) -> Some(f(x)): compose the Some-facts of the receiver with the closure's summary
            e = df.operand_expr(fn, t["args"][1])
            if isinstance(e, tuple) and e and e[0] == "closure" and e[1] in self.prog.fns and self.prog.fns[e[1]].arg_count == 2:
                tmp = st.copy()
                fs = tmp.optf.get((A[0], "Some"))
                if fs:
                    self.apply_facts(tmp, fs)
                pv = ("v", A[0] + ".@Some.0")
                pty = self.prog.fns[e[1]].local_ty(2)
                if self.is_int_ty(pty):
                    self.bound_type(tmp, pv, pty)
                    if obligations is not None:
                        self.site_bounds.setdefault(e[1], []).append({"L2": (tmp.lb(pv), tmp.ub(pv))})
                summ = self.summaries.get(e[1])
                if summ is not None and not tmp.dead:
                    self.apply_summary(fn, tmp, t, "$ret", [A[1], A[0] + ".@Some.0"], [None, None], summ)
                    rv_ = ("v", "$ret")
                    facts = []
                    for y in list(tmp.vars()) + [Z]:
                        if y == rv_ or (y != Z and (State.under(y[1], D) or State.under(y[1], A[0]))):
                            continue
                        c1, c2 = tmp.get(rv_, y), tmp.get(y, rv_)
                        if c1 is not None:
                            facts.append((("v", D + ".@Some.0"), y, c1))
                        if c2 is not None:
                            facts.append((y, ("v", D + ".@Some.0"), c2))
                    if facts:
                        post.append(("optf", "Some", facts, A[0]))
                if st.tag.get(A[0]) in ("Some", "None"):
                    post.append(("settag", st.tag[A[0]]))
        elif name_is("Result::<T, E>::map") and nargs == 2 and A[0]:
            e = df.operand_expr(fn, t["args"][1])
            if isinstance(e, tuple) and e and e[0] == "closure" and e[1] in self.summaries and self.summaries[e[1]] is not None:
                post.append(("map_payload", e[1], A[0], A[1], "Ok"))
        elif name_is("Option::<T>::ok_or_else", "Option::<T>::ok_or") and nargs == 2 and A[0]:
            post.append(("some_to_ok", A[0]))
        elif name_is("Result::<T, E>::map_err") and nargs == 2 and A[0]:
            post.append(("some_to_ok", A[0], "Ok", "Ok", "Err"))       # the Ok payload passes through unchanged
        elif name_is("Result::<T, E>::ok") and nargs == 1 and A[0]:
            post.append(("some_to_ok", A[0], "Ok", "Some", "None"))
        elif rp == "<I as core::iter::traits::collect::IntoIterator>::into_iter" and nargs == 1 and A[0]:
            # the blanket impl for iterators is the identity
            post.append(("alias", A[0]))
        elif name_is("Iterator for core::ops::range::Range<A>>::next") and nargs == 1 and A[0]:
            # Some(v): v = old start, v < end; the end does not change, the start only grows
            R = A[0]
            e_, s_ = ("v", R + ".end"), ("v", R + ".start")
            lo = st.lb(s_)
            facts = [(("v", D + ".@Some.0"), e_, -1)]
            if lo is not None:
                facts.append((Z, ("v", D + ".@Some.0"), -lo))
            post.append(("optf", "Some", facts, R))
            post.append(("range_next", R, lo))
        elif q.split("::")[-1] in RANGE_CLOSURE_COMBINATORS and q.startswith("core::iter::traits::iterator::Iterator::") and nargs == 2 and A[0] and \
                t["argtys"][0] in ("&mut core::ops::range::Range<usize>", "core::ops::range::Range<usize>"):
            # (lo..hi).find(|&i| ..) and friends: the closure runs with lo <= i < hi, and whatever the caller knows about the values
            # the closure captured still holds inside it; a found item is one of those i
            self.range_closure_site(fn, st, t, A, D, post, obligations)
        elif name_is("ThreadPool::install") and nargs == 2 and A[1]:
            cl = None
            e = df.operand_expr(fn, t["args"][1])
            if isinstance(e, tuple) and e and e[0] == "closure" and e[1] in self.summaries and self.summaries[e[1]] is not None:
                post.append(("closure_summary", e[1], A[1]))
        elif rp in self.summaries and self.summaries[rp] is not None and not (c.get("self_closure") and q.startswith("core::ops::function::Fn")):
            post.append(("summary", rp))
        elif c.get("self_closure") in self.summaries and self.summaries[c.get("self_closure")] is not None and nargs == 2 and \
                q.startswith("core::ops::function::Fn") and A[0] and A[1]:
            # a local closure called directly: f(a, b) is Fn::call(&f, (a, b)); its summary speaks of (env, a, b)
            ncl = self.prog.fns[c["self_closure"]].arg_count if c["self_closure"] in self.prog.fns else 0
            post.append(("closure_call", c["self_closure"], [A[0]] + ["%s.%d" % (A[1], i) for i in range(max(0, ncl - 1))]))
        # havoc what is mutably borrowed by the call
        keep_end = {p[1] for p in post if p[0] == "range_next"}
        for i, aty in enumerate(t["argtys"]):
            if aty.startswith("&mut ") and A[i]:
                if A[i] in keep_end:
                    st.forget_prefix(A[i] + ".start")      # Range::next only moves the start
                else:
                    st.forget_prefix(A[i])
        # evaluate deferred parts that read argument state before the dest is overwritten
        pre = {}
        for p in post:
            if p[0] == "joinvals":
                pre["join"] = self.join_bounds(st, p[1])
            elif p[0] == "minmax":
                pre["mm"] = self.minmax_bounds(st, p[1], p[2], p[3])
            elif p[0] == "try":
                pre["try"] = st.copy()
            elif p[0] == "some_to_ok":
                R = p[1]
                sp = R + ".@%s.0" % (p[2] if len(p) > 2 else "Some")
                keep = []
                for v in st.vars():
                    if v[0] in ("v", "#") and State.under(v[1], sp):
                        for y, c_ in st.out.get(v, {}).items():
                            if y == Z or not State.under(y[1], R):
                                keep.append((v, y, c_))
                        for x_, c_ in st.inn.get(v, {}).items():
                            if x_ == Z or not State.under(x_[1], R):
                                keep.append((x_, v, c_))
                pre["s2o"] = (keep, list(st.optf.get((R, p[2] if len(p) > 2 else "Some")) or []), st.tag.get(R))
        def canon_facts(fs):
            out_ = []
            for f in fs:
                if f[0] == "NE":
                    out_.append(f)
                    continue
                x = f[0] if (f[0] == Z or State.under(f[0][1], D)) else self.canon(st, (f[0], 0))[0]
                y = f[1] if (f[1] == Z or State.under(f[1][1], D)) else self.canon(st, (f[1], 0))[0]
                out_.append((x, y, f[2]))
            return out_
        post = [((p[0], p[1], canon_facts(p[2])) + tuple(p[3:])) if p[0] == "optf" else
                ((p[0], canon_facts(p[1]), canon_facts(p[2])) + tuple(p[3:])) if p[0] == "condf" else p for p in post]
        st.forget_prefix(D)
        for p in post:
            kind = p[0]
            if kind == "optf":
                # relate the payload to the function's parameters as well: the variable a fact mentions may be dead by the time
                # the variant is tested, the parameters are not
                fs = list(p[2])
                extra = []
                for f in fs:
                    if f[0] == "NE":
                        continue
                    x, y, c = f
                    if x != Z and State.under(x[1], D) and y != Z and not State.under(y[1], D):
                        for z, d in st.out.get(y, {}).items():
                            if z != Z and self.param_rooted(fn, z) and not State.under(z[1], D):
                                extra.append((x, z, c + d))
                    if y != Z and State.under(y[1], D) and x != Z and not State.under(x[1], D):
                        for z, d in st.inn.get(x, {}).items():
                            if z != Z and self.param_rooted(fn, z) and not State.under(z[1], D):
                                extra.append((z, y, d + c))
                st.optf[(D, p[1])] = fs + [e for e in extra if e not in fs]
            elif kind == "condf":
                st.condf[D] = (list(p[1]), list(p[2]))
            elif kind == "lenof":
                self.bound_len(st, p[1])
                st.eq(("v", D), ("#", p[1]))
            elif kind == "joinvals":
                for (x, y, cc) in pre["join"](("v", D)):
                    st.add(x, y, cc)
            elif kind == "minmax":
                for (x, y, cc) in pre["mm"](("v", D)):
                    st.add(x, y, cc)
            elif kind == "satsub":
                (xa, ca), (xb, cb) = p[1], p[2]
                st.add(("v", D), xa, ca)
                st.add(Z, ("v", D), 0)
            elif kind == "satadd":
                for (x, cx) in (p[1], p[2]):
                    if x == Z:
                        st.add(Z, ("v", D), -cx)
                    else:
                        st.add(x, ("v", D), -cx)
            elif kind == "index":
                S, R, rty, T1 = p[1], p[2], p[3], p[4]
                self.bound_len(st, D)
                self.bound_len(st, S)
                st.add(("#", D), ("#", S), 0)
                if rty.startswith("core::ops::range::RangeFull"):
                    st.eq(("#", D), ("#", S))
                elif rty.startswith("core::ops::range::RangeFrom<") and R:
                    cst = st.const_of(("v", R + ".start"))
                    if cst is not None:
                        st.eq(("#", D), ("#", S), -cst)
                    else:
                        # len(s[a..]) = len(s) - a: at least the lower bound of a is taken off; the exact relation is a sum
                        lo = st.lb(("v", R + ".start"))
                        if lo is not None and lo > 0:
                            st.add(("#", D), ("#", S), -lo)
                        sv = self.canon(st, (("v", R + ".start"), 0))
                        if sv and sv[0] != Z:
                            st.add_sum(("#", S), ("#", D), sv[0], sv[1])
                elif rty.startswith("core::ops::range::RangeTo<") and R:
                    st.eq(("#", D), ("v", R + ".end"))
                elif rty.startswith("core::ops::range::Range<") and R:
                    cst = st.const_of(("v", R + ".start"))
                    if cst is not None:
                        st.eq(("#", D), ("v", R + ".end"), -cst)
                    else:
                        st.add(("#", D), ("v", R + ".end"), 0)
            elif kind == "le_len":
                self.bound_len(st, p[1])
                st.add(("v", D), ("#", p[1]), 0)
            elif kind == "split_at":
                S, (xm, cm) = p[1], p[2]
                self.bound_len(st, D + ".0")
                self.bound_len(st, D + ".1")
                st.eq(("#", D + ".0"), xm, cm)
                st.add(("#", D + ".1"), ("#", S), 0)
                # the two halves make up the whole: len(s) = len(left) + len(right)
                lo = st.lb(("#", D + ".0"))
                if lo is not None and lo > 0:
                    st.add(("#", D + ".1"), ("#", S), -lo)
                st.add_sum(("#", S), ("#", D + ".0"), ("#", D + ".1"), 0)
            elif kind == "try":
                R = p[1]
                src = pre["try"]
                # bring the argument's facts along: Ok -> Continue, Some -> Continue
                tmp = src
                for v in list(tmp.vars()):
                    pass
                st2 = st
                for variant in ("Ok", "Some"):
                    sp = "%s.@%s.0" % (R, variant)
                    dp = "%s.@Continue.0" % D
                    # constraints live in st (R's paths are still there unless R == D)
                    st2.copy_prefix(sp, dp)
                    fs = st2.optf.get((R, variant))
                    if fs:
                        def ren(tv, sp=sp, dp=dp):
                            return (tv[0], dp + tv[1][len(sp):]) if tv[0] in ("v", "#") and State.under(tv[1], sp) else tv
                        st2.optf[(D, "Continue")] = [(ren(f[0]), ren(f[1]), f[2]) for f in fs]
                    if st2.tag.get(R) == variant:
                        st2.tag[D] = "Continue"
            elif kind == "some_to_ok":
                R = p[1]
                v_src, v_dst, v_other = (p[2], p[3], p[4]) if len(p) > 2 else ("Some", "Ok", "Err")
                sp, dp = R + ".@%s.0" % v_src, D + ".@%s.0" % v_dst
                keep, fs, tg = pre["s2o"]

                def ren2(tv, sp=sp, dp=dp):
                    return (tv[0], dp + tv[1][len(sp):]) if tv != Z and tv[0] in ("v", "#") and State.under(tv[1], sp) else tv
                if R != D:
                    for (x_, y_, c_) in keep:
                        st.add(ren2(x_), ren2(y_), c_)
                nf = []
                for f in fs:
                    if f[0] == "NE":
                        continue
                    a_, b_ = ren2(f[0]), ren2(f[1])
                    if any(tv != Z and tv[0] in ("v", "#") and State.under(tv[1], R) for tv in (a_, b_)):
                        continue
                    nf.append((a_, b_, f[2]))
                if nf:
                    st.optf[(D, v_dst)] = nf
                if tg == v_src:
                    st.tag[D] = v_dst
                elif tg is not None:
                    st.tag[D] = v_other
            elif kind == "summary":
                self.apply_summary(fn, st, t, D, A, T, self.summaries[p[1]])
            elif kind == "range_next":
                if p[2] is not None:
                    st.add(Z, ("v", p[1] + ".start"), -p[2])
            elif kind == "settag":
                st.tag[D] = p[1]
            elif kind == "map_payload":
                # Ok(x) -> Ok(f(x)): the closure's summary with its item parameter bound to the payload
                cid, R, C, var = p[1], p[2], p[3], p[4]
                if R != D:
                    self.apply_summary(fn, st, t, "%s.@%s.0" % (D, var), [C, "%s.@%s.0" % (R, var)], [None, None], self.summaries[cid])
                    if st.tag.get(R):
                        st.tag[D] = st.tag[R]
            elif kind == "closure_call":
                self.apply_summary(fn, st, t, D, p[2], [None] * len(p[2]), self.summaries[p[1]])
            elif kind == "closure_summary":
                self.apply_summary(fn, st, t, D, [p[2]], [None], self.summaries[p[1]])
            elif kind == "alias":
                st.copy_prefix(p[1], D)
                if self.is_seq_ty(dty) or self.is_seq_ty(t["argtys"][0]):
                    self.bound_len(st, p[1])
                    st.eq(("#", D), ("#", p[1]))
        if self.is_int_ty(dty):
            self.bound_type(st, ("v", D), dty)
        if dty.startswith("&[") or dty.startswith("&mut [") or dty.startswith("alloc::vec::Vec<") or dty in ("&str",):
            self.bound_len(st, D)

    def join_bounds(self, st, terms):
        """terms: [(state, (var, offset))].  Returns f(target) -> constraints that hold whichever term the target equals."""
        if any(tm is None or tm[1] is None for tm in terms):
            return lambda tgt: []
        cands = {Z}
        for s_, _ in terms:
            cands |= set(s_.vars())
        ups, los = [], []
        for z in cands:
            u = []
            l_ = []
            for (s_, (x, cx)) in terms:
                gu = 0 if x == z else s_.get(x, z)
                gl = 0 if x == z else s_.get(z, x)
                u.append(None if gu is None else gu + cx)
                l_.append(None if gl is None else gl - cx)
            if None not in u:
                ups.append((z, max(u)))
            if None not in l_:
                los.append((z, max(l_)))
        return lambda tgt: [(tgt, z, cc) for z, cc in ups if z != tgt] + [(z, tgt, cc) for z, cc in los if z != tgt]

    def minmax_bounds(self, st, which, a, b):
        (xa, ca), (xb, cb) = a, b
        cands = set(st.vars()) | {Z}
        res = []
        for z in cands:
            ua = ca if xa == z else (st.get(xa, z) + ca if st.get(xa, z) is not None else None)     # a - z <= ua
            ub_ = cb if xb == z else (st.get(xb, z) + cb if st.get(xb, z) is not None else None)
            la = -ca if xa == z else (st.get(z, xa) - ca if st.get(z, xa) is not None else None)     # z - a <= la
            lb_ = -cb if xb == z else (st.get(z, xb) - cb if st.get(z, xb) is not None else None)
            if which == "min":
                us = [u for u in (ua, ub_) if u is not None]
                if us:
                    res.append(("up", z, min(us)))
                if la is not None and lb_ is not None:
                    res.append(("lo", z, max(la, lb_)))
            else:
                if ua is not None and ub_ is not None:
                    res.append(("up", z, max(ua, ub_)))
                ls = [l_ for l_ in (la, lb_) if l_ is not None]
                if ls:
                    res.append(("lo", z, min(ls)))
        return lambda tgt: [(tgt, z, cc) if k == "up" else (z, tgt, cc) for k, z, cc in res if z != tgt]

    # ---- obligations --------------------------------------------------------------------------------------------------
    def prove(self, st, x, cx, y, cy, k):
        """(x + cx) - (y + cy) <= k ?"""
        if st.dead:
            return True
        d = 0 if x == y else st.get(x, y)
        return d is not None and d + cx - cy <= k

    def call_obligations(self, fn, st, bb, t, c, A, T, out):
        rp = c.get("rpath") or ""
        q = c.get("path") or ""
        nargs = len(t["args"])

        def name_is(*sufs):
            return any(rp.endswith(s) or q.endswith(s) for s in sufs)
        if name_is("Index<I> for [T]>::index", "Index<I>>::index", "IndexMut<I> for [T]>::index_mut", "IndexMut<I>>::index_mut",
                   "Index<I> for [T; N]>::index") and nargs == 2:
            S, R, rty = A[0], A[1], t["argtys"][1]
            what = "index %s" % rty.split("::")[-1]
            if "HashMap" in (t["argtys"][0] or "") or "BTreeMap" in (t["argtys"][0] or ""):
                out.append(Obligation(fn, bb, t, "map-index", "HashMap index (panics when the key is absent)", False, "not an integer index"))
                return
            if S is None:
                out.append(Obligation(fn, bb, t, "index", what, False, "indexed value is not a place"))
                return
            self.bound_len(st, S)
            L = ("#", S)
            if rty.startswith("core::ops::range::RangeFull"):
                out.append(Obligation(fn, bb, t, "index", what, True, "RangeFull is total (AX1)"))
            elif rty.startswith("core::ops::range::RangeFrom<") and R:
                ok = self.prove(st, ("v", R + ".start"), 0, L, 0, 0)
                out.append(Obligation(fn, bb, t, "index", what, ok, "start <= len" if ok else self.explain(st, ("v", R + ".start"), L)))
            elif rty.startswith("core::ops::range::RangeTo<") and R:
                ok = self.prove(st, ("v", R + ".end"), 0, L, 0, 0)
                out.append(Obligation(fn, bb, t, "index", what, ok, "end <= len" if ok else self.explain(st, ("v", R + ".end"), L)))
            elif rty.startswith("core::ops::range::Range<") and R:
                ok1 = self.prove(st, ("v", R + ".end"), 0, L, 0, 0)
                ok2 = self.prove(st, ("v", R + ".start"), 0, ("v", R + ".end"), 0, 0)
                o = Obligation(fn, bb, t, "index", what, ok1 and ok2,
                               "start <= end <= len" if ok1 and ok2 else "end<=len: %s, start<=end: %s; %s" % (
                                   ok1, ok2, self.explain(st, ("v", R + ".end"), L)))
                # side facts for rules that ask more than panic-freedom of this slice
                o.reached = not st.dead
                o.start_const = None if st.dead else st.const_of(("v", R + ".start"))
                o.nonempty = self.prove(st, ("v", R + ".start"), 0, ("v", R + ".end"), 0, -1)
                o.relation = self.explain(st, ("v", R + ".start"), ("v", R + ".end"))
                out.append(o)
            elif rty == "usize" and T[1]:
                x, cx = T[1]
                ok = self.prove(st, x, cx, L, 0, -1)
                o = Obligation(fn, bb, t, "index", "index usize", ok, "i < len" if ok else self.explain(st, x, L))
                if name_is("index_mut"):
                    # kept for rules that ask about the value stored through the returned reference
                    o.state, o.index_term = st.copy(), T[1]
                out.append(o)
            else:
                out.append(Obligation(fn, bb, t, "index", what, False, "unsupported index type %s" % rty))
        elif name_is("<impl [T]>::split_at", "<impl [T]>::split_at_mut") and nargs == 2 and A[0] and T[1]:
            self.bound_len(st, A[0])
            x, cx = T[1]
            ok = self.prove(st, x, cx, ("#", A[0]), 0, 0)
            out.append(Obligation(fn, bb, t, "split_at", "split_at mid <= len", ok, "mid <= len" if ok else self.explain(st, x, ("#", A[0]))))
        elif name_is("Option::<T>::unwrap", "Option::<T>::expect", "Result::<T, E>::unwrap", "Result::<T, E>::expect",
                     "Result::<T, E>::unwrap_err", "Result::<T, E>::expect_err"):
            want = "Err" if rp.endswith("_err") else ("Some" if "Option" in rp else "Ok")
            ok = A[0] is not None and st.tag.get(A[0]) == want
            out.append(Obligation(fn, bb, t, "unwrap", "%s on %s" % (rp.split("::")[-1], (rp.split("::")[-2] if "::" in rp else rp)), ok,
                                  "value known to be %s" % want if ok else "the value is not known to be %s here" % want))
        elif rp.startswith("core::panicking::") or rp.startswith("std::panicking::") or rp.startswith("std::rt::begin_panic"):
            out.append(Obligation(fn, bb, t, "panic", rp.split("::")[-1], st.dead, "block unreachable" if st.dead else "an explicit panic is reachable"))
        elif name_is("Vec::<T, A>::reserve", "Vec::<T>::with_capacity", "Vec::<T, A>::reserve_exact", "Vec::<T, A>::resize",
                     "<impl [T]>::repeat", "<impl str>::repeat", "String::with_capacity", "alloc::vec::from_elem"):
            # the size argument must be bounded by a small constant or by the length of some slice in scope (+ small constant)
            si = 1 if (name_is("Vec::<T, A>::reserve", "Vec::<T, A>::reserve_exact", "Vec::<T, A>::resize", "<impl [T]>::repeat", "<impl str>::repeat") or
                       (name_is("alloc::vec::from_elem") and nargs == 2)) else 0
            ok = False
            detail = "size argument not tracked"
            if si < nargs and T[si]:
                x, cx = T[si]
                ub = cx if x == Z else (None if st.ub(x) is None else st.ub(x) + cx)
                if ub is not None and ub <= 1 << 20:
                    ok, detail = True, "size <= %d" % ub
                else:
                    for v in st.vars():
                        if v[0] == "#":
                            d = 0 if v == x else st.get(x, v)
                            if d is not None and d + cx <= 4096:
                                ok, detail = True, "size <= %s + %d" % (show_var(v), d + cx)
                                break
                    if not ok:
                        detail = "allocation size %s is not bounded by an input length (upper bound %s)" % (show_var(x), ub)
            out.append(Obligation(fn, bb, t, "alloc", "%s" % rp.split("::")[-1], ok, detail))

    def explain(self, st, x, y):
        parts = []
        for v in (x, y):
            if v == Z:
                continue
            parts.append("%s in [%s, %s]" % (show_var(v), st.lb(v), st.ub(v)))
        d = st.get(x, y)
        parts.append("%s - %s <= %s" % (show_var(x), show_var(y), d))
        return "; ".join(parts)

    def assert_obligation(self, fn, st, bb, t, out):
        msg = t["msg"]
        ops = t["ops"]
        if msg in ("MisalignedPointerDereference", "NullPointerDereference"):
            return
        if msg == "BoundsCheck":
            ln = self.term_of(fn, ops[0], st)
            ix = self.term_of(fn, ops[1], st)
            ok = bool(ln and ix) and self.prove(st, ix[0], ix[1], ln[0], ln[1], -1)
            out.append(Obligation(fn, bb, t, "bounds", "array/slice element access", ok, "index < len" if ok else
                                  (self.explain(st, ix[0], ln[0]) if ln and ix else "operands not tracked")))
            return
        m = re.match(r"Overflow\((\w+)\)", msg)
        if m:
            op = m.group(1)
            a = self.term_of(fn, ops[0], st)
            b = self.term_of(fn, ops[1], st)
            ty = None
            for o in ops:
                if o.get("k") == "const":
                    ty = ty or o.get("ty")
                elif o.get("k") in ("copy", "move"):
                    ty = self.place_ty(fn, o["pl"]) if op not in ("Shl", "Shr") or ty is None else ty
            aty = self.place_ty(fn, ops[0]["pl"]) if ops[0].get("k") in ("copy", "move") else ops[0].get("ty")
            rng = INT_RANGES.get(aty)
            ok = False
            detail = ""
            if op in ("Shl", "Shr"):
                bits = {"u8": 8, "i8": 8, "u16": 16, "i16": 16, "u32": 32, "i32": 32, "u64": 64, "i64": 64, "usize": 64, "isize": 64}.get(aty)
                if b and bits is not None:
                    ub = b[1] if b[0] == Z else (st.ub(b[0]) + b[1] if st.ub(b[0]) is not None else None)
                    lb = b[1] if b[0] == Z else (st.lb(b[0]) + b[1] if st.lb(b[0]) is not None else None)
                    ok = ub is not None and lb is not None and 0 <= lb and ub < bits
                detail = "shift amount < %s" % bits
            elif a and b and rng:
                if op == "Add":
                    ua = a[1] if a[0] == Z else (None if st.ub(a[0]) is None else st.ub(a[0]) + a[1])
                    ub_ = b[1] if b[0] == Z else (None if st.ub(b[0]) is None else st.ub(b[0]) + b[1])
                    la = a[1] if a[0] == Z else (None if st.lb(a[0]) is None else st.lb(a[0]) + a[1])
                    lb_ = b[1] if b[0] == Z else (None if st.lb(b[0]) is None else st.lb(b[0]) + b[1])
                    ok = None not in (ua, ub_, la, lb_) and ua + ub_ <= rng[1] and la + lb_ >= rng[0]
                    detail = "a in [%s,%s], b in [%s,%s]" % (la, ua, lb_, ub_)
                elif op == "Sub":
                    # rng[0] <= a - b <= rng[1]
                    d_hi = None    # upper bound of a - b
                    d_lo = None    # lower bound of a - b
                    if a[0] == b[0]:
                        d_hi = d_lo = a[1] - b[1]
                    else:
                        g = st.get(a[0], b[0])
                        if g is not None:
                            d_hi = g + a[1] - b[1]
                        g2 = st.get(b[0], a[0])
                        if g2 is not None:
                            d_lo = -(g2 - a[1] + b[1])
                    ok = d_hi is not None and d_lo is not None and d_lo >= rng[0] and d_hi <= rng[1]
                    detail = "a - b in [%s, %s]" % (d_lo, d_hi)
                elif op == "Mul":
                    ua = a[1] if a[0] == Z else (None if st.ub(a[0]) is None else st.ub(a[0]) + a[1])
                    ub_ = b[1] if b[0] == Z else (None if st.ub(b[0]) is None else st.ub(b[0]) + b[1])
                    la = a[1] if a[0] == Z else (None if st.lb(a[0]) is None else st.lb(a[0]) + a[1])
                    lb_ = b[1] if b[0] == Z else (None if st.lb(b[0]) is None else st.lb(b[0]) + b[1])
                    ok = None not in (ua, ub_, la, lb_) and la >= 0 and lb_ >= 0 and ua * ub_ <= rng[1]
                    detail = "a <= %s, b <= %s" % (ua, ub_)
            out.append(Obligation(fn, bb, t, "overflow", "%s on %s" % (op, aty), ok, detail))
            return
        if msg in ("DivisionByZero", "RemainderByZero"):
            a = self.term_of(fn, ops[0], st)
            ok = False
            if a:
                lb = a[1] if a[0] == Z else (None if st.lb(a[0]) is None else st.lb(a[0]) + a[1])
                ok = lb is not None and lb >= 1
            out.append(Obligation(fn, bb, t, "div", msg, ok, "divisor >= 1" if ok else "divisor not proven non-zero"))
            return
        if msg == "OverflowNeg":
            out.append(Obligation(fn, bb, t, "overflow", "Neg", False, "negation"))
            return
        out.append(Obligation(fn, bb, t, "assert", msg, False, "unsupported assert kind"))

    # ---- control flow ---------------------------------------------------------------------------------------------------
    def edge_state(self, fn, st, bb, succ):
        """State on the edge bb -> succ (after the block's statements)."""
        t = fn.blocks[bb]["term"]
        k = t["k"]
        if st.dead:
            return st
        if k == "switch":
            st = st.copy()
            op = t["discr"]
            if op.get("k") not in ("copy", "move"):
                return st
            P = self.cpath(fn, op["pl"], st)
            vals = [v for v, b in t["targets"] if b == succ]
            is_other = succ == t["otherwise"] and not vals
            # discriminant switch?
            dsrc = self.discr_source(fn, bb, op)
            if dsrc is not None:
                place, variants = dsrc
                EP = self.cpath(fn, place, st)
                names = dict((v, n) for v, n in variants)
                variant = None
                if vals and len(vals) == 1:
                    variant = names.get(vals[0])
                elif is_other:
                    rest = [n for v, n in variants if v not in [x for x, _ in t["targets"]]]
                    if len(rest) == 1:
                        variant = rest[0]
                if variant is not None:
                    known = st.tag.get(EP)
                    if (known is not None and known != variant) or variant in st.nottag.get(EP, ()):
                        st.dead = True
                        return st
                    st.tag[EP] = variant
                    fs = st.optf.get((EP, variant))
                    if fs:
                        self.apply_facts(st, fs)
                elif is_other:
                    listed = {names.get(x) for x, _ in t["targets"]}
                    listed.discard(None)
                    known = st.tag.get(EP)
                    if known is not None and known in listed:
                        st.dead = True
                        return st
                    st.nottag[EP] = frozenset(set(st.nottag.get(EP, ())) | listed)
                return st
            if t["dty"] == "bool":
                truth = None
                if vals == [0]:
                    truth = False
                elif is_other:
                    truth = True
                if truth is not None:
                    cf = st.condf.get(P)
                    if cf:
                        self.apply_facts(st, cf[0] if truth else cf[1])
                    st.eq(("v", P), Z, 1 if truth else 0)
                return st
            # integer switch
            if vals and len(vals) == 1:
                st.eq(("v", P), Z, vals[0])
            return st
        if k == "assert" and succ == t.get("target"):
            st = st.copy()
            cond = t["cond"]
            if cond.get("k") in ("copy", "move"):
                P = self.cpath(fn, cond["pl"], st)
                cf = st.condf.get(P)
                if cf:
                    self.apply_facts(st, cf[0] if t["expected"] else cf[1])
            return st
        return st

    def discr_source(self, fn, bb, op):
        if "p" in op["pl"]:
            return None
        l = op["pl"]["l"]
        for s in reversed(fn.blocks[bb]["stmts"]):
            if s["k"] == "assign" and "p" not in s["lhs"] and s["lhs"]["l"] == l:
                if s["rv"]["k"] == "discr" and s["rv"].get("variants"):
                    return s["rv"]["pl"], s["rv"]["variants"]
                return None
        d = df.defs_of(fn).single(l)
        if d and d[0] == "stmt" and d[3]["rv"]["k"] == "discr" and d[3]["rv"].get("variants"):
            return d[3]["rv"]["pl"], d[3]["rv"]["variants"]
        return None

    def transfer_block(self, fn, st, bb, obligations=None):
        st = st.copy()
        b = fn.blocks[bb]
        hook = self.block_hooks.get((fn.id, bb)) if self.block_hooks else None
        if hook is not None and not st.dead:
            hook(st)
        for s in b["stmts"]:
            if st.dead:
                break
            if s["k"] == "assign":
                self.assign(fn, st, s)
                if obligations is not None and getattr(self, "stmt_probe", None) is not None:
                    self.stmt_probe(self, fn, bb, s, st, obligations)
                if obligations is not None and s["rv"]["k"] == "agg" and s["rv"].get("adt") in self.invariants:
                    P = self.cpath(fn, s["lhs"], st, lhs=True)
                    for inv in self.invariants[s["rv"]["adt"]]:
                        x, y, c = self.inv_fact(P, inv)
                        if y[0] == "#":
                            self.bound_len(st, y[1])
                        ok = st.dead or self.prove(st, x, 0, y, 0, c)
                        fake = {"k": "assign-site", "sp": s.get("sp")}
                        obligations.append(Obligation(fn, bb, s, "invariant", "%s.%s - .%s <= %d established at construction" % (
                            s["rv"]["adt"].split("::")[-1], inv[1], inv[3], c), ok, "holds for the constructed value" if ok else self.explain(st, x, y)))
            elif s["k"] == "setdiscr":
                P = self.cpath(fn, s["lhs"], st, lhs=True)
                st.forget_prefix(P)
                st.tag[P] = s["variant"]
        t = b["term"]
        if t["k"] == "assert" and obligations is not None:
            self.assert_obligation(fn, st, bb, t, obligations)
        if t["k"] == "call":
            if st.dead:
                if obligations is not None:
                    self.call_obligations(fn, st, bb, t, callee_of(t), [None] * len(t["args"]), [None] * len(t["args"]), obligations)
            else:
                if obligations is not None and getattr(self, "call_probe", None) is not None:
                    self.call_probe(self, fn, bb, t, st)
                self.call(fn, st, bb, t, obligations)
        elif t["k"] == "drop":
            pass
        return st

    def entry_state(self, fn):
        st = State()
        for i in range(1, fn.arg_count + 1):
            ty = fn.local_ty(i)
            if self.is_int_ty(ty):
                self.bound_type(st, ("v", "L%d" % i), ty)
            if ty.startswith("&[") or ty.startswith("&mut [") or ty == "&str" or "Vec<" in ty:
                self.bound_len(st, "L%d" % i)
        for p, ex in self.entry_nottag.get(fn.id, {}).items():
            st.nottag[p] = frozenset(ex)
        for inv in self.self_invariants(fn):
            x, y, c = self.inv_fact("L1", inv)
            for v in (x, y):
                if v[0] == "#":
                    self.bound_len(st, v[1])
            st.add(x, y, c)
        for p, (lo, hi) in self.entry_bounds.get(fn.id, {}).items():
            if lo is not None:
                st.add(Z, ("v", p), -lo)
            if hi is not None:
                st.add(("v", p), Z, hi)
        if fn.id in self.entry_facts:
            facts, triples = self.entry_facts[fn.id]
            for tr in triples:
                st.sums.add(tr)
            for x, y, c in facts:
                st.add(x, y, c)
        return st

    def self_adt(self, fn):
        """(adt id, is_mut) when parameter 1 is a reference to a type that has declared invariants."""
        if fn.arg_count < 1 or not self.invariants:
            return None
        ty = fn.local_ty(1)
        mut = ty.startswith("&mut ")
        if not ty.startswith("&"):
            return None
        t = ty[5:] if mut else ty[1:]
        t = t.strip()
        while t.startswith("'"):
            t = t.split(" ", 1)[1] if " " in t else t
        for adt in self.invariants:
            if t == adt or t.startswith(adt + "<"):
                return adt, mut
        return None

    def self_invariants(self, fn):
        r = self.self_adt(fn)
        return self.invariants[r[0]] if r else []

    @staticmethod
    def inv_fact(base, inv):
        kx, fx, ky, fy, c = inv
        return ((kx, "%s.%s" % (base, fx)), (ky, "%s.%s" % (base, fy)), c)

    def invariant_obligations(self, fn, outs, out):
        r = self.self_adt(fn)
        if not r or not r[1]:
            return
        for bb in cfg.exits(fn):
            st = outs[bb]
            if st is None or fn.blocks[bb]["cleanup"]:
                continue
            for inv in self.invariants[r[0]]:
                x, y, c = self.inv_fact("L1", inv)
                ok = st.dead or self.prove(st, x, 0, y, 0, c)
                out.append(Obligation(fn, bb, fn.blocks[bb]["term"], "invariant", "%s.%s - %s.%s <= %d restored at return" % (r[0].split("::")[-1], inv[1], r[0].split("::")[-1], inv[3], c),
                                      ok, "invariant holds again" if ok else self.explain(st, x, y)))

    # ---- liveness (keeps the states small: facts about dead temporaries are dropped) ------------------------------
    def root_locals(self, fn, pl, acc, depth=0):
        l = pl["l"]
        acc.add(l)
        for p in pl.get("p", []):
            if isinstance(p, dict) and "index" in p:
                acc.add(p["index"])
        src = self.ref_source(fn, l) if depth < 12 else None
        if src is not None:
            self.root_locals(fn, src, acc, depth + 1)

    def liveness(self, fn):
        nb = len(fn.blocks)
        use = [set() for _ in range(nb)]
        dfn = [set() for _ in range(nb)]

        def op_use(o, acc):
            if o.get("k") in ("copy", "move"):
                self.root_locals(fn, o["pl"], acc)

        for bb, b in enumerate(fn.blocks):
            u, d = use[bb], dfn[bb]
            for s in b["stmts"]:
                cur = set()
                if s["k"] == "assign":
                    rv = s["rv"]
                    for key in ("op", "a", "b"):
                        if key in rv and isinstance(rv[key], dict):
                            op_use(rv[key], cur)
                    if "pl" in rv:
                        self.root_locals(fn, rv["pl"], cur)
                    for o in rv.get("ops", []):
                        op_use(o, cur)
                    lhs = s["lhs"]
                    if "p" in lhs:
                        self.root_locals(fn, lhs, cur)
                    u |= (cur - d)
                    if "p" not in lhs:
                        d.add(lhs["l"])
                elif s["k"] == "setdiscr":
                    self.root_locals(fn, s["lhs"], cur)
                    u |= (cur - d)
            t = b["term"]
            cur = set()
            if t["k"] == "call":
                for a in t["args"]:
                    op_use(a, cur)
                op_use(t["func"], cur)
                if "p" in t["dest"]:
                    self.root_locals(fn, t["dest"], cur)
                u |= (cur - d)
                if "p" not in t["dest"]:
                    d.add(t["dest"]["l"])
            elif t["k"] == "switch":
                op_use(t["discr"], cur)
                u |= (cur - d)
            elif t["k"] == "assert":
                op_use(t["cond"], cur)
                for o in t["ops"]:
                    op_use(o, cur)
                u |= (cur - d)
            elif t["k"] == "drop":
                pass
        live_in = [set() for _ in range(nb)]
        live_out = [set() for _ in range(nb)]
        changed = True
        while changed:
            changed = False
            for bb in range(nb - 1, -1, -1):
                out = set()
                for sx in fn.succs(bb):
                    out |= live_in[sx]
                inn = use[bb] | (out - dfn[bb])
                if out != live_out[bb] or inn != live_in[bb]:
                    live_out[bb], live_in[bb] = out, inn
                    changed = True
        always = set(range(0, fn.arg_count + 1))
        return [li | always for li in live_in]

    def prune(self, st, live):
        dead = []
        for v in st.vars():
            if v[0] in ("v", "#"):
                m = _ROOT.match(v[1])
                if m and int(m.group(1)) not in live:
                    dead.append(v)
        if st.sums and dead:
            deadset = set(dead)

            def live_equal(v):
                """(z, k) with v = z + k for a variable z that stays, or None."""
                for y, c in st.out.get(v, {}).items():
                    if y != Z and y not in deadset and st.get(y, v) == -c:
                        return y, c
                return None
            new = set()
            for (t, x, y, c) in st.sums:
                tr, cc = [t, x, y], c
                for i, v in enumerate(tr):
                    if v in deadset:
                        r = live_equal(v)
                        if r:
                            tr[i] = r[0]
                            cc += -r[1] if i == 0 else r[1]
                if tr[0] in tr[1:] or Z in tr:
                    continue
                if repr(tr[2]) < repr(tr[1]):
                    tr[1], tr[2] = tr[2], tr[1]
                new.add((tr[0], tr[1], tr[2], cc))
            st.sums = new
            # a dead variable that is the only dead member of a sum stays (as a ghost): the sum ties it to values that are still around
            kept = set()
            changed = True
            while changed:
                changed = False
                for tr in st.sums:
                    dv = [v for v in tr[:3] if v in deadset and v not in kept]
                    if len(dv) == 1:
                        kept.add(dv[0])
                        changed = True
            dead = [v for v in dead if v not in kept]
        for v in dead:
            st.forget(v)
        for coll in (st.tag, st.nottag, st.condf):
            for p in list(coll):
                m = _ROOT.match(p)
                if m and int(m.group(1)) not in live:
                    del coll[p]
        for k in list(st.optf):
            m = _ROOT.match(k[0])
            if m and int(m.group(1)) not in live:
                del st.optf[k]

    def analyze(self, fn, want_obligations=True, blocked_edges=()):
        """blocked_edges: CFG edges (bb, succ) treated as never taken (path-restricted analysis)."""
        blocked_edges = set(blocked_edges)
        nb = len(fn.blocks)
        live = self.liveness(fn)
        instate = [None] * nb
        instate[0] = self.entry_state(fn)
        heads = set(cfg.loops(fn).keys())
        visits = [0] * nb
        work = deque([0])
        inwork = {0}
        guard = 0
        while work:
            guard += 1
            if guard > 40 * nb + 2000:
                break
            bb = work.popleft()
            inwork.discard(bb)
            st = instate[bb]
            if st is None:
                continue
            out = self.transfer_block(fn, st, bb)
            for succ in fn.succs(bb):
                if fn.blocks[succ]["cleanup"] or (bb, succ) in blocked_edges:
                    continue
                es = self.edge_state(fn, out, bb, succ)
                if es.dead:
                    continue
                if es is out:
                    es = es.copy()
                self.prune(es, live[succ])
                old = instate[succ]
                if old is None:
                    new = es.copy()
                else:
                    visits[succ] += 1
                    new = join(old, es, widen=(succ in heads and visits[succ] > 3))
                if old is None or not same(old, new):
                    instate[succ] = new
                    if succ not in inwork:
                        work.append(succ)
                        inwork.add(succ)
        obligations = []
        outs = [None] * nb
        for bb in range(nb):
            if fn.blocks[bb]["cleanup"]:
                continue
            st = instate[bb]
            if st is None:
                # unreachable block: every site in it is vacuously safe
                dead = State()
                dead.dead = True
                self.transfer_block(fn, dead, bb, obligations if want_obligations else None)
                continue
            outs[bb] = self.transfer_block(fn, st, bb, obligations if want_obligations else None)
        if want_obligations:
            self.invariant_obligations(fn, outs, obligations)
        return instate, outs, obligations

    # ---- summaries --------------------------------------------------------------------------------------------------------
    def summarize(self, fn, outs=None):
        """Facts about the return value (paths under L0) relative to parameters that are never re-assigned, at every return."""
        if outs is None:
            instate, outs, _ = self.analyze(fn, want_obligations=False)
        acc = None
        for bb in cfg.exits(fn):
            st = outs[bb]
            if st is None or st.dead:
                continue
            acc = st.copy() if acc is None else join(acc, st)
        if acc is None:
            return None
        d = df.defs_of(fn)
        stable = {i for i in range(1, fn.arg_count + 1) if not d.all(i) and i not in d.mut_borrowed}

        def rooted(v):
            if v == Z:
                return "Z"
            m = re.match(r"L(\d+)", v[1])
            if not m:
                return None
            n = int(m.group(1))
            if n == 0:
                return "ret"
            if n in stable:
                return "arg"
            return None
        facts = []
        for x, row in acc.out.items():
            for y, c in row.items():
                rx, ry = rooted(x), rooted(y)
                if rx is None or ry is None:
                    continue
                if "ret" not in (rx, ry):
                    continue
                if x[0] in ("v", "#") and vacuous(x[1], {}) is None:
                    pass
                facts.append((x, y, c))
        optf = {k: v for k, v in acc.optf.items() if k[0] == "L0" or k[0].startswith("L0.")}
        return {"facts": facts, "optf": optf, "tag": {p: t for p, t in acc.tag.items() if State.under(p, "L0")}, "copies": self.value_copies(fn)}

    def apply_summary(self, fn, st, t, D, A, T, summ):
        def ren(v):
            if v == Z:
                return v
            m = re.match(r"L(\d+)(.*)", v[1])
            n = int(m.group(1))
            rest = m.group(2)
            if n == 0:
                return (v[0], D + rest)
            i = n - 1
            if i < len(A) and A[i] is not None:
                return (v[0], A[i] + rest)
            if i < len(T) and T[i] is not None and T[i][0] == Z and not rest and v[0] == "v":
                return ("const", T[i][1])
            return None
        for x, y, c in summ["facts"]:
            rx, ry = ren(x), ren(y)
            if rx is None or ry is None:
                continue
            cc = c
            if rx[0] == "const":
                cc -= rx[1]
                rx = Z
            if ry[0] == "const":
                cc += ry[1]
                ry = Z
            st.add(rx, ry, cc)
        for (p, variant), fs in summ["optf"].items():
            np = D + p[2:]
            nf = []
            for f in fs:
                if f[0] == "NE":
                    continue
                rx, ry = ren(f[0]), ren(f[1])
                if rx is None or ry is None or rx[0] == "const" or ry[0] == "const":
                    continue
                nf.append((rx, ry, f[2]))
            if nf:
                st.optf[(np, variant)] = nf
        for p, tg in summ["tag"].items():
            st.tag[D + p[2:]] = tg
        for rp, ap in summ.get("copies", ()):
            m = re.match(r"L(\d+)(.*)", ap)
            i = int(m.group(1)) - 1
            if i < len(A) and A[i] is not None and not State.under(A[i], D):
                st.copy_prefix(A[i] + m.group(2), D + rp[2:])


RANGE_CLOSURE_COMBINATORS = ("find", "any", "all", "position", "for_each", "try_for_each", "find_map", "map", "filter", "take_while", "skip_while")


def show_var(v):
    if v == Z:
        return "0"
    if v[0] == "s":
        return "(%s)" % v[1].replace("|", " + ")
    return ("len(%s)" % v[1]) if v[0] == "#" else v[1]
