"""C13  reject files hold exactly the failed hunks of the failing patch (DESIGN §4 C13)."""
from .. import cfg, dataflow as df, guards, patterns as pt
from ..common import A, calls_named
from ..facts import callee_of
from . import c05

LEVEL = "other"
EXPLANATION = (
    "Decides: (R1) a reject file is only created for a file patch whose report failed and whose patch index is not below the "
    "rejected patch (the loop leaves at the first smaller index), its name deriving from that file patch's target name; (R2) the "
    "reject writer returns before the header when the report is ok and emits a hunk only on the Failed discriminant of the report "
    "element drawn in the same zip step as the hunk, iterating hunks and reports in order; (R3) every file patch of the failing "
    "patch is attempted: the sequential file-patch loop has no exit other than exhaustion and error propagation, the parallel "
    "worker stops only strictly past the earliest broken index; (R4) the sequential driver writes rejects only when some file "
    "patch failed; (R5) the reject is produced by the same header and hunk writers as a full patch (so C12's keyword agreement "
    "covers it); (R6) completeness of the reject loop: once an entry's report is known failed, the next "
    "entry is reached only through the reject writer or through the NotFound answer of creating that very reject (the documented "
    "'directory does not exist' bypass). (R11) in a normal application every hunk is tried before its report is recorded, so every hunk that was not applied is Failed and reaches the reject. Not decided: line content and numbers inside the reject (writer arithmetic, see C12)."
)
LEVEL_NOTE = "Undecided: exact content/line numbers of the written hunks; existence of the .rej when its directory is missing is by design skipped."


def r11_every_hunk_is_tried(ck, rule="C13-R11"):
    """The reject holds the hunks whose report is `Failed` - so in a normal application every hunk of a modifying file patch has to end
    with the report of a trial (Applied or Failed), not with the `Skipped` it starts with: from drawing a hunk to recording its
    report, every path runs through the loop over the fuzz levels (whose range 0..=min(..) is never empty, C02-R1).  A short cut that
    records the untried report ("the file is missing, say so once") makes the later hunks vanish from the reject."""
    from .. import pathconst
    from .c02 import level_loop
    am = ck.anchor("FilePatch::<'a, &'a [u8]>::apply_modify")
    if am is None:
        return
    il = level_loop(ck, am, rule)
    if il is None:
        return
    pushes = {bb for bb, t, c in calls_named(am, "FilePatchApplyReport::push_hunk_report") if not am.blocks[bb]["cleanup"]}
    ck.floor(rule, "places where apply_modify records a hunk report", len(pushes), 1)
    outer = [o for o in pt.iterator_loops(am) if "Hunk<" in o["iter_ty"] and il["head"] in o["body"] and pushes & set(o["body"])]
    if not ck.require(len(outer) == 1, rule, "the trial loop over the hunks of apply_modify", "%d loops over the hunks contain the level loop" % len(outer), am.where()):
        return
    o = outer[0]
    # one report per hunk: apply_modify records reports only inside its loop over the hunks and never answers with one of the
    # single-hunk reports of the create / delete paths (the reject writer pairs hunks and reports by position)
    outside = sorted(b for b in pushes if b not in o["body"])
    single = [(bb, t) for bb, t in am.calls() if not am.blocks[bb]["cleanup"] and
              (callee_of(t).get("rpath") or "").split("::")[-1] in ("single_hunk_failure", "single_hunk_skip", "single_hunk_success")]
    ck.require(not outside and not single, rule, "a modifying file patch gets one report per hunk",
               "apply_modify %s: its report no longer has one entry per hunk, and the reject writer (which pairs hunks with reports by "
               "position) drops the hunks past the end of the report" % (
                   "answers with a single-hunk report (%s)" % (callee_of(single[0][1]).get("rpath") or "").split("::")[-1] if single else
                   "records a report outside its loop over the hunks"),
               am.where(single[0][1]) if single else (am.where(am.blocks[outside[0]]["term"]) if outside else am.where()),
               ok_detail="reports are recorded only in the loop over the hunks")
    normal = lambda e, adt: "Normal" if (adt or "").endswith("ApplyMode") else None
    r = pathconst.reach_under(am, lambda e: None, normal, blocked={il["head"]}, start=[o["some_edge"][1]])
    untried = sorted(b for b in pushes if b in r and b in o["body"])
    ck.require(not untried, rule, "in a normal application a hunk's report is recorded only after the hunk was tried",
               "apply_modify can record the report a hunk starts with (Skipped) without running the trial loop for it in normal mode: the "
               "hunk is neither applied nor failed, so it is missing from the reject although it was not applied", 
               am.where(am.blocks[untried[0]]["term"]) if untried else am.where(), ok_detail="every path from drawing a hunk to push_hunk_report crosses the level loop")


def run(ck):
    prog, cg = ck.prog, ck.cg
    rej = ck.anchor("rollback_and_save_rej_files")
    seq = ck.anchor(A["seq"])
    apply_worker = ck.anchor(A["apply_worker"])
    wr = ck.anchor("UnifiedPatchRejWriter>::write_rej_to")
    if None in (rej, seq, apply_worker, wr):
        return
    r8_reject_removed_only_to_be_rewritten(ck, rej)
    r11_every_hunk_is_tried(ck)
    # the reject loop walks every entry of the rejected patch: it is the rollback loop (C04-R3), which leaves only when the stack is
    # down to the earlier patches
    from . import c04 as _c04
    _c04.r3_lifo(ck, rule="C13-R10")
    _c04.r3b_pop_after_rollback(ck, rule="C13-R10")
    # a reject holds the failed hunk *exactly*: its header carries the hunk's own numbers (C12-R7: they survive write-then-parse)
    from . import c12 as _c12
    _hh = ck.anchor("UnifiedPatchHunkHeaderWriter>::write_header_to")
    if _hh is not None:
        from .c18 import ck_alias as _alias
        _c12.r7(_alias(ck, "C13-R9"), _hh)
    # ---- R1 ------------------------------------------------------------------------------------------
    creates = [(bb, t) for bb, t, c in calls_named(rej, "std::fs::File::create", "std::fs::File::create_new", "std::fs::OpenOptions::open", "std::fs::write")]
    ck.floor("C13-R1", "reject file creation sites", len(creates), 1)
    for bb, t in creates:
        e = df.operand_expr(rej, t["args"][-1] if callee_of(t)["rpath"].endswith("::open") else t["args"][0])
        mk = [x for x in df.walk(e) if df.is_call(x, "make_rej_filename")]
        inst = "reject creation in rollback_and_save_rej_files"
        if not ck.require(len(mk) >= 1, "C13-R1", "reject name derives from make_rej_filename(target)", "reject path is %s" % df.show(e, 140), rej.where(t)):
            continue
        src = mk[0][2][0]
        ok_src = isinstance(src, tuple) and src[0] == "field" and src[2] == "target_filename"
        ck.require(ok_src, "C13-R1", "reject named after the patched file", "make_rej_filename is given %s" % df.show(src, 100), rej.where(t),
                   ok_detail=df.show(src, 100))
        patch_status = src[1] if ok_src else None
        # (a) failed() of the same PatchStatus
        okf = False
        for g in guards.find_bool_guards(rej, lambda x: df.is_call(x, "FilePatchApplyReport::failed")):
            recv = g["expr"][2][0]
            same = isinstance(recv, tuple) and recv[0] == "field" and recv[2] == "report" and recv[1] == patch_status
            if same and bb in cfg.dominated_by_edge(rej, g["true_edge"]):
                okf = True
        for g in guards.find_bool_guards(rej, lambda x: df.is_call(x, "FilePatchApplyReport::ok")):
            recv = g["expr"][2][0]
            same = isinstance(recv, tuple) and recv[0] == "field" and recv[2] == "report" and recv[1] == patch_status
            if same and bb in cfg.dominated_by_edge(rej, g["false_edge"]):
                okf = True
        ck.require(okf, "C13-R1", "reject only for a failed file patch",
                   "the reject file is created without a dominating test that this file patch's report failed", rej.where(t))
        # (b) index not below the rejected patch
        oki = False
        for gbb, gt in rej.terms():
            if gt["k"] != "switch" or gt["dty"] != "bool":
                continue
            ce, neg = guards.switch_cond(rej, gbb)
            if not (isinstance(ce, tuple) and ce[0] == "bin" and ce[1] in ("Lt", "Ge", "Eq", "Ne", "Gt", "Le")):
                continue
            a, b = ce[2], ce[3]
            is_idx = lambda x: isinstance(x, tuple) and x[0] == "field" and x[2] == "index" and x[1] == patch_status
            is_par = lambda x: isinstance(x, tuple) and x[0] == "param"
            f, tr = guards.bool_edges(rej, gbb)
            if neg:
                f, tr = tr, f
            op = ce[1]
            if is_par(a) and is_idx(b):
                op = {"Lt": "Gt", "Gt": "Lt", "Ge": "Le", "Le": "Ge", "Eq": "Eq", "Ne": "Ne"}[op]
                a, b = b, a
            if not (is_idx(a) and is_par(b)):
                continue
            # edge implying index >= rejected
            edge = None
            if op == "Lt":
                edge = (gbb, f)
            elif op == "Ge":
                edge = (gbb, tr)
            elif op == "Eq":
                edge = (gbb, tr)
            elif op == "Ne":
                edge = (gbb, f)
            if edge and bb in cfg.dominated_by_edge(rej, edge):
                oki = True
        ck.require(oki, "C13-R1", "reject only for the rejected patch",
                   "the reject file is created without a dominating test index >= rejected_patch_index (rejects for earlier patches)", rej.where(t))
    # the loop is LIFO with early exit on a smaller index: C04-R3 covers the order

    # ---- R6: completeness of the reject loop ------------------------------------------------------------
    # Once an entry of the rejected patch is known to have failed hunks, the next iteration (and the normal end of the loop) is
    # reached only through the reject writer, or through the NotFound arm of the *creation* of that reject (missing directory).
    heads = list(cfg.loops(rej).keys())
    fail_edges = []
    for g in guards.find_bool_guards(rej, lambda x: df.is_call(x, "FilePatchApplyReport::failed")):
        fail_edges.append(g["true_edge"])
    for g in guards.find_bool_guards(rej, lambda x: df.is_call(x, "FilePatchApplyReport::ok")):
        fail_edges.append(g["false_edge"])
    wr_blocks = {bb for bb, t in rej.calls() if (callee_of(t).get("rpath") or "").endswith("write_rej_to") and not rej.blocks[bb]["cleanup"]}
    ck.floor("C13-R6", "calls of the reject writer in rollback_and_save_rej_files", len(wr_blocks), 1)
    nf_edges = set()
    for g in guards.find_bool_guards(rej, lambda x: df.is_call(x, "PartialEq>::eq") and len(x[2]) == 2):
        a, b = g["expr"][2]
        kinds = [x for x in (a, b) if df.is_call(x, "io::error::Error::kind")]
        consts = [guards.promoted_value(rej, x) for x in (a, b)]
        if not kinds or not any(pv and pv[0] == "enum" and pv[2] == "NotFound" for pv in consts):
            continue
        src = kinds[0][2][0]
        from_create = df.mentions(src, lambda x: isinstance(x, tuple) and x[0] == "downcast" and x[2] == "Err" and
                                  (df.is_call(x[1], "fs::File::create") or df.is_call(x[1], "OpenOptions::open") or df.is_call(x[1], "File::create_new")))
        if from_create:
            nf_edges.add(g["true_edge"])
    if ck.require(len(heads) == 1 and fail_edges, "C13-R6", "reject loop and its failed() test found",
                  "%d loops, %d tests of the report in rollback_and_save_rej_files" % (len(heads), len(fail_edges)), rej.where()):
        head = heads[0]
        # reachability with the range engine's variant tracking (an `Ok(Some(file))` built by a helper does not reach the `None` arm
        # of the caller's match): block the not-failed edges, the NotFound edges of the creation and everything after the writer
        from .. import ranges
        notfail = set()
        for g in guards.find_bool_guards(rej, lambda x: df.is_call(x, "FilePatchApplyReport::failed")):
            notfail.add(g["false_edge"])
        for g in guards.find_bool_guards(rej, lambda x: df.is_call(x, "FilePatchApplyReport::ok")):
            notfail.add(g["true_edge"])
        blocked_e = set(nf_edges) | notfail | {(wb, sx) for wb in wr_blocks for sx in rej.succs(wb)}
        an = ranges.Analyzer(prog)
        ins, outs, _ = an.analyze(rej, want_obligations=False, blocked_edges=blocked_e)
        body = cfg.loops(rej)[head]
        back = []
        for pb in rej.preds()[head]:
            if pb in body and ins[pb] is not None:
                o = an.transfer_block(rej, ins[pb], pb)
                es = an.edge_state(rej, o, pb, head)
                if not es.dead and (pb, head) not in blocked_e:
                    back.append(pb)
        okc = not back
        ck.require(okc, "C13-R6", "every failed file patch of the rejected patch gets its reject written",
                   "after the report was found failed the loop can move on to the next entry without calling the reject writer, by a path "
                   "other than the NotFound answer of creating the reject (a reject is skipped although its directory may exist)", rej.where(),
                   ok_detail="from the failed() edge the loop head is reachable only through write_rej_to or through %d NotFound edge(s) of the "
                             "reject's own creation" % len(nf_edges))

    # ---- R7: what is rendered for this entry goes to this entry's reject file, and nothing else does ------------------------------
    # The writer handed to write_rej_to is (a buffer around) the file created for this entry, or an in-memory buffer that is written to
    # that file and is empty whenever rendering starts (created inside the iteration, or cleared on every path to the next rendering).
    create_bbs = {bb for bb, t in creates}
    for wb in sorted(wr_blocks):
        t = rej.blocks[wb]["term"]
        wty = t["argtys"][1] if len(t["argtys"]) > 1 else ""
        tr = df.operand_trace(rej, t["args"][1]) if len(t["args"]) > 1 else set()
        srcs = set()
        for l in tr:
            for dd in df.defs_of(rej).all(l):
                if dd[0] in ("call", "pcall"):
                    srcs.add(dd[1])
        if srcs & create_bbs:
            ck.ok("C13-R7", "rejects are rendered into the file created for this entry", "writer derives from the creation at %s" %
                  sorted(rej.where(rej.blocks[b]["term"]) for b in srcs & create_bbs), rej.where(t))
            continue
        membuf = any(x in wty for x in ("alloc::vec::Vec<u8>", "std::io::Cursor<", "alloc::string::String"))
        if not ck.require(membuf, "C13-R7", "rejects are rendered into the file created for this entry",
                          "write_rej_to is given a %s that does not derive from the reject file created in this iteration" % wty, rej.where(t)):
            continue
        buf = df.operand_expr(rej, t["args"][1])
        same = lambda op: df.operand_expr(rej, op) == buf
        loops = cfg.loops(rej)
        body = set().union(*loops.values()) if loops else set()
        fresh = [b2 for b2, t2 in rej.calls() if b2 in body and (callee_of(t2).get("rpath") or "").split("::")[-1] in ("new", "with_capacity", "default")
                 and isinstance(buf, tuple) and buf[0] == "local" and t2["dest"]["l"] == buf[1] and "p" not in t2["dest"]]
        clears = {b2 for b2, t2 in rej.calls() if (callee_of(t2).get("rpath") or "").endswith(("Vec::<T, A>::clear", "String::clear")) and t2["args"] and same(t2["args"][0])}
        flushed = [b2 for b2, t2 in rej.calls() if (callee_of(t2).get("rpath") or "").endswith("write_all") and len(t2["args"]) == 2 and
                   df.mentions(df.operand_expr(rej, t2["args"][1]), lambda x: x == buf) and
                   {dd[1] for l in df.operand_trace(rej, t2["args"][0]) for dd in df.defs_of(rej).all(l) if dd[0] in ("call", "pcall")} & create_bbs]
        ck.require(bool(flushed), "C13-R7", "the rendered rejects are written to the file created for this entry",
                   "no write_all of the buffer to the created reject file", rej.where(t))
        if fresh:
            ck.ok("C13-R7", "the reject buffer is empty when rendering starts", "created inside the iteration", rej.where(t))
        else:
            # a path from this rendering to the next one (any rendering into the same buffer) that avoids every clear()
            again = cfg.reachable(rej, [sx for sx in rej.succs(wb) if not rej.blocks[sx]["cleanup"]], blocked=clears)
            leak = sorted(b2 for b2 in wr_blocks if b2 in again)
            ck.require(not leak, "C13-R7", "the reject buffer is empty when rendering starts",
                       "the buffer outlives the iteration and the next rendering can be reached without clearing it (e.g. through a `continue`): "
                       "the next reject file would start with the rejects of another file", rej.where(t),
                       ok_detail="cleared on every path to the next rendering")
    # ---- R2 ------------------------------------------------------------------------------------------
    hw = [(bb, t) for bb, t in wr.calls() if (callee_of(t).get("rpath") or "").endswith("UnifiedPatchHunkWriter>::write_to")]
    ncomb = r2_combinator_form(ck, wr)
    ck.floor("C13-R2", "hunk writer calls in write_rej_to", len(hw) + ncomb, 1)
    sws = pt.discr_switches(wr, lambda e, rv: (rv.get("adt") or "").endswith("HunkApplyReport"))
    for bb, t in hw:
        good = False
        detail = ""
        for sw in sws:
            fe = sw["edges"].get("Failed")
            if not fe or bb not in cfg.dominated_by_edge(wr, fe):
                continue
            rep_items = df.place_trace(wr, sw["place"])
            hunk_e = df.operand_expr(wr, t["args"][0])
            rep_e = sw["expr"]
            # both drawn from the same next() result: (.. as Some).0.0 and (.. as Some).0.1
            def zip_item(x):
                if isinstance(x, tuple) and x[0] == "field" and isinstance(x[1], tuple) and x[1][0] == "field" and x[1][2] == 0:
                    base = x[1][1]
                    if isinstance(base, tuple) and base[0] == "downcast" and base[2] == "Some":
                        return base[1], x[2]
                return None, None
            hb, hi = zip_item(hunk_e)
            rb, ri = zip_item(rep_e)
            if hb is not None and hb == rb and hi == 0 and ri == 1 and df.mentions(hb, lambda x: df.is_call(x, "Zip<A, B> as core::iter::traits::iterator::Iterator>::next")):
                good = True
                detail = "hunk = item.0, report = item.1 of one Zip::next()"
        if not good:
            d2 = loop_over_filtered_pairs(prog, wr, bb)
            if d2:
                good, detail = True, d2
        ck.require(good, "C13-R2", "only hunks whose own report is Failed are written",
                   "the hunk writer is not dominated by the Failed discriminant of the report paired with that hunk", wr.where(t), ok_detail=detail)
    zips = [(bb, t) for bb, t in wr.calls() if (callee_of(t).get("path") or "").endswith("Iterator::zip")]
    for bb, t in zips:
        a = df.operand_expr(wr, t["args"][0])
        b = df.operand_expr(wr, t["args"][1])
        ok = df.mentions(a, lambda x: isinstance(x, tuple) and x[0] == "field" and x[2] == "hunks") and df.is_call(a, "::iter") and \
            df.is_call(b, "FilePatchApplyReport::hunk_reports")
        ck.require(ok, "C13-R2", "hunks and reports paired in order", "zip(%s, %s)" % (df.show(a, 80), df.show(b, 80)), wr.where(t),
                   ok_detail="zip(self.hunks.iter(), report.hunk_reports())")
    ck.floor("C13-R2", "zip of hunks and reports", len(zips), 1)
    hdr = [(bb, t) for bb, t, c in calls_named(wr, "write_file_patch_header_to")]
    okg = guards.find_bool_guards(wr, lambda x: df.is_call(x, "FilePatchApplyReport::ok") or df.is_call(x, "FilePatchApplyReport::failed"))
    for bb, t in hdr:
        dom = False
        for g in okg:
            edge = g["false_edge"] if df.is_call(g["expr"], "FilePatchApplyReport::ok") else g["true_edge"]
            if bb in cfg.dominated_by_edge(wr, edge):
                dom = True
        ck.require(dom, "C13-R2", "nothing written when the report is ok", "the reject header is written without testing report.ok()", wr.where(t))
    ck.floor("C13-R2", "header writes in write_rej_to", len(hdr), 1)

    # ---- R3 ------------------------------------------------------------------------------------------
    ao = calls_named(seq, "apply_one_file_patch")
    brk_edges = set()
    for sw in pt.discr_switches(seq, lambda e, rv: (rv.get("adt") or "").endswith("ControlFlow")):
        if "Break" in sw["edges"]:
            brk_edges.add(sw["edges"]["Break"])
    n = 0
    for il in pt.iterator_loops(seq):
        if not any(bb in il["body"] for bb, t, c in ao):
            continue
        if "FilePatch" not in il["iter_ty"]:
            continue
        n += 1
        bad = []
        for e in il["exit_edges"]:
            if e == il["none_edge"] or e in brk_edges:
                continue
            if seq.blocks[e[1]]["cleanup"]:
                continue
            bad.append(e)
        # ... and every iteration really attempts its file patch
        call_bbs = {bb for bb, t, c in ao if bb in il["body"]}
        back = {(t_, il["head"]) for t_ in seq.preds()[il["head"]] if t_ in il["body"]}
        start = il["some_edge"][1] if il["some_edge"] else il["head"]
        r = cfg.reachable(seq, [start], disabled=back, blocked=call_bbs)
        skipping = [t_ for (t_, h) in back if t_ in r]
        ck.require(not skipping, "C13-R3", "every file patch of a patch is attempted (sequential)",
                   "an iteration of the file-patch loop can go on to the next file patch without calling apply_one_file_patch: after the "
                   "first failure the remaining files of the failing patch would get no reject", seq.where(il["next_term"]),
                   ok_detail="apply_one_file_patch is on every path of an iteration")
        ck.require(not bad, "C13-R3", "sequential file-patch loop runs to exhaustion",
                   "the loop over the file patches of a patch can be left early through %s: later file patches of the failing patch "
                   "would not be attempted (missing rejects)" % bad, seq.where(il["next_term"]),
                   ok_detail="exits: iterator exhausted, or `?` error return")
    ck.floor("C13-R3", "file-patch loops in the sequential driver", n, 1)
    from . import c06
    # parallel: strict comparison (C06-R4)
    strict_parallel(ck, apply_worker)

    # ---- R4 ------------------------------------------------------------------------------------------
    c05.r2_seq(ck, seq, rule="C13-R4")

    # ---- R5 ------------------------------------------------------------------------------------------
    full = ck.anchor("FilePatch<'a, &'a [u8]> as libpatch::patch::unified::writer::UnifiedPatchWriter>::write_to")
    if full is not None:
        def writers(fn):
            return {c["rpath"] for f_ in [fn] + prog.closures_of(fn) for bb, t in f_.calls() for c in [callee_of(t)]
                    if (c.get("rpath") or "").endswith("write_file_patch_header_to") or (c.get("rpath") or "").endswith("UnifiedPatchHunkWriter>::write_to")}
        ck.require(writers(wr) == writers(full) and len(writers(wr)) == 2, "C13-R5", "reject uses the patch writer's header and hunk writers",
                   "write_rej_to uses %s, write_to uses %s" % (sorted(writers(wr)), sorted(writers(full))), wr.where())


def r8_reject_removed_only_to_be_rewritten(ck, rej, rule="C13-R8"):
    """A `.rej` next to a file belongs to the file, and one patch can have several sections for one file.  So within a push a reject path
    is removed only on the way to creating it anew (replacing a stale one): from every removal of a reject path, every path that
    neither fails nor creates that reject must not get back to the loop head or to the end of the function - otherwise the removal can
    hit the reject an earlier iteration has just written for another section of the same file."""
    prog = ck.prog
    fns = [rej] + prog.closures_of(rej)
    n = 0
    for fn in fns:
        is_rej_path = lambda e: df.mentions(e, lambda x: df.is_call(x, "make_rej_filename"))
        removes = [(bb, t) for bb, t in fn.calls() if (callee_of(t).get("rpath") or "") in ("std::fs::remove_file", "std::fs::rename") and
                   not fn.blocks[bb]["cleanup"] and t["args"] and is_rej_path(df.operand_expr(fn, t["args"][0]))]
        creates = {bb for bb, t in fn.calls() if (callee_of(t).get("rpath") or "").split("::")[-1] in ("create", "create_new", "open", "write") and
                   "std::fs::" in (callee_of(t).get("rpath") or "") and t["args"] and is_rej_path(df.operand_expr(fn, t["args"][-1]))}
        err_bbs = set()
        for bb, idx, st in fn.stmts():
            if st["k"] == "assign" and st["lhs"]["l"] == 0 and not st["lhs"].get("p") and st["rv"]["k"] == "agg" and st["rv"].get("variant") == "Err":
                err_bbs.add(bb)
        for bb, t in fn.calls():
            if (callee_of(t).get("path") or "").endswith("from_residual") and t["dest"]["l"] == 0:
                err_bbs.add(bb)
        for bb, t in removes:
            n += 1
            loop = cfg.innermost_loop_of(fn, bb)
            # value-sensitive for `?`: an `Err(..)` a helper returned (folded into this function) leaves at the `?` that follows
            from .. import pathconst
            r = pathconst.reach_under(fn, lambda e_: None, None, blocked=creates | err_bbs, valuation=lambda e_: None, prog=prog,
                                      start=[sx for sx in fn.succs(bb) if not fn.blocks[sx]["cleanup"] and sx not in creates and sx not in err_bbs])
            back = loop is not None and loop[0] in r
            out = [b_ for b_ in r if fn.blocks[b_]["term"]["k"] == "return"]
            ck.require(not back and not out, rule, "a reject is removed only on the way to writing it anew (%s)" % fn.id.split("::")[-1],
                       "after removing a reject path the function can go on to %s without creating that reject: when the rejected patch has "
                       "several sections for one file, this deletes the reject an earlier iteration has just written" % (
                           "the next iteration" if back else "its end"), fn.where(t),
                       ok_detail="every path from the removal creates the reject or returns an error")
    ck.floor(rule, "removals of a reject path", n, 1)


def filter_lets_only_failed(pf):
    """The filter closure over (hunk, report) pairs returns true only under the Failed discriminant of the pair's field 1."""
    sws = pt.discr_switches(pf, lambda e, rv: (rv.get("adt") or "").endswith("HunkApplyReport"))
    on_item1 = [sw for sw in sws if df.mentions(sw["expr"], lambda x: isinstance(x, tuple) and x[0] == "field" and x[2] == 1 and
                                                df.mentions(x[1], lambda y: isinstance(y, tuple) and y[0] == "param" and y[1] == 2))]
    trues = [b3 for b3, i3, s3 in pf.stmts() if s3["k"] == "assign" and s3["lhs"]["l"] == 0 and "p" not in s3["lhs"] and
             df.rvalue_expr(pf, s3["rv"]) != ("const", 0, "bool")]
    return bool(on_item1) and bool(trues) and all(
        any(sw["edges"].get("Failed") and b3 in cfg.dominated_by_edge(pf, sw["edges"]["Failed"]) for sw in on_item1) for b3 in trues)


def loop_over_filtered_pairs(prog, wr, bb):
    """The block bb lies in a loop over `zip(..).filter(|(_, r)| r is Failed).map(|(hunk, _)| hunk)`: returns a description, or None."""
    for il in pt.iterator_loops(wr):
        if bb not in il["body"]:
            continue
        src = df.operand_expr(wr, il["next_term"]["args"][0])
        # a loop variable `iter` that is borrowed mutably stops the expansion: follow its (single) definition by hand
        for _ in range(6):
            locs = [x for x in df.walk(src) if isinstance(x, tuple) and x and x[0] == "local"]
            if not (isinstance(src, tuple) and src and (src[0] == "local" or (df.is_call(src, "IntoIterator::into_iter") and locs))):
                break
            l = src[1] if src[0] == "local" else locs[0][1]
            ds = df.all_def_exprs(wr, l)
            if len(ds) != 1:
                break
            src = ds[0]
        maps = [x for x in df.walk(src) if df.is_call(x, "Iterator::map") and len(x[2]) == 2]
        for m in maps:
            flt, mc = m[2]
            if not (df.is_call(flt, "Iterator::filter") and len(flt[2]) == 2 and df.is_call(flt[2][0], "Iterator::zip")):
                continue
            fc = flt[2][1]
            if not (isinstance(fc, tuple) and fc[0] == "closure" and fc[1] in prog.fns and isinstance(mc, tuple) and mc[0] == "closure" and mc[1] in prog.fns):
                continue
            mf = prog.fns[mc[1]]
            rets = df.all_def_exprs(mf, 0)
            takes0 = bool(rets) and all(isinstance(r, tuple) and r[0] == "field" and r[2] == 0 and isinstance(r[1], tuple) and r[1][0] == "param" and r[1][1] == 2
                                        for r in rets)
            if takes0 and filter_lets_only_failed(prog.fns[fc[1]]):
                return "loop over zip(..).filter(|(_, r)| r is Failed).map(|(hunk, _)| hunk)"
    return None


def r2_combinator_form(ck, wr):
    """zip(hunks, reports).filter(|(_, r)| matches!(r, Failed(..))).try_for_each(|(hunk, _)| hunk.write_to(w)): the hunk written is
    field 0 of the pair, the filter lets a pair through only on the Failed discriminant of its field 1.  Returns the number of hunk
    writer calls found in such closures."""
    prog = ck.prog
    n = 0
    for bb, t in wr.calls():
        last = (callee_of(t).get("path") or "").split("::")[-1]
        if wr.blocks[bb]["cleanup"] or last not in ("try_for_each", "for_each") or len(t["args"]) != 2:
            continue
        body = df.operand_expr(wr, t["args"][1])
        cl = prog.fns.get(body[1]) if isinstance(body, tuple) and body and body[0] == "closure" else None
        if cl is None:
            continue
        hws = [(b2, t2) for b2, t2 in cl.calls() if (callee_of(t2).get("rpath") or "").endswith("UnifiedPatchHunkWriter>::write_to")]
        if not hws:
            continue
        recv = df.operand_expr(wr, t["args"][0])
        inst = "only hunks whose own report is Failed are written"
        for b2, t2 in hws:
            n += 1
            hunk_e = df.operand_expr(cl, t2["args"][0])
            # the item is the closure's second parameter (a pair); the hunk is its field 0
            item0 = isinstance(hunk_e, tuple) and hunk_e[0] == "field" and hunk_e[2] == 0 and isinstance(hunk_e[1], tuple) and \
                hunk_e[1][0] == "param" and hunk_e[1][1] == 2
            flt = recv if df.is_call(recv, "Iterator::filter") else None
            ok_filter = False
            if flt is not None and len(flt[2]) == 2 and isinstance(flt[2][1], tuple) and flt[2][1][0] == "closure" and flt[2][1][1] in prog.fns and \
                    df.is_call(flt[2][0], "Iterator::zip"):
                ok_filter = filter_lets_only_failed(prog.fns[flt[2][1][1]])
            ck.require(item0 and ok_filter, "C13-R2", inst,
                       "the hunk writer runs in a %s closure over %s: not `zip(hunks, reports).filter(report is Failed)` with the hunk taken from "
                       "field 0 of the pair" % (last, df.show(recv, 100)), cl.where(t2),
                       ok_detail="zip(..).filter(|(_, r)| r is Failed).%s(|(hunk, _)| write)" % last)
    return n


def strict_parallel(ck, apply_worker):
    from . import c06
    found = 0
    for st in c06.stop_tests(ck.prog, apply_worker):
        found += 1
        ck.require(st["good"], "C13-R3", "parallel worker completes the failing patch",
                   "the worker stops on `index %s earliest`: file patches of the failing patch would be skipped" % st["op"], st["where"])
    ck.floor("C13-R3", "stop tests in apply_worker", found, 1)
