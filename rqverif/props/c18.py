"""C18  an output failure is never reported as success nor recorded as applied (DESIGN §4 C18)."""
from .. import callgraph, cfg, dataflow as df, errflow, guards, patterns as pt
from ..common import A, calls_named, external_roots
from ..facts import callee_of
from . import c05

LEVEL = "other"
EXPLANATION = (
    "Decides, for the output layer and everything above it up to main: (R1) no Result carrying an io/failure/fmt error is dropped, "
    "discarded through .ok()/is_ok() without use, or unwrapped — each is propagated, matched or wrapped (the two console-note "
    "callbacks are the reasoned exception); (R2) every BufWriter over a file handle is flushed (flush()/into_inner(), result "
    "consumed) on every path from its construction to a non-error exit — BufWriter's Drop swallows write errors; (R3) the error of "
    "every file-system write primitive passes a context wrapper (with_context/context) naming the operation's file on its way to "
    "cmd_push's return; (R4) names are recorded only after the driver returned Ok, and the parallel driver returns Ok only when no "
    "worker error is pending; (R5) main turns every error into exit status 1 and its reporting path has no panic site of its own. "
    "(R8) an error put aside in the state of the run is taken out again by every driver that can put it there. Not decided: errors the OS reports only at close(2) (Rust's File drops them; no sync_all), poisoned-mutex unwraps after another "
    "thread's panic."
)
LEVEL_NOTE = "Undecided: errors surfacing only at close(2); panics caused by a poisoned mutex after another thread panicked."

ALLOWED_DROPS = {
    # (caller prefix, callee suffix): reason
    ("rapidquilt::apply::sequential::apply_patches::{closure", "print_analysis_note"): "console note callback cannot propagate; stderr only",
    ("rapidquilt::apply::parallel::apply_worker::{closure", "print_analysis_note"): "console note callback cannot propagate; stderr only",
}


def output_scope(ck):
    prog, cg = ck.prog, ck.cg
    main = prog.one(A["main"])
    reach = cg.closure([main.id] + external_roots(prog))
    return {f for f in reach if prog.fns[f].crate == "rapidquilt" or "::modified_file::" in f or "::writer::" in f or "writer::Unified" in f}


def r1(ck):
    prog, cg = ck.prog, ck.cg
    rule = "C18-R1"
    scope = output_scope(ck)
    ck.count("functions in the output scope", len(scope))
    n = 0
    for fid in sorted(scope):
        fn = prog.fns[fid]
        for bb, t in fn.calls():
            if fn.blocks[bb]["cleanup"] or "p" in t["dest"]:
                continue
            if (t["dty"] or "").startswith("core::result::Result<core::result::Result<") and (callee_of(t).get("path") or "").split("::")[-1] in ("map", "map_or", "and"):
                # `.map(|x| fallible(x))` where `.and_then(..)` is meant: the closure's own Result ends up *inside* the Ok value and is
                # thrown away with it
                ck.violate(rule, "result of the closure given to %s in %s" % ((callee_of(t).get("path") or "").split("::")[-1], fid),
                           "a closure that returns a Result is applied with `map`: its error becomes part of the Ok value (%s) and is never "
                           "looked at - a failed output operation inside it would go unnoticed" % t["dty"][:90], fn.where(t))
            if not errflow.error_result_ty(t["dty"]):
                continue
            if t["dest"]["l"] == 0:
                n += 1
                continue    # returned directly
            c = callee_of(t)
            rp = c.get("rpath") or c.get("path") or "?"
            if rp.endswith("Try::branch") or rp.endswith("from_residual"):
                continue
            n += 1
            f = errflow.fate_of(fn, t["dest"]["l"])
            inst = "result of %s in %s" % (rp.split("::")[-1] if "::" in rp else rp, fid)
            if f.dropped or f.discarded:
                allowed = None
                for (cp, cs), why in ALLOWED_DROPS.items():
                    if fid.startswith(cp) and rp.endswith(cs):
                        allowed = why
                # text for the terminal is not an output of the push: `let _ = writeln!(io::stdout(), ..)` (println! that does not
                # panic on a closed pipe) may ignore the error
                if allowed is None and t["argtys"] and rp.split("::")[-1] in ("write_fmt", "write_all", "write_str", "flush", "write") and \
                        any(x in t["argtys"][0] for x in ("std::io::Stdout", "std::io::Stderr", "std::io::StdoutLock", "std::io::StderrLock",
                                                          "std::io::stdio::Stdout", "std::io::stdio::Stderr")):
                    allowed = "written to the terminal (stdout / stderr), not to a file of the push"
                if allowed:
                    ck.ok(rule, inst, "dropped by design: %s" % allowed, fn.where(t))
                else:
                    ck.violate(rule, inst, "the Result of %s is %s: a failed output operation would go unnoticed (%s)" % (
                        rp, "dropped" if f.dropped else "discarded", "; ".join(f.trail)), fn.where(t))
            elif f.unwrapped:
                ck.violate(rule, inst, "the Result of %s is unwrapped: an output failure would crash instead of being reported" % rp, fn.where(t))
            else:
                ck.ok(rule, inst, repr(f), fn.where(t))
    ck.floor(rule, "Result-returning calls in the output scope", n, 60)
    # partial writes: Write::write / write_vectored report how much was taken; Ok(n) with n short of the data is not an error, so a
    # caller that only propagates Err loses the rest of the data silently.  The count must flow into something (a comparison, an
    # advance of the slice, a return value); write_all does that itself.
    for fid in sorted(scope):
        fn = prog.fns[fid]
        for bb, t in fn.calls():
            if fn.blocks[bb]["cleanup"] or "p" in t["dest"]:
                continue
            c = callee_of(t)
            last = (c.get("path") or "").split("::")[-1]
            if last not in ("write", "write_vectored") or not t["dty"].startswith("core::result::Result<usize"):
                continue
            used = count_is_used(fn, t["dest"]["l"])
            ck.require(used, rule, "byte count of %s in %s" % (last, fid),
                       "%s returns how many bytes were taken, and that count is never looked at: a short write (disk full, quota, file size "
                       "limit) is not an Err, so the rest of the data is lost and the run reports success" % (c.get("rpath") or last), fn.where(t),
                       ok_detail="the count is used")


def count_is_used(fn, result_local):
    """Does the usize inside the Result held by result_local flow into anything other than being carried around?"""
    tainted = {result_local}
    changed = True
    while changed:
        changed = False
        for bb, idx, st in fn.stmts():
            if st["k"] != "assign" or st["lhs"]["l"] in tainted:
                continue
            rv = st["rv"]
            ops = []
            if rv["k"] in ("use", "cast"):
                ops = [rv["op"]]
            elif rv["k"] in ("ref", "rawptr"):
                ops = [{"k": "copy", "pl": rv["pl"]}]
            elif rv["k"] == "agg":
                ops = rv["ops"]
            if any(o.get("k") in ("copy", "move") and o["pl"]["l"] in tainted for o in ops):
                tainted.add(st["lhs"]["l"])
                changed = True
        for bb, t in fn.calls():
            rp = callee_of(t).get("path") or ""
            if "p" not in t["dest"] and t["dest"]["l"] not in tainted and rp.endswith(("Try::branch", "Try>::branch")) and \
                    any(a.get("k") in ("copy", "move") and a["pl"]["l"] in tainted for a in t["args"]):
                tainted.add(t["dest"]["l"])
                changed = True
    counts = {l for l in tainted if fn.local_ty(l) == "usize"}
    if 0 in tainted:
        return True      # handed to the caller
    for bb, idx, st in fn.stmts():
        if st["k"] == "assign" and st["rv"]["k"] in ("bin", "un"):
            for o in (st["rv"].get("a"), st["rv"].get("b")):
                if o and o.get("k") in ("copy", "move") and o["pl"]["l"] in counts:
                    return True
    for bb, t in fn.terms():
        if t["k"] == "switch" and t["discr"].get("k") in ("copy", "move") and t["discr"]["pl"]["l"] in counts:
            return True
        if t["k"] == "call":
            rp = callee_of(t).get("path") or ""
            if not rp.endswith(("Try::branch", "Try>::branch", "from_residual")) and \
                    any(a.get("k") in ("copy", "move") and a["pl"]["l"] in counts for a in t["args"]):
                return True
    return False


def r8_no_error_is_parked_unread(ck, rule="C18-R8"):
    """An error of an output operation is returned - or, when it is put aside in the state of the run to be reported later (a field of
    a struct that holds an `Error`), then every driver that can reach the code putting it aside also reaches code that takes it out
    again.  A driver that never looks drops the state with the error inside and reports success."""
    prog, cg = ck.prog, ck.cg
    ERR = ("failure::error::Error", "std::io::Error", "std::io::error::Error")
    fields = []
    for aid, a in sorted(prog.adts.items()):
        if not aid.startswith("rapidquilt::") or a.get("kind") != "Struct":
            continue
        for v in a.get("variants", []):
            for f in v.get("fields", []):
                if any(x in str(f.get("ty")) for x in ERR):
                    fields.append((aid, f["name"]))
    drivers = [d for d in (ck.anchor(A["seq"]), ck.anchor(A["par"])) if d is not None]
    ck.info(rule, "fields of the run's state that can hold an error", "%s" % (fields or "none: every error is returned"))
    for aid, name in fields:
        mention, readers = set(), set()
        for fn in prog.fns.values():
            takes = set()
            for bb, t in fn.calls():
                rp = callee_of(t).get("rpath") or ""
                if rp.endswith(("Option::<T>::take", "mem::take", "mem::replace", "Option::<T>::is_some", "Option::<T>::as_ref", "Vec::<T, A>::drain",
                                "Vec::<T, A>::pop", "IntoIterator>::into_iter", "Vec::<T, A>::is_empty")) and t["args"]:
                    takes |= set(df.operand_trace(fn, t["args"][0]))
            for bb, idx, st in fn.stmts():
                if st["k"] != "assign":
                    continue
                def has(pl):
                    return isinstance(pl, dict) and any(isinstance(p_, dict) and p_.get("adt") == aid and p_.get("name") == name for p_ in pl.get("p", []))
                rv = st["rv"]
                if has(st["lhs"]):
                    mention.add(fn.id)
                src = rv.get("pl") if rv["k"] in ("ref", "rawptr", "discr") else (rv.get("op", {}).get("pl") if rv["k"] == "use" else None)
                if has(src):
                    mention.add(fn.id)
                    if rv["k"] in ("use", "discr") or (rv["k"] == "ref" and st["lhs"]["l"] in takes and "p" not in st["lhs"]):
                        readers.add(fn.id)
        for d in drivers:
            cl = cg.closure([d.id]) | {c.id for f_ in cg.closure([d.id]) if f_ in prog.fns for c in prog.closures_of(prog.fns[f_])}
            touches = sorted((mention - readers) & cl)
            if not touches:
                continue
            ck.require(bool(readers & cl), rule, "%s.%s is looked at by %s" % (aid.split("::")[-1], name, d.id.split("::")[-2]),
                       "%s can put an error aside in %s.%s (through %s) but nothing it reaches ever takes it out again: the failure of that "
                       "output operation is dropped with the state and the run reports success" % (d.id, aid.split("::")[-1], name,
                                                                                                [x.split("::")[-1] for x in touches][:3]),
                       d.where(), ok_detail="taken out again by %s" % sorted(x.split("::")[-1] for x in readers & cl)[:3])


def r6_only_notfound_tolerated(ck, rule="C18-R6"):
    """A failing output operation may be passed over in exactly one case: removing something that is not there (NotFound).  Any other
    error kind that a function singles out after a failed remove_file / remove_dir / create_dir* / File::create is a failure that is
    turned into 'carry on' (for the unlink before re-creating a file that also means: the file is then rewritten in place, C15)."""
    from ..common import error_kinds_tested
    prog = ck.prog
    OUT = ("std::fs::remove_file", "std::fs::remove_dir", "std::fs::create_dir_all", "std::fs::create_dir", "std::fs::File::create",
           "std::fs::rename", "std::fs::set_permissions", "std::fs::File::set_permissions")
    n = 0
    for fn in sorted(prog.fns.values(), key=lambda f: f.id):
        if fn.crate != "rapidquilt":
            continue
        kinds = error_kinds_tested(fn, lambda x: isinstance(x, tuple) and x and x[0] == "call" and x[1] in OUT)
        for kind, bb in kinds:
            n += 1
            ck.require(kind == "NotFound", rule, "only `not found` is tolerated after a failed output operation (%s)" % fn.id.split("::")[-1],
                       "%s singles out ErrorKind::%s of a failed file-system operation: an error other than 'there was nothing to remove / no "
                       "such directory' is passed over, the run goes on and can report success (and a file whose unlink failed is rewritten in "
                       "place)" % (fn.id, kind), fn.where(fn.blocks[bb]["term"]), ok_detail="NotFound only")
    ck.floor(rule, "tests of the error kind of a failed output operation", n, 3)
    # ... and it is the `not found` side that carries on: on the other side of such a test (any other error) every path ends in an
    # error return, none gets back to the work (the next statement, the next iteration, a normal return)
    from .. import pathconst
    m = 0
    for fn in sorted(prog.fns.values(), key=lambda f: f.id):
        if fn.crate != "rapidquilt":
            continue
        src = lambda x: isinstance(x, tuple) and x and x[0] == "call" and x[1] in OUT
        for g in guards.find_bool_guards(fn, lambda x: isinstance(x, tuple) and x and x[0] == "call" and x[1].split("::")[-1] in ("eq", "ne") and len(x[2]) == 2):
            a, b = g["expr"][2]
            hit = None
            for k_, c_ in ((a, b), (b, a)):
                if df.is_call(k_, "io::error::Error::kind") and df.mentions(k_, src):
                    pv = guards.promoted_value(fn, c_)
                    if pv and pv[0] == "enum" and pv[2] == "NotFound":
                        hit = True
            if not hit:
                continue
            m += 1
            is_eq = g["expr"][1].split("::")[-1] == "eq"
            other_edge = g["false_edge"] if is_eq else g["true_edge"]
            err_bbs = {bb for bb, idx, st in fn.stmts() if st["k"] == "assign" and st["lhs"]["l"] == 0 and not st["lhs"].get("p") and
                       st["rv"]["k"] == "agg" and st["rv"].get("variant") == "Err"}
            err_bbs |= {bb for bb, t in fn.calls() if (callee_of(t).get("path") or "").endswith("from_residual") and t["dest"]["l"] == 0}
            # on this side the operation has failed: its result is an Err (a catch-all arm `other => other` that hands the result on is
            # shared with the Ok case, but here it hands on an error, which the `?` that follows turns into an error return)
            seed = {("V", t_["dest"]["l"]): ("Err",) for b_, t_ in fn.calls() if (callee_of(t_).get("rpath") or "") in OUT and "p" not in t_["dest"]}
            r = pathconst.reach_under(fn, lambda e_: None, None, blocked=err_bbs, valuation=lambda e_: None, prog=prog, start=[other_edge[1]], start_env=seed) \
                if other_edge[1] not in err_bbs else set()
            loop = cfg.innermost_loop_of(fn, g["bb"])
            goes_on = [b_ for b_ in r if fn.blocks[b_]["term"]["k"] == "return"] or (loop is not None and loop[0] in r)
            ck.require(not goes_on, rule, "an error other than `not found` ends in an error return (%s)" % fn.id.split("::")[-1],
                       "after a failed output operation the side of the `NotFound` test taken for every OTHER error can carry on (reach a "
                       "normal return or the next iteration): the failure is passed over", fn.where(fn.blocks[g["bb"]]["term"]),
                       ok_detail="the non-NotFound side only reaches error returns")
    ck.floor(rule, "NotFound tests after a failed output operation", m, 2)
    # ... and a failure that is only asked about with is_ok() / is_err() cannot be told from `not found` at all: its failure side must
    # not carry on either
    for fn in sorted(prog.fns.values(), key=lambda f: f.id):
        if fn.crate != "rapidquilt":
            continue
        src = lambda x: isinstance(x, tuple) and x and x[0] == "call" and x[1] in OUT
        for g in guards.find_bool_guards(fn, lambda x: (df.is_call(x, "Result::<T, E>::is_ok") or df.is_call(x, "Result::<T, E>::is_err")) and
                                         len(x[2]) == 1 and df.mentions(x[2][0], src)):
            fail_edge = g["false_edge"] if df.is_call(g["expr"], "Result::<T, E>::is_ok") else g["true_edge"]
            err_bbs = {bb for bb, idx, st in fn.stmts() if st["k"] == "assign" and st["lhs"]["l"] == 0 and not st["lhs"].get("p") and
                       st["rv"]["k"] == "agg" and st["rv"].get("variant") == "Err"}
            err_bbs |= {bb for bb, t in fn.calls() if (callee_of(t).get("path") or "").endswith("from_residual") and t["dest"]["l"] == 0}
            r = pathconst.reach_under(fn, lambda e_: None, None, blocked=err_bbs, valuation=lambda e_: None, prog=prog, start=[fail_edge[1]]) \
                if fail_edge[1] not in err_bbs else set()
            loop = cfg.innermost_loop_of(fn, g["bb"])
            goes_on = [b_ for b_ in r if fn.blocks[b_]["term"]["k"] == "return"] or (loop is not None and loop[0] in r)
            ck.require(not goes_on, rule, "a failed output operation asked about with is_ok()/is_err() ends in an error return (%s)" % fn.id.split("::")[-1],
                       "%s only asks whether the operation succeeded (%s) and carries on when it did not: whatever made it fail - not only "
                       "'there was nothing to remove' - is passed over and the run can report success" % (fn.id, df.show(g["expr"], 70)),
                       fn.where(fn.blocks[g["bb"]]["term"]), ok_detail="the failure side only reaches error returns")


def flush_sites(ck, fn):
    """Blocks of fn that flush a BufWriter: direct flush()/into_inner() calls, or calls receiving a closure that does."""
    prog, cg = ck.prog, ck.cg
    out = {}
    for bb, t in fn.calls():
        c = callee_of(t)
        p = c.get("path") or ""
        rp = c.get("rpath") or ""
        if p.endswith("Write::flush") or rp.endswith("BufWriter::<W>::into_inner"):
            a0 = t["argtys"][0] if t["argtys"] else ""
            if "BufWriter" in a0:
                out[bb] = t
    for s in cg.out[fn.id]:
        if s.kind == "value" and s.term is not None and s.callee in prog.fns:
            cl = prog.fns[s.callee]
            for b2, t2 in cl.calls():
                p = callee_of(t2).get("path") or ""
                if p.endswith("Write::flush") and "BufWriter" in (t2["argtys"][0] if t2["argtys"] else ""):
                    out[s.bb] = s.term
    return out


def r2(ck):
    prog, cg = ck.prog, ck.cg
    rule = "C18-R2"
    n = 0
    for fn in sorted(prog.fns.values(), key=lambda f: f.id):
        news = [(bb, t) for bb, t in fn.calls() if (callee_of(t).get("rpath") or "").endswith(("BufWriter::<W>::new", "BufWriter::<W>::with_capacity", "LineWriter::<W>::new", "LineWriter::<W>::with_capacity")) and not fn.blocks[bb]["cleanup"]]
        if not news:
            continue
        fl = flush_sites(ck, fn)
        brk = set()
        for sw in pt.discr_switches(fn, lambda e, rv: (rv.get("adt") or "").endswith("ControlFlow")):
            if "Break" in sw["edges"]:
                brk.add(sw["edges"]["Break"])
        # explicit `return Err(..)`
        err_blocks = {bb for bb, idx, s in fn.stmts() if s["k"] == "assign" and s["lhs"]["l"] == 0 and s["rv"]["k"] == "agg" and s["rv"].get("variant") == "Err"}
        for bb, t in news:
            wty = t["dty"]
            if "Vec<u8>" in wty or "Stdout" in wty or "Stderr" in wty:
                continue
            n += 1
            inst = "BufWriter in %s" % fn.id
            r = cfg.reachable(fn, [s for s in fn.succs(bb)], disabled=brk, blocked=set(fl) | err_blocks)
            rets = [b for b in cfg.exits(fn) if b in r]
            loop = cfg.innermost_loop_of(fn, bb)
            again = loop is not None and loop[0] in r
            if rets or again:
                ck.violate(rule, inst, "a %s is created here and a non-error exit%s is reachable without flush()/into_inner(): BufWriter's Drop "
                           "ignores write errors, so a failed final write would be reported as success" % (wty, " (or the next loop iteration)" if again else ""),
                           fn.where(t))
            else:
                ck.ok(rule, inst, "every non-error path from the construction crosses a flush (%d flush site(s))" % len(fl), fn.where(t))
            # the flush result itself must be consumed
            for fbb, ft in fl.items():
                if "p" in ft["dest"]:
                    continue
                if ft["dest"]["l"] == 0:
                    continue
                if callee_of(ft).get("path", "").endswith("Write::flush"):
                    f = errflow.fate_of(fn, ft["dest"]["l"])
                    ck.require(not (f.dropped or f.discarded), rule, "flush result in %s" % fn.id, "the result of flush() is dropped", fn.where(ft))
    # files written without a buffer need no flush (a failing write is the failing call itself, C18-R1); they count as output sinks too
    direct = 0
    for fn in prog.fns.values():
        if fn.crate != "rapidquilt":
            continue
        for bb, t in fn.calls():
            if not fn.blocks[bb]["cleanup"] and (callee_of(t).get("path") or "").endswith(("Write::write_all", "Write::write_fmt")) and \
                    t["argtys"] and t["argtys"][0] in ("&mut std::fs::File", "&std::fs::File"):
                direct += 1
    ck.count("unbuffered writes to a File", direct)
    ck.floor(rule, "file output sinks (BufWriter over a file handle, or unbuffered writes to a File)", n + direct, 3)


def r3(ck):
    prog, cg = ck.prog, ck.cg
    rule = "C18-R3"
    cmd_push = prog.one(A["cmd_push"])
    memo = {}

    def site_wrapped(fn, term, depth=0, seen=None):
        """Is the error produced by call `term` in fn wrapped with context before it leaves cmd_push?"""
        seen = seen or set()
        key = (fn.id, id(term))
        if key in seen or depth > 8:
            return False, ["recursion"]
        seen = seen | {key}
        if "p" in term["dest"]:
            return False, ["result stored in a projection"]
        if term["dest"]["l"] == 0:
            f = errflow.Fate()
            f.returned = f.returned_raw = True
        else:
            f = errflow.fate_of(fn, term["dest"]["l"])
        if f.returned_raw:
            # escapes this function unwrapped: every caller must wrap
            if fn.id == cmd_push.id:
                return False, ["reaches the return of cmd_push without context"]
            sites = [s for s in cg.sites_to(fn.id) if s.term is not None]
            if not sites:
                return False, ["%s has no visible caller" % fn.id]
            for s in sites:
                ok, why = site_wrapped(s.caller, s.term, depth + 1, seen)
                if not ok:
                    return False, ["%s -> %s" % (fn.id, s.caller.id)] + why
            return True, []
        if f.wrapped and f.returned:
            return True, []
        if f.dropped or f.discarded:
            return True, []     # R1's business
        if f.matched and not f.returned:
            return True, []     # handled locally (e.g. NotFound ignored)
        if f.wrapped:
            return True, []
        return True, []

    prims = cg.fs_write_sites()
    for site, lab in prims:
        fn = site.caller
        inst = "%s in %s" % (site.callee, fn.id)
        if site.term["dty"] == "()" or not site.term["dty"].startswith("core::result::Result<"):
            continue
        ok, why = site_wrapped(fn, site.term)
        ck.require(ok, rule, inst, "the io::Error of %s can reach the user without a context naming the file: %s" % (site.callee, " / ".join(why)),
                   site.where(), ok_detail="wrapped with context on every path to cmd_push's return")
    ck.floor(rule, "file-system write primitive sites", len(prims), 11)
    # the wrappers carry the file name: contexts built from ApplyError variants with a filename/dirname field or a message
    nctx = 0
    for fn in prog.fns.values():
        if fn.crate != "rapidquilt" or "::cmd::" in fn.id and "cmd_push" not in fn.id:
            continue
        for bb, idx, s in fn.stmts():
            if s["k"] == "assign" and s["rv"]["k"] == "agg" and (s["rv"].get("adt") or "").endswith("apply::ApplyError"):
                nctx += 1
                flds = s["rv"]["fields"]
                ck.require(any(f in ("filename", "dirname", "patch_filename") for f in flds), rule,
                           "ApplyError::%s names a path" % s["rv"]["variant"], "context variant without a path field", fn.where(s))
    ck.floor(rule, "ApplyError contexts constructed", nctx, 6)


def r5(ck):
    prog = ck.prog
    rule = "C18-R5"
    main = prog.one(A["main"])
    runs = calls_named(main, "rapidquilt::cmd::run")
    if not runs:
        ck.violate(rule, "anchor:cmd::run in main", "reason=anchor")
        return
    re = pt.result_edges(main, runs[0][0])
    if not re or not re["err"]:
        ck.violate(rule, "main matches on run()", "no Err edge")
        return
    region = set()
    for e in re["err"]:
        region |= cfg.reachable(main, [e[1]])
    bad = []
    for b in sorted(region):
        t = main.blocks[b]["term"]
        if main.blocks[b]["cleanup"]:
            continue
        if t["k"] == "assert":
            bad.append("assert %s at %s" % (t["msg"], main.where(t)))
        if t["k"] == "call":
            p = callee_of(t).get("rpath") or ""
            if any(p.endswith(x) for x in errflow.PANICKERS) or p.startswith("core::panicking") or p.endswith("Option::<T>::unwrap") or \
                    p.endswith("Option::<T>::expect") or p.endswith("Index::index") or p.endswith("::index"):
                bad.append("%s at %s" % (p, main.where(t)))
    ck.require(not bad, rule, "error reporting path of main has no panic site of its own",
               "panic-capable sites in the Err arm of main: %s" % bad, main.where(), ok_detail="%d blocks, none asserting/unwrapping/indexing" % len(region))


def run(ck):
    prog = ck.prog
    r1(ck)
    r2(ck)
    r3(ck)
    r6_only_notfound_tolerated(ck)
    cmd_push, seq, par, main = prog.one(A["cmd_push"]), prog.one(A["seq"]), prog.one(A["par"]), prog.one(A["main"])
    c05.r1(ck_alias(ck, "C18-R4"), cmd_push, seq, par)
    c05.r4(ck, par, rule="C18-R4")
    c05.r5(ck_alias(ck, "C18-R5"), main, cmd_push, seq, par)
    r5(ck)
    r7_error_paths_cannot_crash(ck)
    r8_no_error_is_parked_unread(ck)


def r7_error_paths_cannot_crash(ck, rule="C18-R7"):
    """An output failure has to come out as an error message and exit status 1.  The code that runs *because* an operation failed -
    the `Err` arms of matches on a Result, the closures handed to with_context / map_err / or_else - builds that error; a panic
    there turns the failure into a crash (status 101, no message naming the file).  Every panic-capable site in such code of the
    output scope is discharged by the range engine, or is one of two recognised cases: `lock().unwrap()` (poisoned only after another
    thread has already panicked) and `series_patches[index]` with an index numbered off that very sequence (C16-R1c)."""
    from .. import panics, cfg, patterns as pt
    from . import c11
    prog, cg = ck.prog, ck.cg
    scope = output_scope(ck)
    obl, an = panics.analyse_scope(prog, cg, set(scope), libcalls=True)
    regions = {}

    def err_region(fn):
        if fn.id not in regions:
            reg = set()
            for sw in pt.discr_switches(fn, lambda e, rv: (rv.get("adt") or "") == "core::result::Result"):
                e = sw["edges"].get("Err")
                if e:
                    reg |= cfg.dominated_by_edge(fn, e)
            regions[fn.id] = reg
        return regions[fn.id]
    errclosures = set()
    for fid in scope:
        f = prog.fns[fid]
        for bb, t in f.calls():
            last = (callee_of(t).get("path") or "").split("::")[-1]
            if last in ("with_context", "map_err", "or_else", "unwrap_or_else", "context") and len(t["args"]) >= 2 and "Result" in (t["argtys"][0] or ""):
                e = df.operand_expr(f, t["args"][1])
                if isinstance(e, tuple) and e and e[0] == "closure":
                    errclosures.add(e[1])
    ck.count("closures that build an error for a failed operation", len(errclosures))
    n = 0
    for o in obl:
        if o.kind in ("alloc", "libcall") or getattr(o, "libclass", None) == "print":
            continue
        fn = o.fn
        if not (fn.id in errclosures or (o.bb is not None and o.bb in err_region(fn))):
            continue
        n += 1
        inst = "%s in %s: %s" % (o.kind, fn.id, c11.describe(o))
        if o.ok:
            ck.ok(rule, inst, o.detail, fn.where(o.term))
            continue
        why = None
        t = o.term
        if o.kind == "unwrap" and t.get("k") == "call" and t["args"]:
            e = df.operand_expr(fn, t["args"][0])
            if df.is_call(e, "Mutex::<T>::lock"):
                why = "lock().unwrap(): the mutex is poisoned only when another thread has panicked while holding it"
        if why is None and o.kind in ("bounds", "index"):
            txt = o.what + " " + c11.describe(o)
            if "series_patches" in txt:
                # the index is a captured / local value numbered off the series (enumerate), see C16-R1c
                par_ = prog.fns.get(fn.parent) if fn.kind == "Closure" else fn
                enum = [1 for b2, t2 in (par_.calls() if par_ else []) if (callee_of(t2).get("path") or "").endswith("Iterator::enumerate") and
                        t2["argtys"] and ("SeriesPatch" in t2["argtys"][0] or "patch::Patch<" in t2["argtys"][0])]
                if enum:
                    why = "series_patches[index] with the index numbered off the series itself (C16-R1c)"
        if why:
            ck.ok(rule, inst, why, fn.where(o.term))
        else:
            ck.violate(rule, inst, "code that runs because an output operation failed can panic here (%s): the failure would end in a crash "
                       "instead of an error message and exit status 1" % o.detail[:200], fn.where(o.term))
    ck.floor(rule, "panic-capable sites on error paths of the output scope", n, 2)


class ck_alias:
    """Re-report rules of another property under this property's rule id."""
    def __init__(self, ck, rule):
        self._ck, self._rule = ck, rule

    def __getattr__(self, name):
        return getattr(self._ck, name)

    def ok(self, rule, *a, **k):
        return self._ck.ok(self._rule, *a, **k)

    def violate(self, rule, *a, **k):
        return self._ck.violate(self._rule, *a, **k)

    def require(self, cond, rule, *a, **k):
        return self._ck.require(cond, self._rule, *a, **k)

    def floor(self, rule, *a, **k):
        return self._ck.floor(self._rule, *a, **k)
