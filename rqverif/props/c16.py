"""C16  per-patch series options and file-name resolution are honoured consistently (DESIGN §4 C16)."""
from .. import cfg, dataflow as df, guards, patterns as pt
from ..common import A, calls_named
from ..facts import callee_of

LEVEL = "other"
EXPLANATION = (
    "Decides: (R1) both drivers pass the strip level of the very series entry whose file they parse to parse_patch, and the "
    "direction handed to FilePatch::apply is chosen by a branch on the `reverse` flag of series_patches[index]; (R2) name "
    "resolution has one routine, reached by both drivers only through apply_one_file_patch; (R3) the in-memory view overrides the "
    "disk: the disk is only consulted on the 'not in the map' edge (exists() in choose_filename_to_patch, load_file in get_or_load); "
    "(R4) /dev/null never becomes a target: the parser maps it to the payload-free DevNull variant before any Real name is built and "
    "only Real payloads reach the file patch; (R5) direction duality: every branch on a PatchDirection whose arms select members of "
    "a dual pair (add/remove, new/old name, new/old permissions) selects opposite members, and create/delete dispatch is mirrored; "
    "(R6) the series parser skips blank/comment lines before option parsing, knows -p/--strip (with argument) and -R, and both "
    "reach the SeriesPatch built for the line. (R7) stripping draws exactly one leading component per unit of the entry's level - a loop over 0..level with "
    "one Components::next() per iteration and none elsewhere, the rest taken with as_path() after the loop - from each name that is "
    "present, in both representations of a name (owned / borrowed). (R3c) the four-row resolution table (in memory / deleted / on disk) holds by reachability under each valuation, (R1c) what is enumerated to index the series is the series, (R8/R9) related names are scheduled together under the two names of the file patch. Not decided: what Path::components() takes for a component (runs of "
    "slashes, '.') and names with fewer than N components."
)
LEVEL_NOTE = "Undecided: Path::components semantics of stripping; behaviour when the name has fewer than N components."

SERIES_PATCH = "rapidquilt::apply::SeriesPatch"
DUAL = [("add", "remove"), ("new_filename", "old_filename"), ("new_permissions", "old_permissions"),
        ("add_content", "remove_content"), ("add_part", "remove_part")]


def capture_expr(prog, closure_fn, field_index):
    """Expression (in the parent) of the field_index-th captured value of a closure."""
    parent = prog.fns.get(closure_fn.parent)
    if parent is None:
        return None, None
    for bb, idx, s in parent.stmts():
        if s["k"] == "assign" and s["rv"]["k"] == "agg" and s["rv"].get("closure") == closure_fn.id:
            ops = s["rv"]["ops"]
            if field_index < len(ops):
                return parent, df.operand_expr(parent, ops[field_index])
    return parent, None


def resolve_through_capture(prog, fn, e):
    """If e's root is a closure upvar (field i of param 1 of a closure), rewrite the root into the parent's expression."""
    def root(x):
        path = []
        while isinstance(x, tuple) and x and x[0] in ("field", "downcast", "index"):
            path.append(x)
            x = x[1]
        return x, path
    r, path = root(e)
    if fn.kind == "Closure" and isinstance(r, tuple) and r[0] == "param" and r[1] == 1 and path:
        up = path[-1]
        if up[0] == "field" and isinstance(up[2], int):
            parent, pe = capture_expr(prog, fn, up[2])
            if pe is not None:
                # rebuild
                cur = pe
                for node in reversed(path[:-1]):
                    if node[0] == "field":
                        cur = ("field", cur, node[2])
                    elif node[0] == "downcast":
                        cur = ("downcast", cur, node[2])
                    else:
                        cur = ("index", cur, node[2])
                return parent, cur
    return fn, e


def run(ck):
    prog, cg = ck.prog, ck.cg
    r1(ck)
    r2(ck)
    r3(ck)
    r4(ck)
    r5(ck)
    r6(ck)
    r7(ck)
    r1c_positions_kept(ck)
    r3c_resolution_table(ck)
    # R8: in the parallel mode "the state left by earlier patches of the same run" is the state of one worker: a file patch sees what was
    # done to its old and new name only if everything that named them ran on the same worker - the grouping of related names (C07)
    from . import c07
    from ..framework import RuleAlias
    c07.run(RuleAlias(ck, lambda r: "C16-R8"))
    # ... and the names handed to the distributor are the two names of the file patch (C06-R8): registered under one name twice, the
    # other name's earlier patches run on another worker and their result is not seen
    from . import c06
    c06.run(RuleAlias(ck, lambda r: "C16-R9" if r == "C06-R8" else None))


def r1(ck):
    prog, cg = ck.prog, ck.cg
    pp = ck.anchor(A["parse_patch"])
    if pp is None:
        return
    sites = [s for s in cg.sites_to(pp.id) if s.term is not None and s.kind == "call"]
    ck.floor("C16-R1", "parse_patch call sites", len(sites), 2)
    for s in sites:
        fn = s.caller
        e = df.operand_expr(fn, s.term["args"][1])
        ok = isinstance(e, tuple) and e[0] == "field" and e[2] == "strip"
        inst = "strip argument of parse_patch in %s" % fn.id
        if not ck.require(ok, "C16-R1", inst, "parse_patch is given strip = %s, expected the series entry's own `strip`" % df.show(e, 100), s.where()):
            continue
        host, base = resolve_through_capture(prog, fn, e[1])
        # the file parsed: load_file(join(patches_path, X.filename)) in the same function or the enclosing one
        cands = []
        for f2 in {fn, host, prog.fns.get(fn.parent) or fn}:
            for bb, t in f2.calls():
                c = callee_of(t)
                if (c.get("path") or "").endswith("Arena::load_file"):
                    pe = df.operand_expr(f2, t["args"][1])
                    fl = [x for x in df.walk(pe) if isinstance(x, tuple) and x[0] == "field" and x[2] == "filename"]
                    for x in fl:
                        h2, b2 = resolve_through_capture(prog, f2, x[1])
                        cands.append((h2, b2))
        same = any(h2.id == host.id and b2 == base for h2, b2 in cands)
        ck.require(same, "C16-R1", "strip belongs to the entry whose file is parsed (%s)" % fn.id,
                   "strip is taken from %s but the file loaded is named by %s" % (df.show(base, 80), [df.show(b, 80) for _, b in cands]), s.where(),
                   ok_detail="entry = %s" % df.show(base, 80))
    # direction from `reverse` of series_patches[index]
    ao = ck.anchor("apply_one_file_patch")
    if ao is None:
        return
    ap = calls_named(ao, "FilePatch::<'a, &'a [u8]>::apply")
    ck.floor("C16-R1", "FilePatch::apply calls in apply_one_file_patch", len(ap), 1)
    gs = guards.find_bool_guards(ao, lambda e: isinstance(e, tuple) and e[0] == "field" and e[2] == "reverse")
    for bb, t, c in ap:
        op = t["args"][2]
        pl = pt.trace_place(ao, op)
        l = pl["l"] if pl else None
        defs = df.defs_of(ao).all(l) if l is not None else []
        verdict = {}
        for dd in defs:
            if dd[0] != "stmt" or dd[3]["rv"]["k"] != "agg":
                continue
            var = dd[3]["rv"].get("variant")
            for g in gs:
                if dd[1] in cfg.dominated_by_edge(ao, g["true_edge"]):
                    verdict[var] = "reverse"
                elif dd[1] in cfg.dominated_by_edge(ao, g["false_edge"]):
                    verdict[var] = "not reverse"
        good = verdict == {"Revert": "reverse", "Forward": "not reverse"}
        ck.require(good, "C16-R1", "direction chosen by the entry's -R flag",
                   "direction passed to apply: %s (expected Revert iff reverse)" % verdict, ao.where(t), ok_detail=str(verdict))
    for g in gs:
        base = g["expr"][1]
        ok = isinstance(base, tuple) and base[0] == "index" and df.mentions(base[1], lambda x: isinstance(x, tuple) and x[0] == "field" and x[2] == "series_patches")
        idx_ok = False
        if ok and isinstance(base[2], tuple) and base[2][0] == "localidx":
            ie = df.local_expr(ao, base[2][1])
            idx_ok = isinstance(ie, tuple) and ie[0] == "param" and ie[2] == "index"
        ck.require(ok and idx_ok, "C16-R1", "-R flag read from series_patches[index]", "reverse is read from %s" % df.show(base, 100), ao.where())
    ck.floor("C16-R1", "branches on SeriesPatch.reverse", len(gs), 1)


def r2(ck):
    prog, cg = ck.prog, ck.cg
    ch = ck.anchor("rapidquilt::apply::common::choose_filename_to_patch")
    ao = ck.anchor("apply_one_file_patch")
    if ch is None or ao is None:
        return
    callers = cg.callers(ch.id)
    ck.require(callers == [ao.id], "C16-R2", "one caller of choose_filename_to_patch", "choose_filename_to_patch is called from %s" % callers, ch.where())
    # the resolution routine is asked "old name, else new name" whatever the direction: its second argument is the patch's old name
    # and its third the new name on every path (-R exchanges the two sides of the hunks, not the roles of the two names)
    for bb, t, c in calls_named(ao, "rapidquilt::apply::common::choose_filename_to_patch"):
        for i, acc in ((1, "old_filename"), (2, "new_filename")):
            alts = df.alternatives(ao, df.operand_expr(ao, t["args"][i])) or []
            good = bool(alts) and all(df.is_call(x, "FilePatch::<'a, Line>::" + acc) for x in alts)
            ck.require(good, "C16-R2", "%s() is what the resolution routine gets as its %s name" % (acc, acc.split("_")[0]),
                       "choose_filename_to_patch is given %s as its %s name: the rule 'the old name if that file exists, else the new name' "
                       "would be applied to other names (e.g. exchanged under -R)" % ([df.show(x, 70) for x in alts], acc.split("_")[0]), ao.where(t),
                       ok_detail="file_patch.%s() on every path" % acc)
    c2 = cg.callers(ao.id)
    seq, aw = prog.one(A["seq"]), prog.one(A["apply_worker"])
    ck.require(set(c2) == {seq.id, aw.id}, "C16-R2", "both drivers apply through apply_one_file_patch",
               "apply_one_file_patch is called from %s" % c2, ao.where())
    # no other user of the low-level apply on the live state: FilePatch::apply callers outside diagnostics clones
    fa = prog.one("FilePatch::<'a, &'a [u8]>::apply")
    others = [c for c in cg.callers(fa.id) if c != ao.id and "::diagnostics::" not in c]
    ck.require(not others, "C16-R2", "no driver applies a file patch bypassing the resolution routine",
               "FilePatch::apply is also called from %s" % others, fa.where())


def r3(ck, rule="C16-R3"):
    prog = ck.prog
    ch = ck.anchor("rapidquilt::apply::common::choose_filename_to_patch")
    gol = ck.anchor("ModifiedFiles::<'arena, 'config>::get_or_load")
    if ch is None or gol is None:
        return
    ex = calls_named(ch, "std::path::Path::exists", "std::path::Path::try_exists", "std::fs::metadata", "std::fs::symlink_metadata", "std::path::Path::is_file")
    ck.floor(rule, "disk probes in choose_filename_to_patch", len(ex), 1)
    sws = pt.discr_switches(ch, lambda e, rv: df.is_call(e, "HashMap::<K, V, S, A>::get") or df.mentions(e, lambda x: df.is_call(x, "HashMap::<K, V, S, A>::get")))
    for bb, t, c in ex:
        ok = False
        for sw in sws:
            ne = sw["edges"].get("None")
            if ne and bb in cfg.dominated_by_edge(ch, ne):
                # the map lookup and the probe concern the same name
                key = sw["expr"]
                ok = True
        ck.require(ok, rule, "disk consulted only for names not in the map (choose_filename_to_patch)",
                   "the disk probe is not dominated by the None edge of the in-memory lookup: a file created or deleted earlier in the run "
                   "would be resolved from stale disk state", ch.where(t))
    # for a name that IS in the map, existence is its `deleted` flag and nothing else: an empty file exists (a file whose content a
    # rename took away is marked deleted by move_out).  An accessor such as is_vacant() is inlined by inline.py, so what it reads
    # shows up here.
    MF = "libpatch::modified_file::ModifiedFile"
    some_regions = [cfg.dominated_by_edge(ch, sw["edges"]["Some"]) for sw in sws if sw["edges"].get("Some")]
    if ck.require(bool(some_regions), rule, "choose_filename_to_patch branches on the in-memory record", "no Some edge of the in-memory lookup", ch.where()):
        used = sorted({nm for reg in some_regions for bb, nm in df.adt_field_uses(ch, MF, reg)})
        ck.require(used == ["deleted"], rule, "for a name tracked in memory, existence is its `deleted` flag alone",
                   "on the path where the old name is in the map, choose_filename_to_patch reads %s of the record: e.g. an existing but empty "
                   "file would be taken for absent and the patch would go to the new name, while a later invocation (which finds the file on "
                   "disk) picks the old name" % used, ch.where(), ok_detail="reads only .deleted")
    # what the two functions may base a decision on (anything else - a remembered set of "missing" names or directories, a counter, a flag
    # - answers from a summary that can be stale, or differently in a later invocation)
    def decisions(fn):
        out = []
        for bb, t in fn.terms():
            if t["k"] != "switch" or fn.blocks[bb]["cleanup"]:
                continue
            if t["dty"] == "bool":
                op = t["discr"]
                if op.get("k") in ("copy", "move") and "p" not in op["pl"] and not fn.local_name(op["pl"]["l"]):
                    ds = df.defs_of(fn).all(op["pl"]["l"])
                    if ds and all(dd[0] == "stmt" and dd[3]["rv"]["k"] == "use" and dd[3]["rv"]["op"].get("k") == "const" for dd in ds):
                        continue        # a drop flag
                e, neg = guards.switch_cond(fn, bb)
                out.append((bb, "bool", e))
            else:
                sw = [x for x in pt.discr_switches(fn, lambda e_, rv: True) if x["bb"] == bb]
                out.append((bb, "discr", sw[0]["expr"] if sw else df.operand_expr(fn, t["discr"])))
        return out

    def allowed_choose(kind, e):
        if kind == "discr":
            return (isinstance(e, tuple) and e[0] == "param") or df.is_call(e, "HashMap::<K, V, S, A>::get") or \
                (isinstance(e, tuple) and e[0] == "agg" and e[1] == "tuple")
        return df.is_call(e, "::eq") or df.is_call(e, "::ne") or (isinstance(e, tuple) and e[0] == "field" and e[2] == "deleted") or \
            df.is_call(e, "std::path::Path::exists") or df.is_call(e, "std::path::Path::try_exists")

    def allowed_load(kind, e):
        if kind == "discr":
            return df.is_call(e, "HashMap::<K, V, S, A>::entry") or df.is_call(e, "Arena::load_file") or df.is_call(e, "Try>::branch") or \
                df.is_call(e, "Try::branch")
        return (df.is_call(e, "::eq") or df.is_call(e, "::ne")) and df.mentions(e, lambda x: df.is_call(x, "io::error::Error::kind")) and \
            df.mentions(e, lambda x: df.is_call(x, "Arena::load_file"))
    for fn_, allowed, what in ((ch, allowed_choose, "which of the two names a file patch applies to depends only on the names, the in-memory record "
                                "(present? deleted?) and - for names not in memory - the disk"),
                               (gol, allowed_load, "whether a file is taken from memory, loaded or taken for absent depends only on the map entry and "
                                "the answer of the load")):
        def allowed_any(kind, e, fn_=fn_, allowed=allowed):
            # a decision computed into a flag first: every value the flag can stand for is an allowed one (or a constant)
            if allowed(kind, e):
                return True
            alts = df.alternatives(fn_, e)
            if not alts or alts == [e]:
                return False

            def one(a):
                while isinstance(a, tuple) and a and a[0] in ("un",) and len(a) >= 3:
                    a = a[2]
                while isinstance(a, tuple) and a and a[0] == "not":
                    a = a[1]
                return df.is_const(a) or allowed(kind, a)
            return all(one(a) for a in alts)
        other = [(bb, df.show(e, 90)) for bb, kind, e in decisions(fn_) if not allowed_any(kind, e)]
        ck.require(not other, rule, what,
                   "%s also branches on %s: an answer remembered from an earlier lookup (or any other summary) can be stale within the run and "
                   "is not what a later invocation would find" % (fn_.id.split("::")[-1], [x[1] for x in other]),
                   fn_.where(fn_.blocks[other[0][0]]["term"]) if other else fn_.where(), ok_detail="%d decisions, all on the map / the record / the disk" % len(decisions(fn_)))
    # an absent file is only ever recorded on the NotFound answer of the load
    for bb, t in gol.calls():
        if (callee_of(t).get("rpath") or "").endswith("ModifiedFile::<'a>::new_non_existent") and not gol.blocks[bb]["cleanup"]:
            nf = [g["true_edge"] for g in guards.find_bool_guards(gol, lambda x: df.is_call(x, "::eq") and df.mentions(x, lambda y: df.is_call(y, "io::error::Error::kind")))]
            ck.require(any(bb in cfg.dominated_by_edge(gol, e_) for e_ in nf), rule, "a file is recorded as absent only when loading it answered NotFound",
                       "get_or_load builds ModifiedFile::new_non_existent() on a path that did not try to load the file: a file that exists would be "
                       "recorded with existed = false and later be rewritten in place", gol.where(t))
    lf = [(bb, t) for bb, t in gol.calls() if (callee_of(t).get("path") or "").endswith("Arena::load_file")]
    ck.floor(rule, "load_file calls in get_or_load", len(lf), 1)
    sws = pt.discr_switches(gol, lambda e, rv: (rv.get("adt") or "").endswith("hash::map::Entry"))
    for bb, t in lf:
        ok = any(sw["edges"].get("Vacant") and bb in cfg.dominated_by_edge(gol, sw["edges"]["Vacant"]) for sw in sws)
        ck.require(ok, rule, "file loaded from disk only when absent from the map (get_or_load)",
                   "load_file is not dominated by the Vacant edge of the map entry", gol.where(t))


def r4(ck):
    prog = ck.prog
    pf = ck.anchor("libpatch::patch::unified::parser::parse_filename")
    bf = ck.anchor("FilePatchMetadata::<'a>::build_filepatch")
    if pf is None or bf is None:
        return
    reals = [(bb, s) for bb, idx, s in pf.stmts() if s["k"] == "assign" and s["rv"]["k"] == "agg" and s["rv"].get("variant") == "Real"]
    ck.floor("C16-R4", "Filename::Real constructions in parse_filename", len(reals), 2)

    def is_null_cmp(e):
        if not (isinstance(e, tuple) and e[0] == "call" and (e[1].endswith("::eq") or e[1].endswith("::ne"))):
            return False
        def is_null(x):
            if df.is_const(x, "/dev/null"):
                return True
            if isinstance(x, tuple) and x and x[0] == "constitem":
                if str(x[1]).endswith("NULL_FILENAME"):
                    return True
                pv = guards.promoted_value(pf, x)
                if pv and pv[0] == "item" and (str(pv[1]).endswith("NULL_FILENAME") or pv[2] == "/dev/null"):
                    return True
            return False
        return df.mentions(e, is_null)
    gs = guards.find_bool_guards(pf, is_null_cmp)
    for bb, s in reals:
        ok = False
        for g in gs:
            edge = g["false_edge"] if g["expr"][1].endswith("::eq") else g["true_edge"]
            if bb in cfg.dominated_by_edge(pf, edge):
                ok = True
        ck.require(ok, "C16-R4", "a Real name is only built after the /dev/null test failed",
                   "Filename::Real is constructed without a dominating comparison with NULL_FILENAME: /dev/null would become a patch target", pf.where(s))
    # ... and the converse: the absent name (`Filename::DevNull`) is only ever made of the text /dev/null - not of a time stamp, an
    # empty name, a mode line ... (a real name taken for "absent" turns a modification into a creation / deletion, or leaves a patch
    # without any name)
    nnull = 0
    for fn in sorted(prog.fns.values(), key=lambda f: f.id):
        if fn.crate != "libpatch":
            continue
        for bb, idx, s in fn.stmts():
            if s["k"] != "assign" or s["rv"]["k"] != "agg" or s["rv"].get("variant") != "DevNull" or not (s["rv"].get("adt") or "").endswith("Filename"):
                continue
            if fn.blocks[bb]["cleanup"]:
                continue
            nnull += 1
            ok = False
            if fn.id == pf.id:
                for g in gs:
                    edge = g["true_edge"] if g["expr"][1].endswith("::eq") else g["false_edge"]
                    if bb in cfg.dominated_by_edge(pf, edge):
                        ok = True
            ck.require(ok, "C16-R4", "the absent name is only made of the text /dev/null (%s)" % fn.id.split("::")[-1],
                       "Filename::DevNull is constructed in %s where the name was not compared equal to NULL_FILENAME: a real file name is taken "
                       "for 'no file on this side'" % fn.id, fn.where(s), ok_detail="on the equal side of the comparison with NULL_FILENAME")
    ck.floor("C16-R4", "Filename::DevNull constructions", nnull, 1)
    # only Real payloads reach the builder's names
    for meth in ("FilePatchBuilder::<'a, Line>::old_filename", "FilePatchBuilder::<'a, Line>::new_filename"):
        calls = calls_named(bf, meth)
        ck.floor("C16-R4", "%s calls in build_filepatch" % meth.split("::")[-1], len(calls), 1)
        for bb, t, c in calls:
            pl = pt.trace_place(bf, t["args"][1])
            defs = df.defs_of(bf).all(pl["l"]) if pl else []
            bad = []
            nsome = 0
            for dd in defs:
                if dd[0] == "stmt" and dd[3]["rv"]["k"] == "agg":
                    if dd[3]["rv"].get("variant") == "Some":
                        nsome += 1
                        e = df.operand_expr(bf, dd[3]["rv"]["ops"][0])
                        if not df.mentions(e, lambda x: isinstance(x, tuple) and x[0] == "downcast" and x[2] == "Real"):
                            bad.append(df.show(e, 80))
                else:
                    bad.append("non-aggregate definition")
            ck.require(not bad and nsome >= 1, "C16-R4", "%s of the file patch is a Real payload or None" % meth.split("::")[-1],
                       "the name handed to the builder is %s" % bad, bf.where(t))


def r5(ck):
    prog = ck.prog
    n = 0
    for fn in sorted(prog.fns.values(), key=lambda f: f.id):
        if fn.crate != "libpatch":
            continue
        sws = pt.discr_switches(fn, lambda e, rv: (rv.get("adt") or "").endswith("patch::PatchDirection"))
        branches = []      # (block of the test, Forward edge, Revert edge)
        for sw in sws:
            fe, re_ = sw["edges"].get("Forward"), sw["edges"].get("Revert")
            if fe and re_:
                branches.append((sw["bb"], fe, re_))
        # the same decision spelled `direction == Forward` / `!= Revert` ...
        for g in guards.find_bool_guards(fn, lambda x: isinstance(x, tuple) and x and x[0] == "call" and x[1].split("::")[-1] in ("eq", "ne") and len(x[2]) == 2):
            pvs = [guards.promoted_value(fn, a) for a in g["expr"][2]]
            pv = [p_ for p_ in pvs if p_ and p_[0] == "enum" and str(p_[1]).endswith("patch::PatchDirection")]
            if not pv:
                continue
            is_fwd = (pv[0][2] == "Forward") == (g["expr"][1].split("::")[-1] == "eq")
            branches.append((g["bb"], g["true_edge"] if is_fwd else g["false_edge"], g["false_edge"] if is_fwd else g["true_edge"]))
        for sw_bb, fe, re_ in branches:
            rf = cfg.dominated_by_edge(fn, fe)
            rr = cfg.dominated_by_edge(fn, re_)

            def members(region):
                names = []
                for b in sorted(region):
                    for s in fn.blocks[b]["stmts"]:
                        if s["k"] != "assign":
                            continue
                        pls = [s["lhs"]]
                        rv = s["rv"]
                        if "pl" in rv:
                            pls.append(rv["pl"])
                        for key in ("op", "a", "b"):
                            if key in rv and isinstance(rv[key], dict) and rv[key].get("k") in ("copy", "move"):
                                pls.append(rv[key]["pl"])
                        for pl in pls:
                            for p in pl.get("p", []):
                                if isinstance(p, dict) and "name" in p:
                                    names.append(p["name"])
                    t = fn.blocks[b]["term"]
                    if t["k"] == "call":
                        c = callee_of(t)
                        names.append((c.get("rpath") or "").split("::")[-1])
                return names
            mf, mr = members(rf), members(rr)
            for a, b in DUAL:
                f_has = {x for x in (a, b) if x in mf}
                r_has = {x for x in (a, b) if x in mr}
                if not f_has and not r_has:
                    continue
                n += 1
                good = len(f_has) == 1 and len(r_has) == 1 and f_has != r_has
                if not good and len(f_has) == 2 and len(r_has) == 2:
                    # both arms build the pair (x, y): mirrored when the members come in opposite order
                    of = [x for x in mf if x in (a, b)]
                    orr = [x for x in mr if x in (a, b)]
                    good = of[0] != orr[0] and of[:2] == list(reversed(orr[:2]))
                ck.require(good, "C16-R5", "duality of %s/%s in %s" % (a, b, fn.id),
                           "the Forward arm uses %s and the Revert arm uses %s: reversed application would not mirror forward application" % (
                               sorted(f_has), sorted(r_has)), fn.where(fn.blocks[sw_bb]["term"]),
                           ok_detail="Forward: %s, Revert: %s" % (sorted(f_has), sorted(r_has)))
    ck.floor("C16-R5", "dual-pair selections on PatchDirection", n, 6)
    # create/delete dispatch is mirrored in apply_internal
    ai = ck.anchor("FilePatch::<'a, &'a [u8]>::apply_internal")
    if ai is not None:
        kind_sw = pt.discr_switches(ai, lambda e, rv: (rv.get("adt") or "").endswith("patch::FilePatchKind"))
        dir_sw = pt.discr_switches(ai, lambda e, rv: (rv.get("adt") or "").endswith("patch::PatchDirection"))
        table = {}
        for ks in kind_sw:
            for kname, kedge in ks["edges"].items():
                for ds in dir_sw:
                    if ds["bb"] not in cfg.reachable(ai, [kedge[1]], blocked={x["bb"] for x in dir_sw if x is not ds}) and ds["bb"] != kedge[1]:
                        continue
                    if ds["bb"] != kedge[1]:
                        continue
                    for dname, dedge in ds["edges"].items():
                        # first local call reached
                        r = cfg.reachable(ai, [dedge[1]])
                        for b in sorted(r):
                            t = ai.blocks[b]["term"]
                            if t["k"] == "call" and (callee_of(t).get("rpath") or "").startswith("libpatch::patch::FilePatch") and b == dedge[1]:
                                table[(kname, dname)] = callee_of(t)["rpath"].split("::")[-1]
        want = {("Create", "Forward"): "apply_create", ("Create", "Revert"): "apply_delete",
                ("Delete", "Forward"): "apply_delete", ("Delete", "Revert"): "apply_create"}
        ck.require(table == want, "C16-R5", "create/delete dispatch mirrored under reversal",
                   "dispatch table of apply_internal is %s" % table, ai.where(), ok_detail=str(table))


def r7(ck):
    """C16-R7: stripping removes one leading component per unit of the entry's level, from both names: every place where a name is
    replaced by the rest of its components is preceded by a loop over 0..level that draws exactly one component per iteration from
    the components of that very name, and no component is drawn elsewhere.  (What Path::components() takes for a component - runs of
    slashes, `.` - is std's business and not decided here.)"""
    prog = ck.prog
    rule = "C16-R7"
    st = ck.anchor("FilePatch::<'a, Line>::strip")
    pp = ck.anchor(A["parse_patch"])
    if st is None or pp is None:
        return
    # parse_patch hands its own level to strip()
    cs = calls_named(pp, "FilePatch::<'a, Line>::strip")
    ck.floor(rule, "strip() calls in parse_patch", len(cs), 1)
    for bb, t, c in cs:
        e = df.operand_expr(pp, t["args"][1])
        ck.require(isinstance(e, tuple) and e[0] == "param" and e[2] == "strip", rule, "file patches are stripped by the level parse_patch was given",
                   "strip() is given %s" % df.show(e, 80), pp.where(t))
    # both names go through the stripping code with that level
    helpers = {}
    names = set()
    for fn in [st] + [f for f in prog.fns.values() if f.id.startswith(st.id + "::") and f.kind != "Closure"]:
        helpers[fn.id] = fn
    sites = []          # (function whose body strips, expression of the level there)
    for bb, t in st.calls():
        rp = callee_of(t).get("rpath") or ""
        if rp in helpers and rp != st.id:
            nm = df.operand_expr(st, t["args"][0])
            lvl = df.operand_expr(st, t["args"][1]) if len(t["args"]) > 1 else None
            for f in ("old_filename", "new_filename"):
                if df.mentions(nm, lambda x: isinstance(x, tuple) and x[0] == "field" and x[2] == f):
                    names.add(f)
            ck.require(isinstance(lvl, tuple) and lvl[0] == "param" and lvl[2] == "strip", rule, "each name is stripped by the level of this entry",
                       "%s is given level %s" % (rp.split("::")[-1], df.show(lvl, 60)), st.where(t))
            sites.append(helpers[rp])
            # ... whenever that name is present: from the Some edge of the test of this name every path to the end passes the call
            for f in ("old_filename", "new_filename"):
                if not df.mentions(nm, lambda x: isinstance(x, tuple) and x[0] == "field" and x[2] == f):
                    continue
                sws = [sw for sw in pt.discr_switches(st, lambda e, rv: True) if isinstance(sw["expr"], tuple) and sw["expr"][0] == "field" and sw["expr"][2] == f
                       and sw["edges"].get("Some")]
                always = bool(sws) and all(not [b for b in cfg.exits(st) if b in cfg.reachable(st, [sw["edges"]["Some"][1]], blocked={bb})] for sw in sws) and \
                    all(cfg.dominates(st, sw["bb"], bb) for sw in sws) and \
                    not [g for g in guards.find_bool_guards(st, lambda e: True) if bb in cfg.dominated_by_edge(st, g["true_edge"]) or bb in cfg.dominated_by_edge(st, g["false_edge"])]
                ck.require(always, rule, "%s is stripped whenever it is present" % f,
                           "the stripping of %s is skipped on some path where the name is there (it depends on more than the name being present)" % f, st.where(t))
    if not sites:
        sites = [st]
        for f in ("old_filename", "new_filename"):
            if df.adt_field_uses(st, "libpatch::patch::FilePatch") and any(nm == f for bb, nm in df.adt_field_uses(st, "libpatch::patch::FilePatch")):
                names.add(f)
    ck.require(names == {"old_filename", "new_filename"}, rule, "both names are stripped", "names reaching the stripping code: %s" % sorted(names), st.where())
    nres = 0
    for fn in {f.id: f for f in sites}.values():
        level_param = [i for i in range(1, fn.arg_count + 1) if fn.local_ty(i) == "usize"]
        comp_next = [(bb, t) for bb, t in fn.calls() if (callee_of(t).get("rpath") or "").endswith("Components<'a> as core::iter::traits::iterator::Iterator>::next")]
        others = [(bb, t) for bb, t in fn.calls() if "std::path::Components" in (callee_of(t).get("rpath") or "") and
                  (callee_of(t).get("rpath") or "").split("::")[-1] in ("next_back", "nth", "skip", "last", "rev", "nth_back")]
        ck.require(not others, rule, "components are only drawn one by one from the front in %s" % fn.id.split("::")[-1],
                   "other ways of consuming the components: %s" % [callee_of(t).get("rpath") for bb, t in others], fn.where())
        loops = pt.iterator_loops(fn)
        for bb, t in fn.calls():
            if not (callee_of(t).get("rpath") or "").endswith("Components::<'a>::as_path"):
                continue
            nres += 1
            comp = df.operand_expr(fn, t["args"][0])
            mine = [(b2, t2) for b2, t2 in comp_next if df.operand_expr(fn, t2["args"][0]) == comp]
            good = False
            detail = "no loop over 0..level draws from these components"
            for il in loops:
                it = df.operand_expr(fn, il["next_term"]["args"][0])
                if isinstance(it, tuple) and it[0] == "local":
                    full = [dd for dd in df.defs_of(fn).all(it[1]) if dd[0] in ("stmt", "call")]
                    if len(full) == 1:
                        it = df.rvalue_expr(fn, full[0][3]["rv"]) if full[0][0] == "stmt" else df.call_expr(fn, full[0][2])
                is_range = isinstance(it, tuple) and it[0] == "agg" and it[1].endswith("ops::range::Range") and it[3][0] == ("const", 0, "usize") and \
                    isinstance(it[3][1], tuple) and it[3][1][0] == "param" and it[3][1][1] in level_param
                inside = [(b2, t2) for b2, t2 in mine if b2 in il["body"]]
                if not is_range or not inside:
                    continue
                every = il["head"] not in cfg.reachable(fn, [il["some_edge"][1]], blocked={b2 for b2, t2 in inside})
                one = len(inside) == 1 and cfg.innermost_loop_of(fn, inside[0][0]) is not None and cfg.innermost_loop_of(fn, inside[0][0])[0] == il["head"]
                outside = [(b2, t2) for b2, t2 in mine if b2 not in il["body"]]
                # the rest is taken once the loop is over: after `level` draws, or earlier only because the name has no component left
                other_exits = [e_ for e_ in il["exit_edges"] if e_ != il["none_edge"] and not fn.blocks[e_[1]]["cleanup"]]
                ran_out = set()
                for g in guards.find_bool_guards(fn, lambda x: df.is_call(x, "Option::<T>::is_none") and df.is_call(x[2][0], "Components<'a> as core::iter::traits::iterator::Iterator>::next")):
                    ran_out.add(g["true_edge"])
                for sw in pt.discr_switches(fn, lambda x, rv: df.is_call(x, "Components<'a> as core::iter::traits::iterator::Iterator>::next")):
                    if sw["edges"].get("None"):
                        ran_out.add(sw["edges"]["None"])
                exits_ok = all(any(e_ == r_ or e_[0] in cfg.dominated_by_edge(fn, r_) for r_ in ran_out) for e_ in other_exits)
                before = cfg.dominates(fn, il["head"], bb) and bb not in il["body"] and bool(il["none_edge"]) and exits_ok
                if every and one and not outside and before:
                    good = True
                    detail = "for _ in 0..level { components.next() } then as_path()"
                else:
                    detail = "loop found, but: every iteration draws=%s, exactly one draw=%s, draws outside the loop=%d, rest taken after the loop=%s" % (every, one, len(outside), before)
            ck.require(good, rule, "the rest of a name is taken after exactly `level` components were drawn (%s)" % fn.id.split("::")[-1],
                       detail, fn.where(t), ok_detail=detail)
    ck.floor(rule, "places where a name is replaced by the rest of its components", nres, 2)


def r6(ck):
    prog, cg = ck.prog, ck.cg
    rs = ck.anchor(A["read_series"])
    if rs is None:
        return
    opts = {}
    for bb, t in rs.calls():
        p = callee_of(t).get("rpath") or ""
        if p.startswith("getopts::Options::opt"):
            short = df.operand_expr(rs, t["args"][1])
            long_ = df.operand_expr(rs, t["args"][2])
            opts[(short[1] if df.is_const(short) else None, long_[1] if df.is_const(long_) else None)] = p.split("::")[-1]
    ck.require(opts.get(("p", "strip")) == "optopt", "C16-R6", "-p/--strip takes an argument", "series option table: %s" % opts, rs.where())
    ck.require(opts.get(("R", "reverse")) == "optflag", "C16-R6", "-R/--reverse is a flag", "series option table: %s" % opts, rs.where())
    # read_series_file itself, its closures, and closures of helpers it absorbed (their `parent` was re-pointed by the inliner)
    def in_family(f):
        cur, hops = f, 0
        while cur is not None and hops < 6:
            if cur.id == rs.id or cur.id.startswith(rs.id + "::{closure"):
                return True
            cur, hops = prog.fns.get(cur.parent) if cur.parent else None, hops + 1
        return False
    closures = [f for f in prog.fns.values() if f.id != rs.id and f.kind == "Closure" and in_family(f)]
    aggs = []
    for f in closures + [rs]:
        for bb, idx, s in f.stmts():
            if s["k"] == "assign" and s["rv"]["k"] == "agg" and s["rv"].get("adt") == SERIES_PATCH:
                aggs.append((f, bb, s))
    ck.floor("C16-R6", "SeriesPatch constructions", len(aggs), 2)
    n_opt = 0
    for f, bb, s in aggs:
        fields = s["rv"]["fields"]
        st = df.operand_expr(f, s["rv"]["ops"][fields.index("strip")])
        rv = df.operand_expr(f, s["rv"]["ops"][fields.index("reverse")])
        if df.is_const(st) or (isinstance(st, tuple) and st[0] == "constitem"):
            ok = (st == ("const", 1, "usize") or (st[0] == "constitem" and str(st[1]).endswith("DEFAULT_PATCH_STRIP"))) and rv == ("const", 0, "bool")
            ck.require(ok, "C16-R6", "defaults without options: -p1, not reversed", "SeriesPatch{strip: %s, reverse: %s}" % (df.show(st), df.show(rv)), f.where(s))
        else:
            n_opt += 1
            s_ok = df.mentions(st, lambda x: df.is_call(x, "getopts::Matches::opt_str")) and \
                df.mentions(st, lambda x: df.is_const(x, "strip", "p"))
            r_ok = df.is_call(rv, "getopts::Matches::opt_present") and df.mentions(rv, lambda x: df.is_const(x, "R", "reverse"))
            ck.require(s_ok and r_ok, "C16-R6", "parsed options reach the entry", "SeriesPatch{strip: %s, reverse: %s}" % (df.show(st, 100), df.show(rv, 100)), f.where(s))
            # an entry with options but without -p still has the default strip level (1, like an entry without options)
            dflt = [x[2][-1] for x in df.walk(st) if isinstance(x, tuple) and x and x[0] == "call" and x[1].split("::")[-1] in ("unwrap_or", "map_or") and len(x[2]) >= 2]
            dflt = [x[2][1] if x[1].split("::")[-1] == "map_or" else x[2][-1] for x in df.walk(st)
                    if isinstance(x, tuple) and x and x[0] == "call" and x[1].split("::")[-1] in ("unwrap_or", "map_or") and len(x[2]) >= 2]
            consts = [d_ for d_ in dflt if df.is_const(d_) or (isinstance(d_, tuple) and d_ and d_[0] == "constitem")]
            if consts:
                ck.require(all((d_[1] == 1) if df.is_const(d_) else True for d_ in consts), "C16-R6", "default strip level of an entry with other options is 1",
                           "an entry that has options but no -p gets strip level %s" % [d_[1] for d_ in consts], f.where(s), ok_detail="unwrap_or(1)")
    ck.floor("C16-R6", "SeriesPatch constructions from parsed options", n_opt, 1)
    # blank / comment lines are skipped before anything else
    top = [f for f in closures + [rs] if calls_named(f, "<impl str>::split_whitespace")]
    if top:
        f = top[0]
        tests = guards.find_bool_guards(f, lambda e: df.is_call(e, "str>::is_empty", "::is_empty") or (df.is_call(e, "::starts_with") and df.mentions(e, lambda x: df.is_const(x, "#") or x == ("const", 35, "char"))))
        kinds = {("empty" if "is_empty" in g["expr"][1] else "comment") for g in tests}
        ck.require(kinds == {"empty", "comment"}, "C16-R6", "blank and comment lines are recognised", "tests found: %s" % kinds, f.where())
        splits = calls_named(f, "<impl str>::split_whitespace")
        for bb, t, c in splits:
            ok = all(bb in cfg.dominated_by_edge(f, g["false_edge"]) for g in tests) and tests
            ck.require(ok, "C16-R6", "comment/blank test precedes option parsing", "the line is split before the comment/blank tests", f.where(t))
        ck.floor("C16-R6", "line splitting sites", len(splits), 1)


POSITION_KEEPING = ("par_iter", "iter", "iter_mut", "into_iter", "into_par_iter", "map", "collect", "next", "enumerate", "zip", "for_each",
                    "try_for_each", "len", "is_empty", "drain", "par_drain", "deref", "index", "as_slice", "as_ref", "clone", "with_capacity",
                    "get", "first", "last", "size_hint", "by_ref", "inspect", "map_err", "cloned", "copied", "to_vec", "borrow", "from_iter")


def r1c_positions_kept(ck, rule="C16-R1c"):
    """The options of a series entry (-R, -pN) and the name of the patch are looked up by the *position* of the patch in the series
    (`config.series_patches[index]`).  The index comes from an `enumerate()`; what is enumerated must still have one element per
    series entry, in series order: on the way from the series to that `enumerate()` (through the vector the loaded patches are
    collected into) only position-keeping operations are applied - no filter / filter_map / skip / take / rev / chain / retain /
    remove / sort ..."""
    prog = ck.prog
    from ..common import A
    n = 0
    for key in ("par", "seq"):
        f = ck.anchor(A[key])
        if f is None:
            continue
        for g in [f] + prog.closures_of(f):
            for bb, t in g.calls():
                p_ = callee_of(t).get("path") or ""
                if g.blocks[bb]["cleanup"] or not p_.endswith("Iterator::enumerate") or not t["argtys"]:
                    continue
                ty = t["argtys"][0]
                if "SeriesPatch" not in ty and "patch::Patch<" not in ty:
                    continue        # numbering something else (hunks, file patches of one patch ...)
                n += 1
                # the spine of what is enumerated: receiver of receiver of ..., through the vector it was collected into
                spine = []
                e = df.operand_expr(g, t["args"][0])
                seen = set()
                for _ in range(24):
                    if isinstance(e, tuple) and e and e[0] == "call" and e[2]:
                        spine.append(e[1])
                        e = e[2][0]
                        continue
                    if isinstance(e, tuple) and e and e[0] in ("ref", "deref") and len(e) > 1:
                        e = e[1]
                        continue
                    if isinstance(e, tuple) and e and e[0] == "local" and e[1] not in seen:
                        seen.add(e[1])
                        ds = [x for x in df.all_def_exprs(g, e[1]) if isinstance(x, tuple) and x and x[0] == "call"]
                        if len(ds) == 1:
                            e = ds[0]
                            continue
                    break
                rooted = df.mentions(e, lambda x: isinstance(x, tuple) and x and x[0] == "field" and x[2] == "series_patches")
                bad = [c for c in spine if c.split("::")[-1] not in POSITION_KEEPING]
                ck.require(rooted and not bad, rule, "what is numbered is the series, element for element (%s)" % g.id.split("::")[-1],
                           ("the sequence that is enumerated was made with %s: the loaded patches may no longer be one per series entry and in "
                            "series order, while -R / -pN and the patch name are looked up by position" % [c.split("::")[-1] for c in bad]) if bad else
                           "the enumerated sequence does not derive from config.series_patches (%s)" % df.show(e, 80), g.where(t),
                           ok_detail="series_patches -> %s -> enumerate" % " -> ".join(c.split("::")[-1] for c in reversed(spine)))
    ck.floor(rule, "enumerations of the series / of the loaded patches in the drivers", n, 2)


def r3c_resolution_table(ck, rule="C16-R3c"):
    """Which name a file patch with two different names is applied to, as a table over what is known about the old name: in memory and
    not deleted -> old; in memory and deleted -> new; not in memory and on disk -> old; not in memory and not on disk -> new.  Decided by
    reachability under each of the four valuations (pathconst): only assignments of the result that mention the expected parameter
    stay reachable."""
    from .. import pathconst
    prog = ck.prog
    ch = ck.anchor("rapidquilt::apply::common::choose_filename_to_patch")
    if ch is None:
        return
    pnames = {ch.local_name(i): i for i in range(1, ch.arg_count + 1)}
    if not ck.require("old_filename" in pnames and "new_filename" in pnames, rule, "choose_filename_to_patch takes the two names",
                      "parameters: %s" % sorted(pnames), ch.where()):
        return
    po, pn = pnames["old_filename"], pnames["new_filename"]
    # the result is a reference handed through re-borrows (`_0 = &*_5; _5 = &*_15` in each arm): follow them to the arms
    def arms(l, seen):
        out = []
        for dd in df.defs_of(ch).all(l):
            if dd[0] != "stmt":
                continue
            rv = dd[3]["rv"]
            src = rv["pl"] if rv["k"] == "ref" else (rv["op"].get("pl") if rv["k"] == "use" and rv["op"].get("k") in ("copy", "move") else None)
            if src is not None and not [p_ for p_ in src.get("p", []) if p_ != "deref"] and src["l"] > ch.arg_count and src["l"] not in seen and \
                    len(df.defs_of(ch).all(src["l"])) > 1:
                out += arms(src["l"], seen | {src["l"]})
            else:
                out.append(dd)
        return out
    defs = arms(0, {0})

    def which(dd):
        rv = dd[3]["rv"]
        e = df.operand_expr(ch, {"k": "copy", "pl": rv["pl"]}) if rv["k"] == "ref" else df.rvalue_expr(ch, rv)
        o = df.mentions(e, lambda x: isinstance(x, tuple) and x and x[0] == "param" and x[1] == po)
        n_ = df.mentions(e, lambda x: isinstance(x, tuple) and x and x[0] == "param" and x[1] == pn)
        return "old" if o and not n_ else "new" if n_ and not o else "?"
    table = [("in memory, not deleted", "Some", False, None, "old"), ("in memory, deleted", "Some", True, None, "new"),
             ("not in memory, on disk", "None", None, True, "old"), ("not in memory, not on disk", "None", None, False, "new")]
    for label, inmem, deleted, ondisk, want in table:
        def atom(e, deleted=deleted, ondisk=ondisk):
            if df.is_call(e, "::eq") and len(e[2]) == 2:
                return False            # the two names differ
            if df.is_call(e, "::ne") and len(e[2]) == 2:
                return True
            if isinstance(e, tuple) and e and e[0] == "field" and e[2] == "deleted" and deleted is not None:
                return deleted
            if (df.is_call(e, "std::path::Path::exists") or df.is_call(e, "std::path::Path::try_exists")) and ondisk is not None:
                return ondisk
            return None

        def variant(e, adt, inmem=inmem):
            if df.is_call(e, "HashMap::<K, V, S, A>::get"):
                return inmem
            if isinstance(e, tuple) and e and e[0] == "param" and e[1] in (po, pn):
                return "Some"           # both names are there
            return None
        reach = pathconst.reach_under(ch, atom, variant, valuation=lambda e_: None, prog=prog)
        got = sorted({which(dd) for dd in defs if dd[1] in reach})
        ck.require(got == [want], rule, "old name %s -> the %s name" % (label, want),
                   "with the old name %s choose_filename_to_patch can return %s: the file a patch lands on would differ from what a later "
                   "invocation (or GNU patch) picks" % (label, "the %s name" % "/".join(got) if got else "nothing"), ch.where(),
                   ok_detail="only the %s name is returned" % want)
