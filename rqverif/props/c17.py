"""C17  inconsistent quilt state or arguments are refused cleanly (DESIGN §4 C17)."""
from .. import callgraph, cfg, dataflow as df, panics, patterns as pt
from ..common import A, calls_named
from ..facts import callee_of
from . import c05, c06, c11
from .c18 import ck_alias

LEVEL = "other"
EXPLANATION = (
    "Decides: (R1) no panic-capable site in the refusal logic (cmd::run, cmd_push, read_series_file and their closures) is left "
    "undischarged — in particular both slices of the series (first_patch..last_patch and 0..applied_patches) are proven in range, "
    "using the drivers' post-condition applied_patches <= len (derived for the sequential driver, AX8 for the parallel one); (R1b) on every "
    "path through the UpTo arm of the goal match the range first_patch..last_patch is provably non-empty where the series is sliced, i.e. "
    "a goal naming an already applied patch cannot get that far; (R2) every "
    "refusal (explicit Err return built in cmd_push) is unreachable from any call that can write the file system, and the two reads of "
    "series / applied-patches have no write effect; (R2b) every call of cmd_push that can write the file system, other than "
    "launching a driver, is unreachable without passing the Ok edge of a driver call, so a refusal coming out of a driver finds "
    ".pc untouched as well; (R3) a patch file that cannot be loaded or parsed cannot leave earlier patches "
    "half-saved: in the sequential driver nothing that writes is followed by another loop iteration, in the parallel driver both worker "
    "phases are dominated by the exhaustion of the loop that propagates the parse errors; (R4) exit status as in C05-R5. Not decided: "
    "wording of the messages; behaviour with an absurdly large but valid series."
)
LEVEL_NOTE = "Undecided: message wording; resource exhaustion with huge series files."


def r2c_log_checked_entry_by_entry(ck, cmd_push):
    """A reordered or edited .pc/applied-patches is only noticed when every one of its entries is compared with the series entry at
    the same position: a walk over both lists in step (zip / enumerate, as a loop or as find / any / all / position / try_for_each)
    whose body compares two path names, or a whole-sequence comparison of the names (starts_with / Iterator::eq)."""
    prog = ck.prog
    rule = "C17-R2c"
    is_path = lambda a: "std::path::PathBuf" in a or "std::path::Path" in a
    def compares_names(fn, blocks):
        for bb, t in fn.calls():
            if bb in blocks and not fn.blocks[bb]["cleanup"] and (callee_of(t).get("rpath") or "").split("::")[-1] in ("eq", "ne") and \
                    len(t["argtys"]) == 2 and all(is_path(a) for a in t["argtys"]):
                return fn.where(t)
        return None
    found = []
    stepwise = lambda ity: "SeriesPatch" in ity and ("Zip<" in ity or "Enumerate<" in ity)
    for il in pt.iterator_loops(cmd_push):
        if stepwise(il["iter_ty"]):
            w = compares_names(cmd_push, set(il["body"]))
            if w:
                found.append("loop over %s" % il["iter_ty"].split("::")[-1][:40] + " @ " + str(w))
    for bb, t in cmd_push.calls():
        if cmd_push.blocks[bb]["cleanup"]:
            continue
        rp = callee_of(t).get("path") or ""
        last = rp.split("::")[-1]
        if last in ("find", "any", "all", "position", "try_for_each", "for_each", "find_map") and len(t["args"]) == 2 and stepwise(t["argtys"][0]):
            e = df.operand_expr(cmd_push, t["args"][1])
            cl = prog.fns.get(e[1]) if isinstance(e, tuple) and e and e[0] == "closure" else None
            if cl is not None and compares_names(cl, set(range(len(cl.blocks)))):
                found.append("%s over both lists in step" % last)
        if last in ("starts_with", "eq", "ne") and len(t["argtys"]) == 2 and all(is_path(a) and ("[" in a or "Iter<" in a or "Map<" in a or "Vec<" in a) for a in t["argtys"]):
            found.append("%s of the two name sequences" % last)
    # ... on every path: the number of applied patches the push starts from is not available without having gone through the walk
    walk_bbs = set()
    for il in pt.iterator_loops(cmd_push):
        if stepwise(il["iter_ty"]) and compares_names(cmd_push, set(il["body"])):
            walk_bbs.add(il["head"])
    for bb, t in cmd_push.calls():
        last = (callee_of(t).get("path") or "").split("::")[-1]
        if not cmd_push.blocks[bb]["cleanup"] and last in ("find", "any", "all", "position", "try_for_each", "for_each", "find_map", "starts_with", "eq", "ne") and \
                t["argtys"] and (stepwise(t["argtys"][0]) or (last in ("starts_with", "eq", "ne") and all(is_path(a) for a in t["argtys"]))):
            walk_bbs.add(bb)
    reads = [bb for bb, t, c in calls_named(cmd_push, A["read_series"]) if df.mentions(df.operand_expr(cmd_push, t["args"][0]), lambda x: df.is_const(x) and isinstance(x[1], str) and "applied-patches" in x[1])]
    slices = [bb for bb, t in cmd_push.calls() if (callee_of(t).get("rpath") or "").endswith("::index") and t["argtys"] and "SeriesPatch" in t["argtys"][0] and
              len(t["argtys"]) > 1 and "Range<usize>" in t["argtys"][1]]
    if found and walk_bbs and reads and slices:
        from .. import pathconst
        # the log was read successfully (Ok edge) and has at least one entry: can the slice be reached round the walk?
        ok_edges = []
        for sw in pt.discr_switches(cmd_push, lambda e_, rv: df.mentions(e_, lambda x: df.is_call(x, "read_series_file")) and
                                    df.mentions(e_, lambda x: df.is_const(x) and isinstance(x[1], str) and "applied-patches" in x[1])):
            if sw["edges"].get("Ok") and not cmd_push.blocks[sw["bb"]]["cleanup"]:
                ok_edges.append(sw["edges"]["Ok"])
        round_it = False
        # drop elaboration tests the same discriminant again after the walk: only the test the walk hangs on counts
        ok_edges = [e_ for e_ in ok_edges if cfg.reachable(cmd_push, [e_[1]]) & walk_bbs]
        for e_ in ok_edges:
            r = cfg.reachable(cmd_push, [e_[1]], blocked=walk_bbs)
            if any(sb in r for sb in slices):
                round_it = True
        if ok_edges and round_it:
            found = []
            ck.violate(rule, "the walk over series and log is on every path from reading the log to pushing",
                       "after .pc/applied-patches was read, the range of patches to push can be reached without the entry-by-entry comparison "
                       "(a shortcut decides that the log is fine): an edited log can slip through", cmd_push.where(cmd_push.blocks[slices[0]]["term"]))
            return
    ck.require(bool(found), rule, "every entry of .pc/applied-patches is compared with the series entry at its position",
               "cmd_push has no walk over the series and the log in step that compares the names (nor a whole-sequence comparison): a "
               "reordered or edited .pc/applied-patches would be accepted and patches pushed on top of an unknown tree", cmd_push.where(),
               ok_detail="; ".join(found))


def run(ck):
    prog, cg = ck.prog, ck.cg
    cmd_push, run_fn, rs = ck.anchor(A["cmd_push"]), ck.anchor(A["run"]), ck.anchor(A["read_series"])
    seq, par, main = ck.anchor(A["seq"]), ck.anchor(A["par"]), ck.anchor(A["main"])
    if None in (cmd_push, run_fn, rs, seq, par, main):
        return
    # ---- R1 ------------------------------------------------------------------------------------------
    own = {cmd_push.id, run_fn.id, rs.id}
    for f in list(prog.fns):
        if any(f.startswith(o + "::{closure") for o in own):
            own.add(f)
    # summaries of what they call are needed: analyse the drivers and cheap helpers along with them
    scope = set(own) | {seq.id, par.id} | {f for f in cg.closure([rs.id])}
    for s in cg.out[cmd_push.id]:
        if s.callee in prog.fns and s.callee.startswith(cmd_push.id):
            scope.add(s.callee)
    obl, an = panics.analyse_scope(prog, cg, scope, libcalls=True)
    # println!/eprintln! failing on a closed stream is presentation, not refusal logic
    obl = [o for o in obl if getattr(o, "libclass", None) != "print"]
    n = 0
    for o in obl:
        if o.fn.id not in own or o.kind == "alloc":
            continue
        n += 1
        inst = "%s in %s: %s" % (o.kind, o.fn.id, c11.describe(o))
        if o.ok:
            ck.ok("C17-R1", inst, o.detail, o.fn.where(o.term))
        else:
            ck.violate("C17-R1", inst, "the refusal logic can crash instead of refusing: %s" % o.detail, o.fn.where(o.term))
    ck.count("panic-capable sites in the refusal logic", n)
    ck.floor("C17-R1", "panic-capable sites in the refusal logic", n, 3)
    for ax, fid in getattr(an, "assumed", []):
        ck.info("C17-R1", "assumed summary %s for %s" % (ax, fid), panics.AXIOMS[ax])

    # ---- R1b: a goal naming an already applied patch never reaches the slice ------------------------------------------
    # Engine D restricted to the paths through the UpTo arm of `match goal`: where series_patches[first..last] is taken, the
    # range is provably non-empty.  With last = index + 1 (C09-R2) that is exactly index >= first: an applied goal was refused.
    sws = pt.discr_switches(cmd_push, lambda e, rv: (rv.get("adt") or "").endswith("PushGoal"))
    if ck.require(bool(sws) and all("UpTo" in sw["edges"] for sw in sws), "C17-R1b", "cmd_push matches on the goal",
                  "no match on PushGoal with an UpTo arm in cmd_push", cmd_push.where()):
        blocked = set()
        for sw in sws:
            for name, e in sw["edges"].items():
                if name != "UpTo":
                    blocked.add(e)
            if sw["otherwise"] != sw["edges"]["UpTo"]:
                blocked.add(sw["otherwise"])
        _, _, obl2 = an.analyze(cmd_push, blocked_edges=blocked)
        sl = [o for o in obl2 if o.kind == "index" and o.what.startswith("index Range<") and "SeriesPatch" in (o.term["argtys"][0] or "") and
              getattr(o, "start_const", None) is None]     # series[0..applied] (what gets recorded) is a different slice
        if ck.require(len(sl) == 1, "C17-R1b", "one first..last slice of the series in cmd_push", "%d Range slices of the series found" % len(sl),
                      cmd_push.where()):
            o = sl[0]
            inst = "goal already applied is refused before series_patches[first..last]"
            if not o.reached:
                ck.violate("C17-R1b", inst, "on the paths through the UpTo arm the slice is not reached at all (rule would be vacuous)", cmd_push.where(o.term))
            elif o.nonempty:
                ck.ok("C17-R1b", inst, "on every path through the UpTo arm: first_patch + 1 <= last_patch at the slice (%s)" % o.relation,
                      cmd_push.where(o.term))
            else:
                ck.violate("C17-R1b", inst, "on a path through the UpTo arm the range can be empty or reversed (%s): a goal that names an already "
                           "applied patch is not refused" % o.relation, cmd_push.where(o.term))

    # ---- R2 ------------------------------------------------------------------------------------------
    writers = cg.functions_with_effect(callgraph.fs_write_kind)
    eff_sites = [s for s in cg.out[cmd_push.id] if s.term is not None and s.callee in writers]
    ck.floor("C17-R2", "effectful call sites in cmd_push", len(eff_sites), 3)
    refusals = []
    for bb, idx, s in cmd_push.stmts():
        # a refusal is an Err(<message>) built in cmd_push - returned on the spot, or (inside a helper that was inlined) handed to `?`
        if s["k"] == "assign" and "p" not in s["lhs"] and s["rv"]["k"] == "agg" and s["rv"].get("variant") == "Err" and \
                (s["rv"].get("adt") or "").endswith("result::Result") and not cmd_push.blocks[bb]["cleanup"]:
            e = df.operand_expr(cmd_push, s["rv"]["ops"][0])
            if df.mentions(e, lambda x: df.is_call(x, "failure::error_message::err_msg")):
                refusals.append((bb, s))
    ck.floor("C17-R2", "explicit refusals in cmd_push", len(refusals), 5)
    after_effect = set()
    for s in eff_sites:
        after_effect |= cfg.reachable_from_after(cmd_push, s.bb)
    for bb, s in refusals:
        e = df.operand_expr(cmd_push, s["rv"]["ops"][0])
        texts = [x[1] for x in df.walk(e) if df.is_const(x) and isinstance(x[1], str) and len(x[1]) > 3]
        label = (texts[0] if texts else "refusal").strip().replace("\n", " ")[:50]
        ck.require(bb not in after_effect, "C17-R2", "refusal %r precedes every effect" % label,
                   "this refusal is reachable after a call that can write the file system", cmd_push.where(s))
    for bb, t, c in calls_named(cmd_push, A["read_series"]):
        ck.require(rs.id not in writers, "C17-R2", "reading series / applied-patches has no write effect",
                   "read_series_file can reach a file-system write", cmd_push.where(t))
    # the prefix comparison: mismatch and 'longer than series' are both refusals (the latter is the guard the slice proof needs)
    r2c_log_checked_entry_by_entry(ck, cmd_push)
    # ---- R3 ------------------------------------------------------------------------------------------
    loops = [il for il in pt.iterator_loops(seq) if "SeriesPatch" in il["iter_ty"]]
    if ck.require(len(loops) == 1, "C17-R3", "one per-patch loop in the sequential driver", "%d loops over the series" % len(loops), seq.where()):
        il = loops[0]
        wsites = [s for s in cg.out[seq.id] if s.term is not None and s.callee in writers]
        inside = [s for s in wsites if s.bb in il["body"]]
        for s in inside:
            r = cfg.reachable_from_after(seq, s.bb)
            ck.require(il["head"] not in r, "C17-R3", "no further patch is loaded after %s wrote" % s.callee.split("::")[-1],
                       "after a writing call the per-patch loop continues: a later unparseable patch would abort with earlier output on disk",
                       s.where())
        outside = [s for s in wsites if s.bb not in il["body"]]
        for s in outside:
            ck.require(cfg.dominates(seq, il["head"], s.bb) and il["head"] not in cfg.reachable_from_after(seq, s.bb), "C17-R3",
                       "%s runs after the loop" % s.callee.split("::")[-1], "a writing call precedes or interleaves the per-patch loop", s.where())
        ck.floor("C17-R3", "writing call sites in the sequential driver", len(wsites), 4)
    launches = c06.rayon_launches(ck, par)
    wl = [x for x in launches if any(f in writers for f in cg.closure([x[1].id]))] + \
        [x for x in launches if prog.one(A["apply_worker"]).id in cg.closure([x[1].id])]
    ploops = []
    for il in pt.iterator_loops(par):
        ctx = [bb for bb in il["body"] if par.blocks[bb]["term"]["k"] == "call" and
               "with_context" in (callee_of(par.blocks[bb]["term"]).get("rpath") or "")]
        if ctx:
            ploops.append(il)
    # a patch file that cannot be loaded or parsed is an error of the push: the Result goes on towards the caller, it is not replaced by a
    # default (`unwrap_or_default()`: a missing patch would count as an empty one and be recorded as applied)
    from .. import errflow
    nload = 0
    for f_ in [par, seq] + prog.closures_of(par) + prog.closures_of(seq):
        for bb, t in f_.calls():
            rp_ = callee_of(t).get("path") or ""
            if f_.blocks[bb]["cleanup"] or "p" in t["dest"] or not (rp_.endswith("Arena::load_file") or rp_.endswith("::parse_patch")):
                continue
            nload += 1
            fa = errflow.fate_of(f_, t["dest"]["l"])
            ck.require(fa.returned and not fa.dropped and not fa.discarded, "C17-R3", "the result of %s in %s is handed on" % (rp_.split("::")[-1], f_.id.split("::")[-1]),
                       "the Result of %s does not reach the return value of %s (%r): a patch file that is missing or unparseable would be passed "
                       "over" % (rp_.split("::")[-1], f_.id.split("::")[-1], fa), f_.where(t), ok_detail=repr(fa))
    ck.floor("C17-R3", "loads / parses of patch files in the drivers", nload, 3)
    if ck.require(len(ploops) >= 1, "C17-R3", "the parallel driver propagates parse errors in a loop", "no loop with `?` on the parse results", par.where()):
        for site, cl, agg in wl:
            ok = any(il["none_edge"] and site.bb in cfg.dominated_by_edge(par, il["none_edge"]) for il in ploops)
            ck.require(ok, "C17-R3", "worker phase %s starts after all parse results were checked" % cl.id.split("::")[-1],
                       "a worker phase can start before every patch was parsed successfully", site.where())
    # ---- R2b: cmd_push itself writes nothing before a driver returned Ok (a driver's refusal - missing / unparseable patch -
    #      must find the tree untouched, .pc included) --------------------------------------------------------------------------------
    c05.r1(ck_alias(ck, "C17-R2b"), cmd_push, seq, par)
    # ---- R4 ------------------------------------------------------------------------------------------
    c05.r5(ck_alias(ck, "C17-R4"), main, cmd_push, seq, par)
