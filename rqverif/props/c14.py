"""C14  --mmap, verbosity, colour, statistics and analyses never change the result (DESIGN §4 C14)."""
from .. import callgraph, cfg, dataflow as df, guards, noninterf, patterns as pt
from ..common import A, calls_named
from ..facts import callee_of
from .c09 import effect_tables

LEVEL = "other"
EXPLANATION = (
    "Decides per option: verbosity/--stats — every branch on a Verbosity value, on ApplyConfig.stats or on the print-once "
    "flags of SharedState guards a print-only region (re-joins, assigns nothing live afterwards, no return value, no "
    "file-system/exit effect, no path to the aborting rollback API, &mut only to output buffers); --mmap — both Arena "
    "loaders return the unmodified io::Error of the failing system call (callers branch on ErrorKind::NotFound) and the "
    "mmap length is proven non-zero at the call; -A — the Analysis hooks receive shared references to types without "
    "interior mutability, their results are ignored and the note callback only prints, and (R7) the functions that only run "
    "under -A (closure of the hooks minus what a plain push reaches) have every index, slice, unwrap, explicit panic and library "
    "call with a documented panic discharged by the range engine - for the searcher this uses three-variable sum facts and the "
    "struct invariant position <= haystack.len(), itself proven inductive and unwritable from outside; (R9) the hunk position of an analysis note, with which its printer indexes the hunks, is the bare counter of an enumerate() over the hunks of the file patch the note is reported with; --color — the option value flows only "
    "into comparisons and the regions they guard call nothing but the colour switch. Not decided: that the "
    "failure diagnostics (closest-match printer, dijkstra hints) cannot panic on some file content; arithmetic overflow in -A-only "
    "closures that no index depends on."
)
LEVEL_NOTE = "Undecided: panics inside print-only code whose safety rests on data invariants (closest-match printer, searcher)."

ERR_MANGLERS = ("::map_err", "::or_else", "io::error::Error::new", "io::error::Error::other", "io::error::Error::from",
                "::unwrap_or_else", "io::error::Error::from_raw_os_error")
IO_SOURCES = ("std::fs::", "std::io::", "std::os::")


def run(ck):
    prog, cg = ck.prog, ck.cg
    bad, abort_reach = effect_tables(ck)
    # ---- verbosity / stats ----------------------------------------------------------------------------
    nb = 0
    nf = 0
    for fn in sorted(prog.fns.values(), key=lambda f: f.id):
        br, fi = noninterf.analyse_function(prog, cg, fn, bad, abort_reach)
        nb += len(br)
        for f in fi:
            nf += 1
            ck.violate("C14-G", f.key(), f.detail, f.fn.where(f.term) if f.term else f.fn.where())
        if not fi:
            for b in br:
                ck.ok("C14-G", "branch on %s at bb%d in %s" % (b[1], b[0], fn.id), "region of %d blocks is print-only and re-joins" % b[2],
                      fn.where(fn.blocks[b[0]]["term"]))
    ck.count("presentation branches (verbosity / stats / print-once flags)", nb)
    ck.floor("C14-G", "presentation branches", nb, 22)
    # Verbosity values are only compared, printed or stored
    check_verbosity_uses(ck)

    # ---- --mmap ------------------------------------------------------------------------------------------
    loaders = [f for f in prog.fns.values() if f.trait_item == "rapidquilt::arena::Arena::load_file"]
    ck.floor("C14-A", "Arena::load_file implementations", len(loaders), 2)
    for fn in loaders:
        check_loader_errors(ck, fn)
    check_mmap_len(ck)
    # the only failure of a load that is given a meaning of its own is NotFound: both loaders fail in open() then, with the same
    # error; what fails later (reading a directory: EISDIR from read(), ENODEV from mmap()) differs between the loaders
    from ..common import error_kinds_tested
    nk = 0
    for fn in sorted(prog.fns.values(), key=lambda f: f.id):
        if fn.crate != "rapidquilt":
            continue
        kinds = error_kinds_tested(fn, lambda x: df.is_call(x, "Arena::load_file"))
        for kind, bb in kinds:
            nk += 1
            ck.require(kind == "NotFound", "C14-A", "a failed load is only told apart as `not found` (%s)" % fn.id.split("::")[-1],
                       "%s gives ErrorKind::%s of a failed load a meaning of its own: the two loaders do not fail alike beyond open() (a directory "
                       "gives EISDIR from read() but ENODEV from mmap()), so the outcome would depend on --mmap" % (fn.id, kind),
                       fn.where(fn.blocks[bb]["term"]), ok_detail="NotFound only")
    ck.floor("C14-A", "tests of the error kind of a failed load", nk, 1)

    # ---- -A multiapply --------------------------------------------------------------------------------------
    check_analysis_hooks(ck, bad, abort_reach)

    check_analysis_cannot_crash(ck)
    check_note_positions(ck)
    # ---- --color ------------------------------------------------------------------------------------------------
    check_color(ck, bad)


def check_verbosity_uses(ck):
    """A Verbosity value may be compared, copied, stored in ApplyConfig or passed on; it must not be converted to a number."""
    prog = ck.prog
    n = 0
    for fn in prog.fns.values():
        if fn.crate != "rapidquilt":
            continue
        for bb, idx, s in fn.stmts():
            if s["k"] != "assign":
                continue
            rv = s["rv"]
            if rv["k"] == "cast" and rv.get("from", "") == noninterf.VERBOSITY:
                ck.violate("C14-G", "Verbosity cast in %s" % fn.id, "a Verbosity value is cast to %s: it may flow into a computation" % rv["ty"], fn.where(s))
            if rv["k"] == "discr" and rv.get("adt") == noninterf.VERBOSITY:
                n += 1
    ck.count("discriminant reads of Verbosity (derive(PartialOrd) internals)", n)


def check_loader_errors(ck, fn):
    rule = "C14-A"
    nerr = 0
    for bb, t in fn.calls():
        if t["dest"]["l"] == 0 and "p" not in t["dest"] and (callee_of(t).get("path") or "").endswith("from_residual"):
            nerr += 1
            locs = df.operand_trace(fn, t["args"][0])
            calls = []
            for l in locs:
                for dd in df.defs_of(fn).all(l):
                    if dd[0] == "call":
                        calls.append(callee_of(dd[2]).get("rpath") or "")
            mangled = [c for c in calls if any(c.endswith(m) or m in c for m in ERR_MANGLERS)]
            srcs = [c for c in calls if c.startswith(IO_SOURCES) and not c.endswith("Try::branch")]
            ck.require(not mangled and bool(srcs), rule, "`?` error in %s" % fn.id,
                       "the error returned by the loader is not the unmodified io::Error of the failing call (via %s)" % (mangled or calls),
                       fn.where(t), ok_detail="error of %s propagated unchanged" % sorted(set(srcs)))
    for bb, idx, s in fn.stmts():
        if s["k"] == "assign" and s["lhs"]["l"] == 0 and "p" not in s["lhs"] and s["rv"]["k"] == "agg" and s["rv"].get("variant") == "Err":
            nerr += 1
            e = df.operand_expr(fn, s["rv"]["ops"][0])
            good = df.is_call(e, "std::io::error::Error::last_os_error")
            ck.require(good, rule, "explicit Err in %s" % fn.id,
                       "the loader returns Err(%s): callers distinguish 'file absent' by ErrorKind::NotFound of the OS error" % df.show(e, 100),
                       fn.where(s), ok_detail="Err(last_os_error())")
    ck.floor(rule, "error returns in %s" % (fn.impl_adt or fn.id), nerr, 1)


def check_mmap_len(ck):
    prog = ck.prog
    rule = "C14-A"
    for fn in prog.fns.values():
        for bb, t in fn.calls():
            p = callee_of(t).get("rpath") or ""
            if not (p.startswith("libc::") and p.endswith("::mmap")):
                continue
            ln = df.operand_expr(fn, t["args"][1])
            # a dominating test `len == 0` / `len != 0` whose non-zero edge dominates the call
            ok = False
            for gbb, gt in fn.terms():
                if gt["k"] != "switch" or gt["dty"] != "bool":
                    continue
                e, neg = guards.switch_cond(fn, gbb)
                if not (isinstance(e, tuple) and e[0] == "bin" and e[1] in ("Eq", "Ne", "Gt", "Lt")):
                    continue
                a, b = e[2], e[3]
                zero = ("const", 0, "usize")
                if e[1] in ("Eq", "Ne") and ((a == ln and b == zero) or (b == ln and a == zero)):
                    nonzero_when_true = (e[1] == "Ne")
                elif e[1] == "Gt" and a == ln and b == zero:
                    nonzero_when_true = True
                elif e[1] == "Lt" and b == ln and a == zero:
                    nonzero_when_true = True
                else:
                    continue
                f, tr = guards.bool_edges(fn, gbb)
                if neg:
                    f, tr = tr, f
                edge = (gbb, tr) if nonzero_when_true else (gbb, f)
                if bb in cfg.dominated_by_edge(fn, edge):
                    ok = True
            ck.require(ok, rule, "mmap length non-zero in %s" % fn.id,
                       "libc::mmap is called with length %s which is not proven non-zero: mmap(2) fails with EINVAL on an empty file "
                       "that the default loader reads fine" % df.show(ln, 80), fn.where(t),
                       ok_detail="dominated by the non-zero edge of a test of %s" % df.show(ln, 60))


def check_analysis_hooks(ck, bad, abort_reach):
    prog, cg = ck.prog, ck.cg
    rule = "C14-H"
    hooks = [f for f in prog.fns.values() if (f.trait_item or "").startswith("libpatch::analysis::Analysis::") or
             (f.trait_default == "libpatch::analysis::Analysis")]
    ck.floor(rule, "Analysis hook implementations", len(hooks), 4)
    for fn in hooks:
        tys = [fn.local_ty(i) for i in range(1, fn.arg_count + 1)]
        muts = [t for t in tys if t.startswith("&mut ") or t.startswith("*mut ")]
        ck.require(not muts, rule, "hook signature %s" % fn.id, "an analysis hook receives mutable access: %s" % muts, fn.where(),
                   ok_detail="all %d parameters are shared references / Copy values" % len(tys))
    # no interior mutability in what the hooks can see
    for adt in ("libpatch::modified_file::ModifiedFile", "libpatch::patch::FilePatch", "libpatch::patch::FilePatchApplyReport",
                "libpatch::patch::Hunk", "libpatch::patch::HunkPart", "libpatch::patch::HunkApplyReport"):
        a = prog.adts.get(adt)
        if a is None:
            ck.violate(rule, "anchor:" + adt, "reason=anchor type %s not found" % adt)
            continue
        badf = []
        for v in a["variants"]:
            for f in v["fields"]:
                if any(x in f["ty"] for x in ("Cell<", "RefCell<", "Mutex<", "RwLock<", "atomic::", "UnsafeCell<", "*mut ")):
                    badf.append("%s: %s" % (f["name"], f["ty"]))
        ck.require(not badf, rule, "no interior mutability in %s" % adt, "fields with interior mutability: %s" % badf)
    # apply_modify passes shared references and ignores the (unit) result
    am = ck.anchor("FilePatch::<'a, &'a [u8]>::apply_modify")
    if am is not None:
        hc = [(bb, t) for bb, t in am.calls() if (callee_of(t).get("path") or "").startswith("libpatch::analysis::Analysis::")]
        ck.floor(rule, "hook invocations in apply_modify", len(hc), 2)
        for bb, t in hc:
            muts = [a for a in t["argtys"] if a.startswith("&mut ")]
            ck.require(not muts and t["dty"] == "()", rule, "hook call in apply_modify",
                       "hook invoked with %s returning %s" % (muts, t["dty"]), am.where(t), ok_detail="shared refs only, unit result")
    # the engine never looks inside the analysis set: outside the analysis module nothing reads a field of AnalysisSet (an accessor
    # extracted into a helper is inlined into its caller by inline.py and shows up here) and no call that is given the set, or a
    # trait object of it, returns anything but ()
    ASET = "libpatch::analysis::AnalysisSet"
    nset = 0
    for fn in sorted(prog.fns.values(), key=lambda f: f.id):
        own = fn.id.startswith("libpatch::analysis::") or fn.id.startswith("<libpatch::analysis::") or " as libpatch::analysis::" in fn.id
        if own:
            continue
        def projs(x):
            if isinstance(x, list):
                for v in x:
                    yield from projs(v)
            elif isinstance(x, dict):
                if x.get("adt") == ASET and "name" in x:
                    yield x
                for v in x.values():
                    if isinstance(v, (list, dict)):
                        yield from projs(v)
        for bb, b in enumerate(fn.blocks):
            if b["cleanup"]:
                continue
            for pr in projs([b["stmts"], b["term"]]):
                ck.violate(rule, "the analysis set is opaque outside libpatch::analysis",
                           "%s reads AnalysisSet.%s: what a push does would depend on the analyses registered with -A" % (fn.id, pr["name"]),
                           fn.where(b["term"]))
        for bb, t in fn.calls():
            if fn.blocks[bb]["cleanup"]:
                continue
            tys = [a for a in t["argtys"] if ASET in a or "dyn libpatch::analysis::Analysis" in a]
            if not tys:
                continue
            rp = callee_of(t).get("rpath") or ""
            if rp.startswith("core::ptr::drop_in_place") or rp.startswith("core::mem::drop"):
                continue
            in_module = "libpatch::analysis::" in rp.split(" as ")[0] or rp.startswith("libpatch::analysis::") or " as libpatch::analysis::" in rp
            if rp in prog.fns and not in_module:
                continue       # handed on to a function that is examined here itself
            nset += 1
            registering = any(a.startswith("&mut ") for a in tys) and t["dty"] == "()"
            ck.require(t["dty"] == "()" or t["dty"] == "!", rule, "call given the analysis set returns nothing: %s in %s" % (rp.split("::")[-1], fn.id.split("::")[-1]),
                       "%s returns %s from a call that is given the analysis set: the engine could branch on it" % (rp, t["dty"]), fn.where(t),
                       ok_detail="unit result" + (" (registration)" if registering else ""))
    ck.floor(rule, "calls outside the analysis module that are given the analysis set", nset, 3)
    # the note callbacks handed to apply() only print
    n = 0
    for fn in prog.fns.values():
        if fn.kind != "Closure" or fn.crate != "rapidquilt":
            continue
        tys = [fn.local_ty(i) for i in range(1, fn.arg_count + 1)]
        if not any("dyn libpatch::analysis::Note" in t for t in tys):
            continue
        n += 1
        reach = cg.closure([fn.id])
        eff = sorted({bad[f] for f in reach if f in bad})
        ab = sorted(f for f in reach if f in abort_reach and f in ck.prog.fns and f != fn.id)
        ab = [f for f in ab if f in abort_reach and any(s.callee in abort_reach for s in cg.out.get(f, []))]
        ck.require(not eff and not ab, rule, "note callback %s" % fn.id,
                   "the analysis note callback can %s / reaches %s" % (eff, ab), fn.where(), ok_detail="prints only (no FS/exit/abort effect reachable)")
    ck.floor(rule, "analysis note callbacks", n, 2)


def check_analysis_cannot_crash(ck):
    """C14-R7: code that only runs under -A (the closure of the Analysis hooks minus everything the plain push reaches anyway)
    has no undischarged index / bounds / unwrap / explicit-panic / library-panic site, and the struct invariants its proofs use are
    inductive and not writable from outside."""
    from .. import panics
    from . import c11
    prog, cg = ck.prog, ck.cg
    rule = "C14-R7"
    main = ck.anchor(A["main"])
    hooks = sorted(f for f, fn in prog.fns.items() if fn.kind != "Closure" and
                   (f.endswith("Analysis>::before_modifications") or f.endswith("Analysis>::after_modifications")))
    if main is None or not ck.require(len(hooks) >= 2, rule, "Analysis hook implementations found", "%d hooks" % len(hooks)):
        return
    hookset = set(hooks)
    scope = cg.closure(hooks)
    plain = cg.closure([main.id], skip_site=lambda s: s.callee in hookset)
    exclusive = scope - plain
    ck.count("functions only reachable through an analysis hook", len(exclusive))
    ck.floor(rule, "functions only reachable through an analysis hook", len(exclusive), 4)
    obl, an = panics.analyse_scope(prog, cg, scope, libcalls=True)
    hard = ("index", "bounds", "unwrap", "panic", "split_at", "map-index", "invariant", "libcall", "div", "alloc")
    per_fn = {}
    n = 0
    for o in obl:
        if o.fn.id not in exclusive or getattr(o, "libclass", None) == "print":
            continue
        kind = o.kind if o.kind in hard else "arith"
        per_fn.setdefault(o.fn.id, []).append((kind, o))
    for fid in sorted(per_fn):
        items = per_fn[fid]
        has_hard = any(k != "arith" for k, o in items)
        for kind, o in items:
            inst = "%s in %s: %s" % (o.kind, fid.split("::")[-3:] and "::".join(fid.split("::")[-2:]), c11.describe(o) if o.term.get("k") in ("call", "assert") else o.what)
            where = o.fn.where(o.term) if o.term.get("k") in ("call", "assert", "return") else o.fn.where()
            if kind != "arith":
                n += 1
                ck.require(bool(o.ok), rule, inst, "code that only runs under -A can crash here: %s" % o.detail, where, ok_detail=o.detail)
            elif o.ok:
                ck.ok(rule, inst, o.detail, where)
            elif has_hard:
                # the bounds proofs of this function treat its arithmetic as exact: an overflow that is not excluded undermines them
                ck.violate(rule, inst, "arithmetic in a function whose index proofs rely on it is not shown free of overflow: %s" % o.detail, where)
            else:
                ck.info(rule, inst, "overflow not decided (no index or slice depends on it; wraps in the release profile): %s" % o.detail)
    ck.floor(rule, "index / bounds / invariant / library sites in -A-only code", n, 4)
    # the invariants are only as good as their encapsulation: nobody outside the type's own methods writes the fields they mention
    for adt, invs in panics.STRUCT_INVARIANTS.items():
        if adt not in prog.adts:
            ck.violate(rule, "invariant anchor %s" % adt, "struct %s not found (anchor lost)" % adt)
            continue
        fields = {f for inv in invs for f in (inv[1], inv[3])}
        for fn in prog.fns.values():
            own = fn.id.startswith(adt + "::<") or ("<" + adt) in fn.id.split(" as ")[0]
            if own:
                continue
            for bb, idx, s in fn.stmts():
                if s["k"] != "assign":
                    continue
                pls = [s["lhs"]] if "p" in s["lhs"] else []
                if s["rv"]["k"] in ("ref", "rawptr") and s["rv"].get("mut"):
                    pls.append(s["rv"]["pl"])
                for pl in pls:
                    for pr in pl.get("p", []):
                        if isinstance(pr, dict) and pr.get("adt") == adt and pr.get("name") in fields:
                            ck.violate(rule, "only %s's methods write .%s" % (adt.split("::")[-1], pr["name"]),
                                       "%s writes a field the invariant of %s speaks about" % (fn.id, adt), fn.where(s))
        ck.ok(rule, "fields of %s's invariant are written by its own methods only" % adt.split("::")[-1],
              "invariant %s" % ["%s <= %s%+d" % (i[1], ("len(" + i[3] + ")") if i[2] == "#" else i[3], i[4]) for i in invs])


NOTE_AFTER_OK = ("into_iter", "filter", "skip", "take", "rev", "skip_while", "take_while", "peekable", "by_ref", "step_by", "fuse", "inspect")
NOTE_SPINE_OK = ("iter", "zip", "into_iter", "enumerate", "by_ref", "deref", "as_ref", "as_slice", "hunks", "borrow")


def check_note_positions(ck, rule="C14-R9"):
    """The note of an analysis names a hunk by position and the printer of the note indexes the file patch's hunks with it.  That index
    is in range because (a) every `Note::hunk` hands out the stored field as it is, (b) every note is built with the counter of an
    `enumerate()` over `file_patch.hunks()` (through iter / zip only: never more elements than hunks, nothing skipped before), with no
    arithmetic on it, and (c) the note is reported together with that same file patch.  A position outside the hunks would crash a
    run under -A that succeeds without it."""
    prog = ck.prog
    impls = sorted(f for f in prog.fns if f.endswith(" as libpatch::analysis::Note>::hunk"))
    if not ck.require(len(impls) >= 1, rule, "Note::hunk implementations found", "no implementation of Note::hunk (anchor lost)"):
        return
    # consumers
    nc = 0
    for fn in sorted(prog.fns.values(), key=lambda f: f.id):
        for bb, t in fn.terms():
            if t["k"] != "assert" or "BoundsCheck" not in str(t.get("msg")) or not isinstance(t.get("cond"), dict):
                continue
            e = df.operand_expr(fn, t["cond"])
            if not df.mentions(e, lambda x: df.is_call(x, "analysis::Note::hunk")):
                continue
            nc += 1
            ok = isinstance(e, tuple) and e[0] == "bin" and e[1] == "Lt" if isinstance(e, tuple) and len(e) > 3 else False
            idx, ln = (e[2], e[3]) if ok else (None, None)
            plain = ok and isinstance(idx, tuple) and not df.mentions(idx, lambda x: isinstance(x, tuple) and x and x[0] in ("bin", "chk")) \
                and df.mentions(ln, lambda x: df.is_call(x, "FilePatch::<'a, Line>::hunks"))
            ck.require(plain, rule, "the note's position indexes the hunks of the file patch it came with (%s)" % fn.id.split("::")[-1],
                       "the position of a note is used as an index here in a form the rule does not know: %s" % df.show(e, 120), fn.where(t),
                       ok_detail=df.show(e, 110))
    ck.floor(rule, "places indexing with a note's hunk position", nc, 1)
    # (a) the accessors
    fields = {}
    for fid in impls:
        f = prog.fns[fid]
        adt = fid.split(" as ")[0].lstrip("<")
        rets = [df.show(x, 80) for x in df.all_def_exprs(f, 0)]
        fl = set()
        good = True
        for x in df.all_def_exprs(f, 0):
            if isinstance(x, tuple) and x and x[0] == "agg":
                txt = df.show(x, 120)
                flds = df.fields_in(x)
                if "None" in txt and not flds:
                    continue
                if df.mentions(x, lambda y: isinstance(y, tuple) and y and y[0] in ("bin", "chk", "call")) or len(flds) != 1:
                    good = False
                else:
                    fl.add(flds[0])
            else:
                good = False
        ck.require(good, rule, "%s::hunk hands out the stored position unchanged" % adt.split("::")[-1],
                   "Note::hunk of %s computes its answer (%s): the stored position and the reported one can differ" % (adt, rets), f.where(),
                   ok_detail="returns %s" % rets)
        fields[adt] = fl
    # (b), (c) the constructions
    nb = 0
    for fn in sorted(prog.fns.values(), key=lambda f: f.id):
        if " as core::clone::Clone>::clone" in fn.id:
            continue
        for bb, idx_, s in fn.stmts():
            if s["k"] != "assign" or s["rv"]["k"] != "agg" or s["rv"].get("adt") not in fields or not s["rv"].get("fields"):
                continue
            adt = s["rv"]["adt"]
            for name, op in zip(s["rv"]["fields"], s["rv"]["ops"]):
                if name not in fields[adt]:
                    continue
                nb += 1
                e = df.operand_expr(fn, op)
                nexts = [x for x in df.walk(e) if isinstance(x, tuple) and x and x[0] == "call" and x[1].endswith("Iterator>::next")]
                arith = df.mentions(e, lambda x: isinstance(x, tuple) and x and x[0] in ("bin", "chk", "un")) or len(df.calls_in(e)) != len(nexts)
                if not ck.require(len(nexts) == 1 and not arith and df.show(e, 400).endswith(".0"), rule,
                                  "a note's hunk position is the counter of an enumeration, as counted (%s)" % fn.id.split("::")[-1].replace(">", ""),
                                  "the position stored in %s.%s is %s: not the bare counter of an enumerate() - it can name a hunk the file patch "
                                  "does not have, and the printer of the note indexes with it" % (adt.split("::")[-1], name, df.show(e, 120)), fn.where(s),
                                  ok_detail=df.show(e, 100)):
                    continue
                # what is drawn from: adapters that keep (counter, item) pairs as they are, then enumerate(), then the hunks from the first on
                x = nexts[0][2][0] if nexts[0][2] else None
                chain = []
                seen = set()
                for _ in range(40):
                    if isinstance(x, tuple) and x and x[0] in ("ref", "deref") and len(x) > 1:
                        x = x[1]
                    elif isinstance(x, tuple) and x and x[0] == "call" and x[2]:
                        chain.append(x[1].split("::")[-1])
                        x = x[2][0]
                    elif isinstance(x, tuple) and x and x[0] == "local" and x[1] not in seen:
                        seen.add(x[1])
                        ds = [d for d in df.all_def_exprs(fn, x[1]) if isinstance(d, tuple) and d and d[0] == "call"]
                        if len(ds) != 1:
                            break
                        x = ds[0]
                    else:
                        break
                owner = x
                if "enumerate" in chain:
                    k = chain.index("enumerate")
                    after, before = chain[:k], chain[k + 1:]
                else:
                    after, before = chain, []
                spine_ok = "enumerate" in chain and all(c in NOTE_AFTER_OK for c in after) and bool(before) and before[-1] == "hunks" and \
                    all(c in NOTE_SPINE_OK for c in before)
                ck.require(spine_ok, rule, "what is counted are the hunks of the file patch, from the first on (%s)" % fn.id.split("::")[-1].replace(">", ""),
                           "the enumeration whose counter becomes the note's position does not run over file_patch.hunks() from the start, or the "
                           "pairs are reworked after counting (%s)" % " <- ".join(chain), fn.where(s), ok_detail=" <- ".join(chain))
                # reported with the same file patch
                rep = [t3 for bb3, t3 in fn.calls() if (callee_of(t3).get("path") or "").endswith(("Fn::call", "FnMut::call_mut", "FnOnce::call_once"))
                       and df.mentions(df.operand_expr(fn, t3["args"][1]) if len(t3["args"]) > 1 else None, lambda y: isinstance(y, tuple) and y and y[0] == "agg" and adt.split("::")[-1] in str(y[1]))]
                same = bool(rep) and owner is not None and all(df.mentions(df.operand_expr(fn, t3["args"][1]), lambda y: y == owner) for t3 in rep)
                ck.require(same, rule, "the note is reported with the file patch whose hunks were counted (%s)" % fn.id.split("::")[-1].replace(">", ""),
                           "the note built here is not handed to the reporter together with %s" % df.show(owner, 40), fn.where(s),
                           ok_detail="%d report call(s) with %s" % (len(rep), df.show(owner, 30)))
    ck.floor(rule, "notes built with a hunk position", nb, 1)


def check_color(ck, bad):
    prog, cg = ck.prog, ck.cg
    rule = "C14-C"
    run_fn = ck.anchor(A["run"])
    if run_fn is None:
        return
    srcs = []
    for bb, t, c in calls_named(run_fn, "getopts::Matches::opt_str"):
        if any(df.is_const(df.operand_expr(run_fn, a), "color") for a in t["args"]):
            srcs.append((bb, t))
    if not ck.require(len(srcs) == 1, rule, "--color read once in run", "--color is read at %d sites" % len(srcs), run_fn.where()):
        return
    src_local = srcs[0][1]["dest"]["l"]
    # every use of a value derived from it
    derived = {src_local}
    changed = True
    d = df.defs_of(run_fn)
    while changed:
        changed = False
        for l in range(len(run_fn.locals)):
            if l in derived:
                continue
            for dd in d.all(l):
                ls = df._rv_locals(dd[3]["rv"]) if dd[0] in ("stmt", "pstmt") else [x for a in dd[2]["args"] for x in df._operand_locals(a)]
                if any(x in derived for x in ls):
                    derived.add(l)
                    changed = True
                    break
    # comparisons and borrowed views of the value (views are followed: what they produce is `derived` too)
    allowed = ("core::cmp::PartialEq::eq", "core::cmp::PartialEq::ne", "::deref", "::as_ref", "::as_str", "::eq", "::ne", "::borrow",
               "Option::<T>::as_deref", "Option::<T>::map", "Option::<T>::is_some", "Option::<T>::is_none", "Option::<T>::unwrap_or",
               "Option::<T>::unwrap_or_default", "<impl str>::eq_ignore_ascii_case", "<impl str>::starts_with", "<impl str>::is_empty",
               "String::is_empty", "core::mem::drop", "core::ptr::drop_in_place")
    for bb, t in run_fn.calls():
        if run_fn.blocks[bb]["cleanup"]:
            continue
        used = any(x in derived for a in t["args"] for x in df._operand_locals(a))
        if not used:
            continue
        c = callee_of(t)
        p = c.get("rpath") or ""
        q = c.get("path") or ""
        ok = any(p.endswith(a) or q.endswith(a) or q == a for a in allowed)
        ck.require(ok, rule, "use of the --color value by %s" % (q or p), "the --color value flows into %s" % p, run_fn.where(t),
                   ok_detail="comparison only")
    # regions guarded by tests of it
    # blocks committed to an explicit `return Err(..)` (refusing a bad option value is not "changing the result")
    R = set()
    for bb, idx, s in run_fn.stmts():
        if s["k"] == "assign" and s["lhs"]["l"] == 0 and s["rv"]["k"] == "agg" and s["rv"].get("variant") == "Err":
            R.add(bb)
    changed = True
    while changed:
        changed = False
        for b in range(len(run_fn.blocks)):
            if b in R or run_fn.blocks[b]["cleanup"]:
                continue
            ss = run_fn.succs(b)
            if ss and all(x in R for x in ss):
                t_ = run_fn.blocks[b]["term"]
                # only formatting of the message may precede the Err
                if t_["k"] == "call" and any(s_.term is t_ for s_ in cg.out.get(run_fn.id, [])):
                    continue
                R.add(b)
                changed = True
    refusal = set()
    for b in range(len(run_fn.blocks)):
        if b in R:
            continue
        for x in run_fn.succs(b):
            if x in R:
                refusal.add((b, x))
    brk, _ = noninterf.try_break_edges(run_fn)
    n = 0
    for bb, t in run_fn.terms():
        if t["k"] != "switch":
            continue
        locs = df.operand_trace(run_fn, t["discr"])
        if src_local not in locs and not (locs & derived):
            continue
        # only tests that really depend on the option value
        if not (locs & derived):
            continue
        n += 1
        region, join = cfg.ipdom_region(run_fn, bb, disabled=brk | refusal)
        calls = []
        for rb in sorted(region):
            tt = run_fn.blocks[rb]["term"]
            if tt["k"] == "call" and not run_fn.blocks[rb]["cleanup"]:
                for s in cg.out.get(run_fn.id, []):
                    if s.term is tt:
                        calls.append(s.callee)
                rp = callee_of(tt).get("rpath") or ""
                if callgraph.fs_write_kind(rp) or callgraph.EXIT.get(rp):
                    calls.append(rp)
        ck.require(join is not None and not calls, rule, "region of the --color test at bb%d" % bb,
                   "a test of the --color value guards calls to %s (or does not re-join)" % calls, run_fn.where(t),
                   ok_detail="%d blocks, no local function or effect called" % len(region))
    ck.floor(rule, "tests of the --color value", n, 3)
    # --mmap reads the lines of a file from a mapping of the inode that was on disk: the result is the same as with the default loader
    # only because that inode is never written again (files are replaced, C15-R1)
    from . import c15
    from ..framework import RuleAlias
    c15.run(RuleAlias(ck, lambda r: "C14-R8" if r == "C15-R1" else None))
