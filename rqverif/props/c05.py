"""C05  push is all-or-nothing per patch (DESIGN §4 C05)."""
from .. import callgraph, cfg, dataflow as df, guards, patterns as pt
from ..common import A, calls_named, calls_to, dry_run_guards, is_log_open
from ..facts import callee_of
from . import c04

LEVEL = "other"
EXPLANATION = (
    "Decides ordering and pairing on all paths of both drivers and cmd_push: (R1) .pc/applied-patches is written only on "
    "the Ok edge of the driver call and receives exactly series_patches[0 .. applied_patches] of that result; (R2) when a "
    "file patch of a patch fails, the whole patch is rolled back (rollback_and_save_rej_files) before anything is saved, the "
    "applied count is only advanced on the no-failure edge, and nothing is saved after the backup rollback rewound the "
    "in-memory files; (R3) the undo is complete (C04-R1/R2 re-reported); (R4) the parallel save phase starts only after the "
    "collected worker errors were inspected with an early return; (R5) main exits with status 1 on the Err and Ok(false) arms "
    "and does not exit on Ok(true), and cmd_push returns Ok(skipped == 0) with applied/skipped derived from the applied "
    "count; (R7) a refused rename moves the content back into the record it was taken from before returning \"not applied\". (R6b) no entry leaves the file map before it is saved; (R3f) the state of a file is only written where the undo records it. Not decided: that the saved contents equal the first k patches (value level)."
)
LEVEL_NOTE = "Undecided: equality of saved file contents with the first k patches; diagnostics crashes that are value-level."


def site_of(fn, suffix):
    hits = calls_named(fn, suffix)
    return hits


def run(ck):
    prog, cg = ck.prog, ck.cg
    main = ck.anchor(A["main"])
    cmd_push = ck.anchor(A["cmd_push"])
    seq = ck.anchor(A["seq"])
    par = ck.anchor(A["par"])
    save_worker = ck.anchor(A["save_worker"])
    apply_worker = ck.anchor(A["apply_worker"])
    if None in (main, cmd_push, seq, par, save_worker, apply_worker):
        return
    r1(ck, cmd_push, seq, par)
    r2_seq(ck, seq)
    r2_par(ck, save_worker, apply_worker)
    r2_no_save_after_backup(ck, [seq, save_worker])
    c04.r1_fields_restored(ck, rule="C05-R3a")
    c04.r2_single_caller(ck, rule="C05-R3b")
    c04.r3b_pop_after_rollback(ck, rule="C05-R3c")
    # the undo re-inserts the hunk's own lines; that restores the file only because a hunk is placed solely where the file's lines
    # equal them byte for byte (the comparison of the trial, C02-R4) - all-or-nothing per patch rests on the undo putting back exactly what was there that holds
    from . import c02 as _c02
    from .c18 import ck_alias as _alias
    _c02.r4(_alias(ck, "C05-R3e"))
    c04.r4_direction(ck, rule="C05-R3d")
    c04.r8_who_writes_the_file_state(ck, rule="C05-R3f")
    r6_every_file_saved(ck)
    r6b_no_entry_leaves_the_file_map(ck)
    r7_refused_rename_puts_content_back(ck)
    r8_errors_are_not_turned_into_not_applied(ck)
    r4(ck, par)
    r5(ck, main, cmd_push, seq, par)


def r6_every_file_saved(ck, rule="C05-R6"):
    """What is in the in-memory file map after the rollbacks is the state to be written: ModifiedFiles::save hands every entry to
    save_modified_file (a skipped entry keeps its stale on-disk state - e.g. the old name of a rename gone, the new name never written)."""
    sv = ck.anchor("ModifiedFiles::<'arena, 'config>::save")
    if sv is None:
        return
    its = [it for it in pt.iterations(sv, ck.prog) if "hash::map::" in it["iter_ty"] and "ModifiedFile" in it["iter_ty"]]
    if not ck.require(len(its) == 1, rule, "save walks the file map once", "%d iterations over the file map in ModifiedFiles::save" % len(its), sv.where()):
        return
    it = its[0]
    bf = it["body_fn"]
    calls = {bb for bb, t, c in calls_named(bf, "rapidquilt::apply::common::save_modified_file") if bb in it["body"]}
    ck.floor(rule, "save_modified_file calls per entry", len(calls), 1)
    ck.require(pt.every_item_reaches(it, calls), rule, "every entry of the file map is written",
               "an entry of the file map can be passed over without calling save_modified_file: that file keeps its stale on-disk state",
               it["where"], ok_detail="every iteration (%s) crosses save_modified_file" % it["kind"])
    # and the entry written is the entry drawn
    for bb, t, c in calls_named(bf, "rapidquilt::apply::common::save_modified_file"):
        args = [df.operand_expr(bf, a) for a in t["args"]]
        if it["kind"] == "loop":
            drawn = lambda x: df.mentions(x, lambda y: df.is_call(y, "hash::map::Iter<'a, K, V> as core::iter::traits::iterator::Iterator>::next"))
        else:
            drawn = lambda x: df.mentions(x, lambda y: isinstance(y, tuple) and y[0] == "param" and y[1] >= 2)
        ck.require(sum(1 for a in args if drawn(a)) >= 2, rule, "name and content written are the pair drawn from the map",
                   "save_modified_file is given %s" % [df.show(a, 50) for a in args], bf.where(t))


# ---- R1 -----------------------------------------------------------------------------------------
def r6b_no_entry_leaves_the_file_map(ck, rule="C05-R6b"):
    """... and the file map only grows: what a patch did to a file (also: that it renamed it away, which is recorded under the old
    name) stays in the map until it is saved.  No removal operation is applied to a map of file records."""
    prog = ck.prog
    REMOVERS = ("retain", "remove", "remove_entry", "clear", "drain", "extract_if", "take", "retain_mut", "into_keys")
    n_ops = 0
    bad = []
    for fn in sorted(prog.fns.values(), key=lambda f: f.id):
        if fn.crate != "rapidquilt" or "::tests::" in fn.id:
            continue
        for bb, t in fn.calls():
            rp = callee_of(t).get("rpath") or ""
            a0 = t["argtys"][0] if t["argtys"] else ""
            if fn.blocks[bb]["cleanup"] or "hash::map::HashMap" not in rp or "modified_file::ModifiedFile<" not in a0:
                continue
            n_ops += 1
            if rp.split("::")[-1] in REMOVERS:
                bad.append((fn, t, rp.split("::")[-1]))
    ck.floor(rule, "operations on a map of file records", n_ops, 5)
    for fn, t, op in bad:
        ck.violate(rule, "%s on the file map in %s" % (op, fn.id.split("::")[-1]),
                   "%s applies %s() to the map of file records: an entry that leaves the map is never saved - e.g. the record under the old "
                   "name of a rename, which is the only trace that the old file has to be deleted" % (fn.id, op), fn.where(t))
    if not bad:
        ck.ok(rule, "no entry leaves the file map before it is saved", "%d operations on maps of file records, none of them removes" % n_ops)


def r8_errors_are_not_turned_into_not_applied(ck, rule="C05-R8"):
    """apply_one_file_patch has three outcomes: Ok(true) applied, Ok(false) this file patch failed (the drivers then undo what the
    entries on the applied stack record), Err abort the run before anything is saved.  An error that arises half-way - after a file's
    content was moved out for a rename, before anything was pushed onto the stack - must stay an error: answered with Ok(false), the
    drivers go on to save a file map that no undo covers.  No `Err` side of a match on a Result inside the function reaches an `Ok`
    return."""
    fn = ck.anchor("apply_one_file_patch")
    if fn is None:
        return
    sws = pt.discr_switches(fn, lambda e, rv: (rv.get("adt") or "") == "core::result::Result")
    ok_rets = {bb for bb, idx, st in fn.stmts() if st["k"] == "assign" and st["lhs"]["l"] == 0 and not st["lhs"].get("p") and
               st["rv"]["k"] == "agg" and st["rv"].get("variant") == "Ok"}
    n = 0
    for sw in sws:
        e = sw["edges"].get("Err")
        if not e:
            continue
        n += 1
        region = cfg.dominated_by_edge(fn, e)
        hit = sorted(region & ok_rets)
        ck.require(not hit, rule, "an error inside apply_one_file_patch is not answered with Ok",
                   "on the Err side of a match on a Result (%s) apply_one_file_patch returns Ok(..): an error that arose while the file patch was "
                   "being applied (possibly after a file's content was moved out for a rename) is reported as 'did not apply', and the run goes "
                   "on to save files that no entry on the applied stack covers" % df.show(sw["expr"], 70),
                   fn.where(fn.blocks[hit[0]]["stmts"][-1]) if hit and fn.blocks[hit[0]]["stmts"] else fn.where(), ok_detail="the Err side does not reach an Ok return")
    ck.info(rule, "matches on a Result in apply_one_file_patch", "%d examined" % n)


def _load_key(e, fn=None):
    """The name expression a record was fetched under: the second argument of the get_or_load call inside e (clone / borrow wrappers
    peeled)."""
    hits = [x for x in df.walk(e) if df.is_call(x, "ModifiedFiles::<'arena, 'config>::get_or_load")]
    if not hits and fn is not None and isinstance(e, tuple) and e and e[0] in ("local", "var", "named") and isinstance(e[1], int):
        # a variable the expression builder does not look through (it is written through later on): its defining call
        ds = [d for d in df.all_def_exprs(fn, e[1]) if df.mentions(d, lambda x: df.is_call(x, "ModifiedFiles::<'arena, 'config>::get_or_load"))]
        if len(ds) == 1:
            return _load_key(ds[0], fn)
    if len({repr(h) for h in hits}) != 1:
        return None
    k = hits[0][2][1] if len(hits[0]) > 2 and len(hits[0][2]) > 1 else None
    while isinstance(k, tuple) and k and ((k[0] in ("ref", "deref", "un") and isinstance(k[-1], tuple)) or
                                          (k[0] == "call" and k[1].endswith(("::clone", "::deref", "::as_ref", "::borrow")) and len(k[2]) == 1)):
        k = k[-1] if k[0] != "call" else k[2][0]
    return k


def r7_refused_rename_puts_content_back(ck, rule="C05-R7"):
    """A rename that is refused (the new name is taken) returns Ok(false): the patch counts as not applied.  The content was already
    taken out of the record of the file to patch (move_out); on the refused edge it has to be moved in again *into the record it was
    taken from* - put under any other name, the old file is saved as deleted and the other one overwritten although nothing was
    applied."""
    fn = ck.anchor("apply_one_file_patch")
    if fn is None:
        return
    outs = [(bb, t) for bb, t, c in calls_named(fn, "ModifiedFile::<'arena>::move_out")]
    ins = [(bb, t) for bb, t, c in calls_named(fn, "ModifiedFile::<'arena>::move_in")]
    ck.floor(rule, "move_out of the file to patch in apply_one_file_patch", len(outs), 1)
    ck.floor(rule, "move_in calls in apply_one_file_patch", len(ins), 1)
    if len(outs) != 1:
        ck.require(not outs, rule, "one move_out", "%d move_out calls: which content travels is not decided" % len(outs), fn.where())
        return
    obb, ot = outs[0]
    key_out = _load_key(df.operand_expr(fn, ot["args"][0]), fn)
    if not ck.require(key_out is not None, rule, "the record emptied is fetched by name", "the receiver of move_out is not a get_or_load result", fn.where(ot)):
        return
    tested = []
    for bb, t in ins:
        g = [x for x in guards.find_bool_guards(fn, lambda e, t=t: df.is_call(e, "ModifiedFile::<'arena>::move_in")) if cfg.dominates(fn, t["target"], x["bb"])
             and not any(b2 != bb and cfg.dominates(fn, fn.blocks[b2]["term"]["target"], x["bb"]) and cfg.dominates(fn, t["target"], b2) for b2, _ in ins)]
        if g:
            tested.append((bb, t, g[0]))
    if not ck.require(len(tested) >= 1, rule, "the move into the new name is tested", "no move_in result is branched on: an occupied new name is overwritten silently", fn.where()):
        return
    for bb, t, g in tested:
        refused = g["false_edge"]
        region = cfg.dominated_by_edge(fn, refused)
        back = [(b2, t2) for b2, t2 in ins if b2 in region]
        good = set()
        for b2, t2 in back:
            k = _load_key(df.operand_expr(fn, t2["args"][0]), fn)
            if ck.require(k is not None and k == key_out, rule, "content goes back to the record it was taken from",
                          "after the refused rename the content taken from %s is moved into the record of %s: the file to patch is left empty (saved as deleted) "
                          "and another file is overwritten by a patch that reports it did nothing" % (df.show(key_out, 60), df.show(k, 60)), fn.where(t2),
                          ok_detail="move_in on get_or_load(%s)" % df.show(k, 50)):
                good.add(b2)
        # only the normal returns count: the `?` of the reload leaves with an error, which aborts the run before anything is saved
        ok = all(cfg.must_pass(fn, refused[1], ex, good, after_src=False) or _is_error_exit(fn, refused[1], ex, good)
                 for ex in cfg.exits(fn) if ex in cfg.reachable(fn, [refused[1]]))
        ck.require(ok, rule, "every refused rename puts the content back before returning",
                   "a path from the refused move_in to the return of apply_one_file_patch does not move the content back: the file to patch stays empty", fn.where(t))


def _is_error_exit(fn, start, ex, good):
    """The paths from start to ex that avoid `good` all run over the Err arm of a `?` (an error return: the run aborts, nothing is saved)."""
    r = cfg.reachable(fn, [start], blocked=set(good))
    if ex not in r:
        return True
    # block every Err-residual conversion: blocks calling FromResidual::from_residual
    errs = {bb for bb, t in fn.terms() if t["k"] == "call" and "from_residual" in (callee_of(t).get("rpath") or callee_of(t).get("path") or "")}
    r2 = cfg.reachable(fn, [start], blocked=set(good) | errs)
    return ex not in r2


def log_writers(ck):
    """Functions that open a file in append mode (the applied-patches log writer)."""
    out = set()
    for site, lab in ck.cg.fs_write_sites():
        if site.callee == "std::fs::OpenOptions::open" and is_log_open(site.caller, site.term):
            out.add(site.caller.id)
    return out


def driver_call_sites(prog, cg, cmd_push, seq, par):
    """Call sites in cmd_push that run a driver (directly, or through a closure handed to the pool)."""
    sites = []
    for s in cg.out[cmd_push.id]:
        if s.term is None:
            continue
        if s.callee in (seq.id, par.id):
            sites.append((s, s.callee))
        elif s.kind == "value" and s.callee in prog.fns:
            reach = cg.closure([s.callee])
            for d in (seq.id, par.id):
                if d in reach and s.callee.startswith(cmd_push.id):
                    sites.append((s, d))
    return sites


def r1(ck, cmd_push, seq, par):
    prog, cg = ck.prog, ck.cg
    writers = log_writers(ck)
    ck.require(len(writers) == 1, "C05-R1", "one applied-patches log writer",
               "functions opening the applied-patches log (append mode or that path): %s" % sorted(writers))
    wsites = [s for s in cg.out[cmd_push.id] if s.callee in writers and s.term is not None]
    ck.floor("C05-R1", "calls of the log writer in cmd_push", len(wsites), 1)
    # every call of a log writer anywhere must be one of these
    for w in writers:
        for s in cg.sites_to(w):
            ck.require(s.caller.id == cmd_push.id, "C05-R1", "log writer called from %s" % s.caller.id,
                       "the applied-patches log is written outside cmd_push", s.where())
    dsites = driver_call_sites(prog, cg, cmd_push, seq, par)
    drivers = sorted({d for _, d in dsites})
    ck.require(drivers == sorted([seq.id, par.id]), "C05-R1", "both drivers are called from cmd_push",
               "driver call sites found for %s" % drivers)
    ok_edges = []
    for s, d in dsites:
        re = pt.result_edges(cmd_push, s.bb)
        if not re or not re["ok"]:
            ck.violate("C05-R1", "result of %s inspected" % d, "the result of the driver call is not branched on (`?` or match)", s.where())
            continue
        ok_edges += re["ok"]
        ck.ok("C05-R1", "result of %s inspected" % d, "`?`/match found, Ok edge %s" % (re["ok"],), s.where())
    # every call of cmd_push that can write the file system - other than launching a driver - happens after a driver returned Ok
    fs_writers = cg.functions_with_effect(callgraph.fs_write_kind)
    launch_bbs = {s.bb for s, d in dsites}
    other_w = [s for s in cg.out[cmd_push.id] if s.term is not None and s.callee in fs_writers and s.bb not in launch_bbs and
               s.callee not in (seq.id, par.id) and not prog.fns[s.callee].id.startswith(cmd_push.id + "::{closure")]
    r_no_ok = cfg.reachable(cmd_push, 0, disabled=set(ok_edges))
    for ws in sorted(set(other_w) | set(wsites), key=lambda x: x.bb):
        ck.require(ws.bb not in r_no_ok, "C05-R1", "%s only after a driver returned Ok" % ws.callee.split("::")[-1],
                   "a call that can write the file system (%s) is reachable in cmd_push without passing the Ok edge of a driver call: "
                   ".pc or the log can be touched by a push that is then refused or fails" % ws.callee.split("::")[-1], ws.where(),
                   ok_detail="unreachable once the %d driver Ok edges are removed" % len(ok_edges))
    nslice = 0
    for ws in sorted(set(other_w) | set(wsites), key=lambda x: x.bb):
        # the slice argument (whichever argument carries the names)
        cands = [df.operand_expr(cmd_push, a) for a in ws.term["args"]]
        cands = [e for e in cands if df.mentions(e, lambda x: isinstance(x, tuple) and x[0] == "field" and x[2] == "series_patches")]
        if not cands:
            continue
        nslice += 1
        e = cands[0]
        good = False
        detail = df.show(e, 200)
        idx = [x for x in df.walk(e) if df.is_call(x, "Index<I> for [T]>::index", "::index")]
        if idx:
            base, rng = idx[0][2][0], idx[0][2][1]
            base_ok = isinstance(base, tuple) and base[0] == "field" and base[2] == "series_patches"
            end = None
            if isinstance(rng, tuple) and rng[0] == "agg" and rng[1].endswith("ops::range::Range") and rng[3][0] == ("const", 0, "usize"):
                end = rng[3][1]             # [0..n]
            elif isinstance(rng, tuple) and rng[0] == "agg" and rng[1].endswith("ops::range::RangeTo") and len(rng[3]) == 1:
                end = rng[3][0]             # [..n]
            rng_ok = isinstance(end, tuple) and end[0] == "field" and end[2] == "applied_patches"
            res_ok = False
            if rng_ok:
                src = end[1]
                if isinstance(src, tuple) and src[0] == "local":
                    defs = df.all_def_exprs(cmd_push, src[1])
                    res_ok = bool(defs) and all(
                        df.mentions(dx, lambda x: df.is_call(x, seq.id) or df.is_call(x, "ThreadPool::install")) and
                        df.mentions(dx, lambda x: isinstance(x, tuple) and x[0] == "downcast" and x[2] in ("Continue", "Ok"))
                        for dx in defs)
                else:
                    res_ok = df.mentions(src, lambda x: df.is_call(x, seq.id) or df.is_call(x, "ThreadPool::install"))
            good = base_ok and rng_ok and res_ok
        ck.require(good, "C05-R1", "recorded names = series_patches[0..applied_patches] of the driver result",
                   "slice passed to the log writer is %s" % detail, ws.where(), ok_detail=detail)
    ck.floor("C05-R1", "writer calls that are given the series slice", nslice, 1)
    # the closure handed to the pool returns the driver's result unchanged
    for s, d in dsites:
        if s.kind == "value":
            cl = prog.fns[s.callee]
            rets = [df.call_expr(cl, t) for bb, t in cl.calls() if t["dest"]["l"] == 0 and "p" not in t["dest"]]
            ck.require(len(rets) == 1 and df.is_call(rets[0], par.id), "C05-R1", "pool closure returns the driver result",
                       "closure handed to the thread pool returns %s" % [df.show(r) for r in rets], cl.where())


# ---- R2 sequential -----------------------------------------------------------------------------------
def applied_count_local(fn):
    """The local that flows into ApplyResult.applied_patches of the returned value."""
    for bb, idx, s in fn.stmts():
        if s["k"] == "assign" and s["rv"]["k"] == "agg" and s["rv"].get("adt", "").endswith("apply::ApplyResult"):
            fields = s["rv"]["fields"]
            op = s["rv"]["ops"][fields.index("applied_patches")]
            e = df.operand_expr(fn, op)
            if isinstance(e, tuple) and e[0] == "local":
                return e[1], s
            return e, s
    return None, None


def r2_seq(ck, seq, rule="C05-R2"):
    rej = calls_named(seq, "rollback_and_save_rej_files")
    apply_one = calls_named(seq, "apply_one_file_patch")
    save = calls_named(seq, "ModifiedFiles::<'arena, 'config>::save")
    ck.floor(rule, "rollback_and_save_rej_files calls in sequential driver", len(rej), 1)
    ck.floor(rule, "apply_one_file_patch calls in sequential driver", len(apply_one), 1)
    ck.floor(rule, "ModifiedFiles::save calls in sequential driver", len(save), 1)
    if not (rej and apply_one and save):
        return
    rej_bbs = {bb for bb, t, c in rej}
    dr = dry_run_guards(seq)
    dry_true = {g["true_edge"] for g in dr}    # edges taken when dry_run is true -> pruned
    # the failure flag: a multi-def bool local whose true edge dominates the reject call
    flags = []
    for bb, t in seq.terms():
        if t["k"] != "switch" or t["dty"] != "bool":
            continue
        e, neg = guards.switch_cond(seq, bb)
        if not (isinstance(e, tuple) and e[0] == "local" and seq.local_ty(e[1]) == "bool"):
            continue
        f, tr = guards.bool_edges(seq, bb)
        if neg:
            f, tr = tr, f
        dom = cfg.dominated_by_edge(seq, (bb, tr))
        if rej_bbs & dom:
            flags.append({"bb": bb, "local": e[1], "true_edge": (bb, tr), "false_edge": (bb, f)})
    if not ck.require(len(flags) >= 1, rule, "failure flag guards the reject/rollback call (sequential)",
                      "no boolean flag test dominates rollback_and_save_rej_files in the sequential driver", seq.where()):
        return
    # Ok(false) edges of apply_one_file_patch
    okfalse = []
    for bb, t, c in apply_one:
        re = pt.result_edges(seq, bb)
        if not re:
            ck.violate(rule, "apply_one_file_patch result inspected (sequential)", "result not branched on", seq.where(t))
            continue
        for sw in pt.ok_payload_switch(seq, re["local"]):
            okfalse.append(sw["false_edge"])
    okfalse_region = guards.region_of_edges(seq, okfalse)
    count_local, agg_stmt = applied_count_local(seq)

    def is_not_payload(e):
        """!( <result of apply_one_file_patch> as Ok|Continue ).0"""
        if isinstance(e, tuple) and e[0] == "un" and e[1] == "Not":
            x = e[2]
            return isinstance(x, tuple) and x[0] == "field" and x[2] == 0 and isinstance(x[1], tuple) and x[1][0] == "downcast" and \
                x[1][2] in ("Ok", "Continue") and df.mentions(x[1][1], lambda y: df.is_call(y, "apply_one_file_patch"))
        return False
    for fl in flags:
        l = fl["local"]
        name = seq.local_name(l) or "_%d" % l
        me = ("local", l, seq.local_name(l))
        # (i) raised exactly when apply_one_file_patch returned Ok(false): `flag = true` on that edge, or `flag = flag | !ok`
        bad = []
        raised = 0
        self_tests = guards.find_bool_guards(seq, lambda e: e == me)
        for dd in df.defs_of(seq).all(l):
            if dd[0] != "stmt":
                bad.append("bb%d (not a plain assignment)" % dd[1])
                continue
            rv = dd[3]["rv"]
            if rv["k"] == "use" and rv["op"].get("int") == 0:
                continue                                    # reset
            if rv["k"] == "use" and rv["op"].get("int") == 1:
                if dd[1] in okfalse_region:
                    raised += 1
                elif any(dd[1] in cfg.dominated_by_edge(seq, g["true_edge"]) for g in self_tests):
                    pass                                    # `flag = true` where it already is true (short-circuit forms)
                else:
                    bad.append(seq.where(dd[3]))
                continue
            e = df.rvalue_expr(seq, rv)
            if is_not_payload(e) or (isinstance(e, tuple) and e[0] == "bin" and e[1] == "BitOr" and
                                     any(is_not_payload(x) for x in e[2:4]) and any(x == me for x in e[2:4])):
                raised += 1
                continue
            bad.append("%s (value %s)" % (seq.where(dd[3]), df.show(e, 60)))
        ck.require(raised >= 1 and not bad, rule, "flag `%s` raised exactly on Ok(false) of apply_one_file_patch" % name,
                   "flag `%s` is set outside the Ok(false) outcome at %s (or never raised)" % (name, bad), seq.where(),
                   ok_detail="%d raising assignment(s), all tied to an Ok(false) outcome" % raised)
        # (ii) from the true edge every path to a return passes the reject/rollback call (not dry-run)
        tgt = fl["true_edge"][1]
        # `?` error returns are exempt: blocks that assign _0 via from_residual
        err_blocks = {bb for bb, t in seq.calls() if t["dest"]["l"] == 0 and (callee_of(t).get("path") or "").endswith("from_residual")}
        r = cfg.reachable(seq, [tgt], disabled=dry_true, blocked=rej_bbs | err_blocks)
        rets = [b for b in cfg.exits(seq) if b in r]
        ck.require(not rets, rule, "failed patch is rolled back on every path (sequential)",
                   "from the failure edge a return is reachable without rollback_and_save_rej_files", seq.where(),
                   ok_detail="every non-error path from the failure edge crosses rollback_and_save_rej_files (dry_run=false)")
        # (iii) the applied count is not advanced after a failure, and no further patch is applied
        after = cfg.reachable(seq, [tgt])
        if isinstance(count_local, int):
            adv = [dd for dd in df.defs_of(seq).all(count_local) if dd[1] in after and
                   not (dd[0] == "stmt" and dd[3]["rv"]["k"] == "use" and dd[3]["rv"]["op"].get("int") == 0)]
            ck.require(not adv, rule, "applied count not advanced after a failure (sequential)",
                       "the applied count `%s` is assigned on a path after the failure edge" % (seq.local_name(count_local)), seq.where(),
                       ok_detail="no assignment of `%s` reachable from the failure edge" % seq.local_name(count_local))
            # ... and it is only advanced on the no-failure edge
            false_region = cfg.dominated_by_edge(seq, fl["false_edge"])
            adv_all = [dd for dd in df.defs_of(seq).all(count_local)
                       if not (dd[0] == "stmt" and dd[3]["rv"]["k"] == "use" and dd[3]["rv"]["op"].get("int") == 0)]
            bad = [dd for dd in adv_all if dd[1] not in false_region]
            ck.require(bool(adv_all) and not bad, rule, "applied count advanced only on the no-failure edge (sequential)",
                       "applied count assigned outside the no-failure edge of the flag test", seq.where(),
                       ok_detail="%d advancing assignment(s), all on the no-failure edge" % len(adv_all))
        else:
            ck.violate(rule, "applied count local (sequential)", "ApplyResult.applied_patches is %s, expected a counter local" % df.show(count_local), seq.where())
        again = [bb for bb, t, c in apply_one if bb in after]
        ck.require(not again, rule, "no further file patch applied after a failed patch (sequential)",
                   "apply_one_file_patch is reachable after the failure edge", seq.where())
        # (iv) nothing is saved before the rollback
        for sbb, st, sc in save:
            ok = cfg.must_pass(seq, fl["true_edge"][0], sbb, rej_bbs, disabled=dry_true | {fl["false_edge"]})
            ck.require(ok, rule, "save only after the rollback of the failed patch (sequential)",
                       "ModifiedFiles::save reachable from the failure edge without rollback_and_save_rej_files", seq.where(st))
    # save is not inside the patch loop
    for sbb, st, sc in save:
        inloop = [h for h, body in cfg.loops(seq).items() if sbb in body]
        ck.require(not inloop, rule, "save happens once, after the patch loop (sequential)", "ModifiedFiles::save is inside a loop", seq.where(st))


def r2_par(ck, save_worker, apply_worker):
    rule = "C05-R2"
    rej = calls_named(save_worker, "rollback_and_save_rej_files")
    save = calls_named(save_worker, "ModifiedFiles::<'arena, 'config>::save")
    ck.floor(rule, "rollback_and_save_rej_files calls in save_files_worker", len(rej), 1)
    ck.floor(rule, "ModifiedFiles::save calls in save_files_worker", len(save), 1)
    dr = dry_run_guards(save_worker)
    dry_true = {g["true_edge"] for g in dr}
    for sbb, st, sc in save:
        ok = any(cfg.dominates(save_worker, rbb, sbb, dry_true) and rbb != sbb for rbb, _, _ in rej)
        ck.require(ok, rule, "rollback of the failed patch dominates save (parallel worker)",
                   "ModifiedFiles::save in save_files_worker is not dominated by rollback_and_save_rej_files", save_worker.where(st))
    # the rollback is given the barrier value (final_patch parameter), as is the run-ahead rollback
    for rbb, rt, rc in rej:
        e = df.operand_expr(save_worker, rt["args"][1])
        ck.require(isinstance(e, tuple) and e[0] == "param", rule, "rollback index is the agreed final patch (parallel worker)",
                   "rollback_and_save_rej_files is called with %s" % df.show(e), save_worker.where(rt))
    # apply_worker: fetch_min on the Ok(false) edge
    apply_one = calls_named(apply_worker, "apply_one_file_patch")
    ck.floor(rule, "apply_one_file_patch calls in apply_worker", len(apply_one), 1)
    okfalse = []
    for bb, t, c in apply_one:
        re = pt.result_edges(apply_worker, bb)
        if not re:
            ck.violate(rule, "apply_one_file_patch result inspected (apply_worker)", "result not branched on", apply_worker.where(t))
            continue
        for sw in pt.ok_payload_switch(apply_worker, re["local"]):
            okfalse.append(sw["false_edge"])
    region = guards.region_of_edges(apply_worker, okfalse)
    fm = calls_named(apply_worker, "atomic::Atomic::<usize>::fetch_min", "AtomicUsize::fetch_min")
    ck.floor(rule, "fetch_min calls in apply_worker", len(fm), 1)
    for bb, t, c in fm:
        ck.require(bb in region, rule, "earliest-broken index lowered exactly on Ok(false) (apply_worker)",
                   "fetch_min is not on the Ok(false) edge of apply_one_file_patch", apply_worker.where(t))
        e = df.operand_expr(apply_worker, t["args"][1])
        idx_ok = False
        for abb, at, ac in apply_one:
            if df.operand_expr(apply_worker, at["args"][1]) == e:
                idx_ok = True
        ck.require(idx_ok, rule, "fetch_min publishes the index of the failed patch",
                   "fetch_min argument %s is not the index passed to apply_one_file_patch" % df.show(e), apply_worker.where(t))
    # every Ok(false) edge must reach a fetch_min (a failure must be published)
    for e in okfalse:
        r = cfg.reachable(apply_worker, [e[1]], blocked={bb for bb, _, _ in fm})
        loop_back = [h for h in cfg.loops(apply_worker) if h in r]
        ck.require(not loop_back and not [b for b in cfg.exits(apply_worker) if b in r], rule,
                   "every Ok(false) is published before the worker goes on",
                   "an Ok(false) path continues without fetch_min", apply_worker.where())


def r2_no_save_after_backup(ck, fns):
    rule = "C05-R2"
    for fn in fns:
        backup = calls_named(fn, "rollback_and_save_backup_files")
        save = calls_named(fn, "ModifiedFiles::<'arena, 'config>::save")
        rej = calls_named(fn, "rollback_and_save_rej_files")
        ck.floor(rule, "rollback_and_save_backup_files calls in %s" % fn.name, len(backup), 1)
        for bbb, bt, bc in backup:
            after = cfg.reachable_from_after(fn, bbb)
            bad = [fn.where(st) for sbb, st, sc in save + rej if sbb in after]
            ck.require(not bad, rule, "nothing saved after the backup rollback (%s)" % fn.name,
                       "save/reject call reachable after rollback_and_save_backup_files rewound the in-memory files: %s" % bad, fn.where(bt))


# ---- R4 ---------------------------------------------------------------------------------------------------
def r4(ck, par, rule="C05-R4"):
    prog, cg = ck.prog, ck.cg
    writers = cg.functions_with_effect(callgraph.fs_write_kind)
    launches = [s for s in cg.out[par.id] if s.kind == "value" and s.term is not None and s.callee in writers
                and s.callee.startswith(par.id + "::{closure")]
    # keep only launches into a parallel region (rayon)
    launches = [s for s in launches if "rayon" in (callee_of(s.term).get("rpath") or "")]
    ck.floor(rule, "parallel save-phase launches", len(launches), 1)
    for s in launches:
        # a discriminant switch on an Option<Error> drawn from the shared error list, Some-edge returns Err
        found = None
        for sw in pt.discr_switches(par, lambda e, rv: "Option<failure::error::Error>" in rv.get("pty", "")):
            some, none = sw["edges"].get("Some"), sw["edges"].get("None")
            if not some or not none:
                continue
            if not any("Mutex<alloc::vec::Vec<failure::error::Error>>" in par.local_ty(l)
                       for l in df.place_trace(par, sw["place"])):
                continue
            some_r = cfg.reachable(par, [some[1]])
            if s.bb in some_r:
                continue
            dom_none = cfg.dominated_by_edge(par, none)
            if s.bb in dom_none:
                found = sw
                break
        ck.require(found is not None, rule, "errors of the apply phase are inspected before the save phase is launched",
                   "the parallel save phase (%s) is not dominated by an early return on a collected worker error" % s.callee, s.where(),
                   ok_detail="dominated by the None edge of the error inspection at bb%s" % (found["bb"] if found else "?"))
    # the Ok return is dominated by such an inspection as well (C18-R4)
    ok_ret = [(bb, s_) for bb, idx, s_ in par.stmts() if s_["k"] == "assign" and s_["lhs"]["l"] == 0 and "p" not in s_["lhs"]
              and s_["rv"]["k"] == "agg" and s_["rv"].get("variant") == "Ok"]
    for bb, s_ in ok_ret:
        found = False
        for sw in pt.discr_switches(par, lambda e, rv: "Option<failure::error::Error>" in rv.get("pty", "")):
            none = sw["edges"].get("None")
            if none and bb in cfg.dominated_by_edge(par, none):
                launches_before = all(cfg.dominates(par, l.bb, sw["bb"]) for l in launches)
                if launches_before:
                    found = True
        ck.require(found, rule, "Ok(ApplyResult) only when no worker error is pending after the save phase",
                   "the parallel driver can return Ok without inspecting the errors collected by the save phase", par.where(s_))


# ---- R5 -----------------------------------------------------------------------------------------------------
def exit_blocks(fn):
    out = {}
    for bb, t in fn.calls():
        c = callee_of(t)
        if c.get("rpath") in ("std::process::exit",):
            out[bb] = df.operand_expr(fn, t["args"][0])
        elif c.get("rpath") == "std::process::abort":
            out[bb] = ("abort",)
    return out


def r5(ck, main, cmd_push, seq, par):
    rule = "C05-R5"
    runs = calls_named(main, "rapidquilt::cmd::run")
    if not ck.require(len(runs) == 1, rule, "main calls cmd::run once", "main calls cmd::run %d times" % len(runs), main.where()):
        return
    bb, t, c = runs[0]
    # exit status as a function of run's result, by reachability under assumptions (pathconst): whatever the spelling - a match with
    # three arms, a flag computed from the result and tested once, early exits - Err and Ok(false) end in process::exit(1) on every
    # path, Ok(true) returns normally
    from .. import pathconst
    exits = exit_blocks(main)
    rets = set(cfg.exits(main))
    res_locals = set(df.operand_trace(main, {"k": "copy", "pl": t["dest"]})) | {t["dest"]["l"]}

    def scenario(variant_name, payload):
        def variant(e, adt):
            if (adt or "").endswith("result::Result") and df.mentions(e, lambda x: df.is_call(x, "rapidquilt::cmd::run")) or \
                    (isinstance(e, tuple) and e and e[0] == "local" and e[1] in res_locals):
                return variant_name
            return None

        def atom(e):
            if isinstance(e, tuple) and e and e[0] == "field" and e[2] == 0 and isinstance(e[1], tuple) and e[1][0] == "downcast" and e[1][2] == "Ok" and \
                    df.mentions(e[1][1], lambda x: df.is_call(x, "rapidquilt::cmd::run")):
                return payload
            return None
        return pathconst.reach_under(main, atom, variant)
    for label, vn, pl_ in (("Err", "Err", None), ("Ok(false)", "Ok", False)):
        r = scenario(vn, pl_)
        ends = [b for b in r if not [x for x in main.succs(b) if not main.blocks[x]["cleanup"]] and main.blocks[b]["term"]["k"] != "unreachable"]
        bad = [b for b in ends if b in rets or b not in exits or exits[b] != ("const", 1, "i32")]
        ck.require(bool(ends) and not bad, rule, "%s%s of run: main exits with status 1" % (label, " arm" if label == "Err" else ""),
                   "when run returns %s main can %s" % (label, "return normally (status 0)" if any(b in rets for b in bad) else "end without process::exit(1) (bb%s)" % bad),
                   main.where(), ok_detail="every path ends in process::exit(1)")
    r = scenario("Ok", True)
    ck.require(bool(r & rets) and not (set(exits) & r), rule, "Ok(true) of run: main returns normally (status 0)",
               "when run returns Ok(true) main reaches process::exit or never returns", main.where())
    # cmd_push: Ok(skipped_patches == 0) of the driver result
    oks = []
    for bb_, idx, s in cmd_push.stmts():
        if s["k"] == "assign" and s["lhs"]["l"] == 0 and "p" not in s["lhs"] and s["rv"]["k"] == "agg" and s["rv"].get("variant") == "Ok":
            oks.append((bb_, s))
    final = []
    for bb_, s in oks:
        e = df.operand_expr(cmd_push, s["rv"]["ops"][0])
        if e == ("const", 1, "bool"):
            continue    # "nothing to do" early return, see C09/C17
        final.append((s, e))
    ck.floor(rule, "computed Ok(..) returns of cmd_push", len(final), 1)
    for s, e in final:
        good = isinstance(e, tuple) and e[0] == "bin" and e[1] == "Eq" and \
            isinstance(e[2], tuple) and e[2][0] == "field" and e[2][2] == "skipped_patches" and e[3] == ("const", 0, "usize")
        ck.require(good, rule, "cmd_push returns Ok(skipped_patches == 0)", "cmd_push returns Ok(%s)" % df.show(e), cmd_push.where(s))
    # drivers: applied = count, skipped = len - count
    for fn in (seq, par):
        cl, agg = applied_count_local(fn)
        if agg is None:
            ck.violate(rule, "ApplyResult construction in %s" % fn.id, "no ApplyResult aggregate found", fn.where())
            continue
        fields = agg["rv"]["fields"]
        a = df.operand_expr(fn, agg["rv"]["ops"][fields.index("applied_patches")])
        k = df.operand_expr(fn, agg["rv"]["ops"][fields.index("skipped_patches")])
        good = isinstance(k, tuple) and k[0] == "bin" and k[1] in ("Sub", "SubWithOverflow") and k[3] == a and \
            df.mentions(k[2], lambda x: isinstance(x, tuple) and x[0] == "field" and x[2] == "series_patches")
        # with overflow checks the subtraction is (SubWithOverflow(..)).0
        if not good and isinstance(k, tuple) and k[0] == "field" and isinstance(k[1], tuple) and k[1][0] == "bin":
            kk = k[1]
            good = kk[1].startswith("Sub") and kk[3] == a and df.mentions(kk[2], lambda x: isinstance(x, tuple) and x[0] == "field" and x[2] == "series_patches")
        ck.require(good, rule, "skipped = len(series) - applied in %s" % fn.name if fn.name else fn.id,
                   "ApplyResult{applied: %s, skipped: %s}" % (df.show(a), df.show(k)), fn.where(agg))
