"""C08  quilt metadata is exact (DESIGN §4 C08)."""
from .. import cfg, dataflow as df, guards, pathconst, patterns as pt
from ..common import A, calls_named, dry_run_guards, arg_by_name
from ..facts import callee_of
from . import c04

LEVEL = "other"
EXPLANATION = (
    "Decides: (R1) backup-mode gating under the path constants do_backups x dry_run for both drivers — `never` and --dry-run never "
    "reach the backup writer, `always` does, `onfail` only on the edge where the applied count differs from the series length; (R2) "
    "the two drivers agree: the guards of the backup call and the computation of the backup window (down_to_index), normalised to "
    "expressions over config fields and the applied count, are identical; (R3) the window subtraction is guarded against underflow; "
    "(R4) for a rename both names are backed up; (R5) the backup is written from the state returned by ModifiedFiles::rollback for "
    "that very PatchStatus, iterating in reverse, after the modified files were saved; (R6) applied-patches is appended by a forward "
    "loop over the applied prefix. (R9) a backup file is opened emptying it, on every path of save_backup_file that returns normally. Not decided: that the bytes and modes under .pc/ equal the pre-patch ones for every chain of patches."
)
LEVEL_NOTE = "Undecided: byte/mode equality of the backups with the pre-patch state (content level)."

DO_BACKUPS = "rapidquilt::apply::ApplyConfigDoBackups"


def mode_guards(fn):
    """Bool switches testing `config.do_backups == <variant>`: [{bb, variant, true_edge, false_edge}] (edges w.r.t. equality)."""
    out = []
    for bb, t in fn.terms():
        if t["k"] != "switch" or t["dty"] != "bool":
            continue
        e, neg = guards.switch_cond(fn, bb)
        if not (isinstance(e, tuple) and e[0] == "call" and e[1].endswith(("PartialEq>::eq", "PartialEq>::ne", "PartialEq::eq", "PartialEq::ne")) and len(e[2]) == 2):
            continue
        var = None
        fld = False
        for a in e[2]:
            pv = guards.promoted_value(fn, a)
            if pv and pv[0] == "enum" and pv[1] == DO_BACKUPS:
                var = pv[2]
            if isinstance(a, tuple) and a[0] == "field" and a[2] == "do_backups":
                fld = True
        if var is None or not fld:
            continue
        f, tr = guards.bool_edges(fn, bb)
        if neg:
            f, tr = tr, f
        if e[1].endswith("::ne"):
            f, tr = tr, f
        out.append({"bb": bb, "variant": var, "true_edge": (bb, tr), "false_edge": (bb, f)})
    return out


def mode_matches(fn):
    """`match config.do_backups { .. }`: discriminant switches on the backup mode."""
    return pt.discr_switches(fn, lambda e, rv: (rv.get("adt") or "") == DO_BACKUPS and isinstance(e, tuple) and e[0] == "field" and e[2] == "do_backups")


def prune_for_mode(fn, mode):
    """CFG edges that are never taken when config.do_backups == mode (equality tests and matches on the mode)."""
    dis = set()
    for g in mode_guards(fn):
        if g["variant"] == mode:
            dis.add(g["false_edge"])
        else:
            dis.add(g["true_edge"])
    for sw in mode_matches(fn):
        named = set()
        for var, edge in sw["edges"].items():
            named.add(edge)
            if var != mode:
                dis.add(edge)
        # the otherwise edge stands for the variants that have no arm of their own
        if sw["otherwise"] not in named and mode not in (sw.get("rest") or []):
            dis.add(sw["otherwise"])
        # an edge shared by the selected variant and others must stay
        if mode in sw["edges"]:
            dis.discard(sw["edges"][mode])
    return dis


def gate_atom(fn, finals, mode, dry, stopped):
    def atom(e):
        if isinstance(e, tuple) and e[0] == "field" and e[2] == "dry_run":
            return dry
        if isinstance(e, tuple) and e[0] == "call" and e[1].endswith(("PartialEq>::eq", "PartialEq>::ne", "PartialEq::eq", "PartialEq::ne")) and len(e[2]) == 2:
            var, fld = None, False
            for a in e[2]:
                pv = guards.promoted_value(fn, a)
                if pv and pv[0] == "enum" and pv[1] == DO_BACKUPS:
                    var = pv[2]
                if isinstance(a, tuple) and a[0] == "field" and a[2] == "do_backups":
                    fld = True
            if var is not None and fld:
                return (mode == var) if e[1].endswith("::eq") else (mode != var)
        if isinstance(e, tuple) and e[0] == "bin" and e[1] in ("Ne", "Eq", "Lt", "Gt", "Le", "Ge"):
            a, b = e[2], e[3]
            is_final = lambda x: isinstance(x, tuple) and x[0] in ("local", "param") and x[1] in finals
            is_len = lambda x: df.is_call(x, "::len") and df.mentions(x, lambda y: isinstance(y, tuple) and y[0] == "field" and y[2] == "series_patches")
            if is_final(a) and is_len(b):      # final OP len, with final <= len always
                return {"Ne": stopped, "Eq": not stopped, "Lt": stopped, "Ge": not stopped, "Le": True, "Gt": False}[e[1]]
            if is_len(a) and is_final(b):
                return {"Ne": stopped, "Eq": not stopped, "Gt": stopped, "Le": not stopped, "Ge": True, "Lt": False}[e[1]]
        return None
    return atom


def gate_variant(mode):
    def variant(e, adt):
        if adt == DO_BACKUPS and isinstance(e, tuple) and e[0] == "field" and e[2] == "do_backups":
            return mode
        return None
    return variant


def window_function(fn, arg, finals):
    """{(kind, applied, n): down_to_index} - the value handed to the backup rollback as a function of the applied count and of
    --backup-count, read as a term (if-then-else / match on the count / saturating_sub / max ...) and tabulated on a grid."""
    from .. import seqmodel
    e = df.operand_expr(fn, arg)
    m = seqmodel.Model([("F", lambda x: isinstance(x, tuple) and x[0] in ("local", "param") and x[1] in finals),
                        ("N", lambda x: isinstance(x, tuple) and x[0] == "field" and x[2] == 0 and isinstance(x[1], tuple) and x[1][0] == "downcast" and x[1][2] == "Last")],
                       fn=fn, enumsyms=[("K", lambda x: isinstance(x, tuple) and x[0] == "field" and x[2] == "backup_count")])
    out = {}
    try:
        for kind in ("All", "Last"):
            for f in range(0, 5):
                for n in range(0, 6):
                    out[(kind, f, n if kind == "Last" else 0)] = m.val(e, {"F": f, "N": n, "K": kind})
    except seqmodel.Unsupported as ex:
        return None
    return out


def applied_count_names(fn):
    """Locals standing for the applied count: `final_patch` (local in the sequential driver, parameter in the worker)."""
    return {l for l, nm in fn.names.items() if nm == "final_patch"}


def canon(fn, e, finals):
    def go(x):
        if isinstance(x, tuple) and x:
            if x[0] in ("local", "param") and x[1] in finals:
                return ("sym", "FINAL")
            if x[0] == "param" and x[2] == "config":
                return ("sym", "config")
            if x[0] == "local" and x[2] == "config":
                return ("sym", "config")
            if x[0] == "constitem" and x[2] is not None:
                pv = guards.promoted_value(fn, x)
                return ("sym", "%s" % (pv,))
            return tuple(go(y) if isinstance(y, tuple) else y for y in x)
        return x
    return df.show(go(e), 400)


def dominating_guards(fn, bb, finals):
    """Canonical (condition, edge-taken) pairs of the bool switches / backup_count matches that dominate bb."""
    out = set()
    for gbb, t in fn.terms():
        if t["k"] != "switch":
            continue
        if t["dty"] == "bool":
            e, neg = guards.switch_cond(fn, gbb)
            f, tr = guards.bool_edges(fn, gbb)
            if neg:
                f, tr = tr, f
            if isinstance(e, tuple) and e[0] == "call" and "Verbosity" in str(e):
                continue
            for val, edge in (("true", (gbb, tr)), ("false", (gbb, f))):
                if bb in cfg.dominated_by_edge(fn, edge):
                    out.add("%s is %s" % (canon(fn, e, finals), val))
    for sw in pt.discr_switches(fn, lambda e, rv: (rv.get("adt") or "").endswith("ApplyConfigBackupCount")):
        for v, edge in sw["edges"].items():
            if bb in cfg.dominated_by_edge(fn, edge):
                out.add("%s is %s" % (canon(fn, sw["expr"], finals), v))
    return out


def run(ck):
    prog, cg = ck.prog, ck.cg
    seq = ck.anchor(A["seq"])
    worker = ck.anchor(A["save_worker"])
    rb = ck.anchor("rollback_and_save_backup_files")
    if None in (seq, worker, rb):
        return
    drivers = [(seq, "sequential driver"), (worker, "parallel save worker")]
    summaries = {}
    windows = {}
    for fn, label in drivers:
        calls = calls_named(fn, "rollback_and_save_backup_files")
        if not ck.require(len(calls) == 1, "C08-R1", "one backup call in the %s" % label, "%d calls" % len(calls), fn.where()):
            continue
        bb, t, c = calls[0]
        finals = applied_count_names(fn)
        ck.floor("C08-R1", "tests of config.do_backups in the %s" % label, len(mode_guards(fn)) + 2 * len(mode_matches(fn)), 2)
        # the gating truth table over (mode, dry_run, stopped early), by reachability under assumptions (pathconst): it does not matter
        # whether the code tests the mode with ==, with a match, through a flag, or returns early on the negation
        table = {}
        for mode in ("Always", "OnFail", "Never"):
            for dry in (False, True):
                for stopped in (False, True):
                    table[(mode, dry, stopped)] = bb in pathconst.reach_under(fn, gate_atom(fn, finals, mode, dry, stopped), gate_variant(mode))
        want = {(m, d, st): (not d and (m == "Always" or (m == "OnFail" and st))) for m in ("Always", "OnFail", "Never") for d in (False, True) for st in (False, True)}
        for mode in ("Always", "OnFail", "Never"):
            ck.require(not table[(mode, True, False)] and not table[(mode, True, True)], "C08-R1", "%s: --backup %s with --dry-run writes no backup" % (label, mode.lower()),
                       "the backup writer is reachable with dry_run = true", fn.where(t))
        ck.require(not table[("Never", False, False)] and not table[("Never", False, True)], "C08-R1", "%s: --backup never writes no backup" % label,
                   "the backup writer is reachable with do_backups = Never", fn.where(t))
        ck.require(table[("Always", False, False)] and table[("Always", False, True)], "C08-R1", "%s: --backup always reaches the backup writer" % label,
                   "the backup writer is unreachable with do_backups = Always", fn.where(t))
        ck.require(table[("OnFail", False, True)], "C08-R1", "%s: --backup onfail can reach the backup writer" % label,
                   "the backup writer is unreachable with do_backups = OnFail after a push that stopped early", fn.where(t))
        ck.require(not table[("OnFail", False, False)], "C08-R1", "%s: onfail backups only when the push stopped early" % label,
                   "with do_backups = OnFail the backup writer is reachable although every patch of the series applied", fn.where(t))
        gset = dominating_guards(fn, bb, finals)
        arg = t["args"][1]
        pl = pt.trace_place(fn, arg)
        defs = []
        if pl is not None and "p" not in pl:
            for dd in df.defs_of(fn).all(pl["l"]):
                if dd[0] == "stmt":
                    val = canon(fn, df.rvalue_expr(fn, dd[3]["rv"]), finals)
                    defs.append((val, frozenset(dominating_guards(fn, dd[1], finals) - gset)))
        summaries[label] = (table, set(defs))
        windows[label] = window_function(fn, arg, finals)
        # ---- R3
        for dd in (df.defs_of(fn).all(pl["l"]) if pl is not None and "p" not in pl else []):
            if dd[0] != "stmt":
                continue
            e = df.rvalue_expr(fn, dd[3]["rv"])
            sub = [x for x in df.walk(e) if isinstance(x, tuple) and x[0] == "bin" and x[1].startswith("Sub")]
            for sx in sub:
                a, b = sx[2], sx[3]
                okg = False
                for gbb, gt in fn.terms():
                    if gt["k"] != "switch" or gt["dty"] != "bool":
                        continue
                    ce, neg = guards.switch_cond(fn, gbb)
                    if not (isinstance(ce, tuple) and ce[0] == "bin"):
                        continue
                    f, tr = guards.bool_edges(fn, gbb)
                    if neg:
                        f, tr = tr, f
                    edge = None
                    if ce[1] in ("Gt", "Ge") and ce[2] == a and ce[3] == b:
                        edge = (gbb, tr)
                    elif ce[1] in ("Lt", "Le") and ce[2] == b and ce[3] == a:
                        edge = (gbb, tr)
                    elif ce[1] in ("Lt",) and ce[2] == a and ce[3] == b:
                        edge = (gbb, f)
                    elif ce[1] in ("Le",) and ce[2] == a and ce[3] == b:
                        edge = None
                    if edge and dd[1] in cfg.dominated_by_edge(fn, edge):
                        okg = True
                ck.require(okg, "C08-R3", "%s: backup window subtraction cannot underflow" % label,
                           "%s is not dominated by a test that the minuend is not smaller" % df.show(sx, 80), fn.where(dd[3]),
                           ok_detail="%s guarded" % df.show(sx, 60))
        # ---- R5c: backups after the save
        saves = calls_named(fn, "ModifiedFiles::<'arena, 'config>::save")
        ck.require(bool(saves) and all(cfg.dominates(fn, sb, bb) for sb, st, sc in saves), "C08-R5", "%s: backups are written after the modified files" % label,
                   "ModifiedFiles::save does not dominate the backup rollback", fn.where(t))
    # ---- R2
    if len(summaries) == 2:
        (g1, d1), (g2, d2) = summaries["sequential driver"], summaries["parallel save worker"]
        diff = sorted(k for k in g1 if g1[k] != g2.get(k))
        want = {(m, d, st): (not d and (m == "Always" or (m == "OnFail" and st))) for m in ("Always", "OnFail", "Never") for d in (False, True) for st in (False, True)}
        ck.require(g1 == g2, "C08-R2", "both drivers gate the backup phase identically",
                   "backups written? differs for (mode, dry_run, stopped early) in %s" % diff, seq.where(),
                   ok_detail="12-row truth table over (mode, dry_run, stopped early) agrees")
        ck.require(g1 == want, "C08-R2", "gating truth table matches the documented modes",
                   "rows that differ from always / onfail-and-stopped / never: %s" % sorted(k for k in g1 if g1[k] != want[k]), seq.where())
        w1, w2 = windows.get("sequential driver"), windows.get("parallel save worker")
        same = w1 is not None and w2 is not None and w1 == w2
        ck.require(same, "C08-R2", "both drivers compute the backup window identically",
                   "first patch backed up as a function of (applied count, --backup-count): sequential %s, parallel %s" % (w1, w2), seq.where(),
                   ok_detail="down_to_index agrees on all %d sampled (applied count, backup count) pairs, e.g. %s" % (len(w1 or ()), sorted((w1 or {}).items())[:4]))
        expect = {k: (0 if k[0] == "All" else max(k[1] - k[2], 0)) for k in (w1 or {})}
        ck.require(w1 == expect and bool(w1), "C08-R2", "backup window = the last N applied patches (all of them for 'all')",
                   "down_to_index differs from max(applied - N, 0): %s" % sorted((k, v, expect.get(k)) for k, v in (w1 or {}).items() if expect.get(k) != v)[:4], seq.where())

    # ---- R4 / R5 in rollback_and_save_backup_files
    sb = calls_named(rb, "rapidquilt::apply::common::save_backup_file")
    ck.floor("C08-R4", "save_backup_file calls in rollback_and_save_backup_files", len(sb), 2)
    rcalls = calls_named(rb, "ModifiedFiles::<'arena, 'config>::rollback")
    ck.floor("C08-R5", "ModifiedFiles::rollback calls in rollback_and_save_backup_files", len(rcalls), 1)
    g = guards.find_bool_guards(rb, lambda e: df.is_call(e, "::is_rename"))
    if ck.require(len(g) >= 1, "C08-R4", "the backup loop tests is_rename", "no branch on is_rename()", rb.where()):
        second = []
        for bb, t, c in sb:
            e = df.operand_expr(rb, arg_by_name(prog, t, "filename", 2))
            if df.mentions(e, lambda x: df.is_call(x, "::new_filename")):
                second.append(bb)
        for gg in g:
            tgt = gg["true_edge"][1]
            loop = cfg.innermost_loop_of(rb, gg["bb"])
            r = cfg.reachable(rb, [tgt], blocked=set(second))
            escapes = [b for b in cfg.exits(rb) if b in r] + ([loop[0]] if loop and loop[0] in r else [])
            # `?` error exits are fine
            err_blocks = {b for b, t2 in rb.calls() if t2["dest"]["l"] == 0 and (callee_of(t2).get("path") or "").endswith("from_residual")}
            r2 = cfg.reachable(rb, [tgt], blocked=set(second) | err_blocks)
            escapes = [b for b in cfg.exits(rb) if b in r2] + ([loop[0]] if loop and loop[0] in r2 else [])
            ck.require(bool(second) and not escapes, "C08-R4", "a rename backs up the new name as well",
                       "on the is_rename path the loop can continue without a backup whose name derives from new_filename()", rb.where(),
                       ok_detail="every is_rename path crosses save_backup_file(new_filename)")
    # first backup: the state returned by rollback for this very PatchStatus, named by target_filename
    for bb, t, c in sb:
        name = df.operand_expr(rb, arg_by_name(prog, t, "filename", 2))
        filee = df.operand_expr(rb, arg_by_name(prog, t, "original_file", 3))
        if df.mentions(name, lambda x: df.is_call(x, "::new_filename")):
            continue
        good_name = isinstance(name, tuple) and name[0] == "field" and name[2] == "target_filename"
        ck.require(good_name, "C08-R5", "backup named after the patched file", "backup file name is %s" % df.show(name, 100), rb.where(t))
        rolled = df.is_call(filee, "ModifiedFiles::<'arena, 'config>::rollback") or df.mentions(filee, lambda x: df.is_call(x, "ModifiedFiles::<'arena, 'config>::rollback"))
        same = False
        if rolled and good_name:
            rc = [x for x in df.walk(filee) if df.is_call(x, "ModifiedFiles::<'arena, 'config>::rollback")][0]
            same = rc[2][1] == name[1]
        ck.require(rolled and same, "C08-R5", "backup content is the rolled-back state of that file patch",
                   "save_backup_file gets %s for the patch status %s" % (df.show(filee, 120), df.show(name, 60)), rb.where(t),
                   ok_detail="file = ModifiedFiles::rollback(applied_patch)")
        pn = df.operand_expr(rb, arg_by_name(prog, t, "patch_filename", 1))
        ck.require(isinstance(pn, tuple) and pn[0] == "field" and pn[2] == "patch_filename" and (not good_name or pn[1] == name[1]), "C08-R5",
                   "backup filed under the patch that is being undone", "backup directory is %s" % df.show(pn, 80), rb.where(t))
    # every state obtained by a rollback in the backup loop is written: a conditional skip would keep a later state of a file
    # that a patch touches through several entries (the last write in reverse order is the one before the first entry)
    named = [bb for bb, t, c in sb if not df.mentions(df.operand_expr(rb, arg_by_name(prog, t, "filename", 2)), lambda x: df.is_call(x, "::new_filename"))]
    err_blocks = {b for b, t2 in rb.calls() if t2["dest"]["l"] == 0 and (callee_of(t2).get("path") or "").endswith("from_residual")}
    for bb, t, c in rcalls:
        loop = cfg.innermost_loop_of(rb, bb)
        if not loop:
            ck.violate("C08-R5", "backup rollback outside a loop", "ModifiedFiles::rollback is not inside the backup loop", rb.where(t))
            continue
        r = cfg.reachable(rb, [x for x in rb.succs(bb)], blocked=set(named) | err_blocks)
        skipped = loop[0] in r or any(b in r for b in cfg.exits(rb))
        ck.require(bool(named) and not skipped, "C08-R5", "every rolled-back state is written as a backup",
                   "after ModifiedFiles::rollback the loop can continue without save_backup_file for that file patch: a patch with several "
                   "entries for one file would keep the state between its entries as 'backup'", rb.where(t),
                   ok_detail="every path from the rollback to the next iteration crosses save_backup_file")
    # reverse order (shared with C04-R3) and window stop
    c04.r3_lifo(ck, rule="C08-R5")
    # ---- R6
    from . import c09
    sap = prog.one(A["save_applied"])
    its = pt.iterations(sap, prog)
    fw = [it for it in its if "core::slice::iter::Iter<" in it["iter_ty"] and it["forward"]]
    ck.require(len(fw) == 1 and len(its) == 1, "C08-R6", "applied names appended in series order",
               "the log writer iterates %s" % [(it["kind"], it["iter_ty"]) for it in its], sap.where())
    # ---- R7: a backup is what the rollback restores - mode and existence included (shared with C04-R1) ----------------------------------
    from .c18 import ck_alias
    c04.r1_fields_restored(ck_alias(ck, "C08-R7"))
    r9_backup_is_written_afresh(ck)
    # .pc/applied-patches lists everything applied so far only if each push *appends* its names (C09-R1: how the log is opened)
    from . import c09 as _c09
    from ..framework import RuleAlias as _RA
    _c09.run(_RA(ck, lambda r: "C08-R10" if r == "C09-R1" else None))
    # the undo re-inserts the hunk's own lines; that restores the file only because a hunk is placed solely where the file's lines
    # equal them byte for byte (the comparison of the trial, C02-R4) - a backup is the rolled-back state; it equals the pre-patch file only if that holds
    from . import c02 as _c02
    from .c18 import ck_alias as _alias
    _c02.r4(_alias(ck, "C08-R8"))


def r9_backup_is_written_afresh(ck, rule="C08-R9"):
    """A backup file can be written more than once in a push (a patch with several sections for one file: the state before the first
    section is written last, over the intermediate ones) and can be left over from an earlier push.  Its content is the new content
    only if the file is emptied when it is opened: `File::create`, or an OpenOptions chain with truncate(true) / create_new(true)."""
    from ..common import open_chain_flags
    prog = ck.prog
    sb = ck.anchor("rapidquilt::apply::common::save_backup_file")
    if sb is None:
        return
    n = 0
    for fn in [sb] + prog.closures_of(sb):
        for bb, t in fn.calls():
            rp = callee_of(t).get("rpath") or ""
            if fn.blocks[bb]["cleanup"]:
                continue
            if rp in ("std::fs::File::create", "std::fs::File::create_new", "std::fs::write"):
                n += 1
                ck.ok(rule, "%s in %s" % (rp.split("::")[-1], fn.id.split("::")[-1]), "empties / creates the file", fn.where(t))
            elif rp == "std::fs::OpenOptions::open":
                n += 1
                d = open_chain_flags(fn, t)
                good = d is not None and (d.get("truncate") == [1] or d.get("create_new") == [1])
                ck.require(good, rule, "OpenOptions::open in %s" % fn.id.split("::")[-1],
                           "the backup file is opened for writing with %s - neither truncate(true) nor create_new(true): when it exists already "
                           "(written for a later section of the same patch, or left by an earlier push) and the new content is shorter, the old "
                           "tail stays" % (sorted(d) if d else "an option chain that cannot be followed"), fn.where(t), ok_detail="truncating open")
            elif rp in ("std::fs::File::options", "std::fs::File::open"):
                pass
    ck.floor(rule, "places where a backup file is opened for writing", n, 1)
    # ... and it is written every time: no way through save_backup_file to a normal return goes round the write (an early "it is there
    # already, keep it" return keeps the state between two sections of one patch, or the file of an earlier push)
    OPENERS = ("std::fs::File::create", "std::fs::File::create_new", "std::fs::write", "std::fs::OpenOptions::open")
    def opens(fn_, depth=3):
        if any((callee_of(t_).get("rpath") or "") in OPENERS and not fn_.blocks[b_]["cleanup"] for b_, t_ in fn_.calls()):
            return True
        return depth > 0 and any(opens(c_, depth - 1) for c_ in prog.closures_of(fn_))
    write_bbs = set()
    for bb, t in sb.calls():
        if sb.blocks[bb]["cleanup"]:
            continue
        if (callee_of(t).get("rpath") or "") in OPENERS:
            write_bbs.add(bb)
        for a in t["args"]:
            e = df.operand_expr(sb, a)
            if isinstance(e, tuple) and e and e[0] == "closure" and e[1] in prog.fns and opens(prog.fns[e[1]]):
                write_bbs.add(bb)
    from .c05 import _is_error_exit
    ok = bool(write_bbs) and all(cfg.must_pass(sb, 0, ex, write_bbs, after_src=False) or _is_error_exit(sb, 0, ex, write_bbs) for ex in cfg.exits(sb))
    ck.require(ok, rule, "save_backup_file writes the backup on every path that returns normally",
               "save_backup_file can return Ok without having opened the backup file for writing: a backup that is there already (the state "
               "between two sections of one patch - written first because backups are taken while undoing, newest first - or the file of an "
               "earlier push) is kept in place of the state before the patch", sb.where(), ok_detail="no normal return goes round the write")
