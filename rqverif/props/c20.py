"""C20  raising the fuzz limit never changes a push that already succeeded (DESIGN §4 C20)."""
from .. import cfg, dataflow as df, guards, patterns as pt
from ..common import is_min_path, A, calls_named, APPLY_CONFIG
from ..facts import callee_of
from . import c02

LEVEL = "proof"
EXPLANATION = (
    "Argument: if (i) each trial of a hunk at level l is a function of (hunk, direction, l, file content, previous offset, frozen "
    "line) only, (ii) levels are tried in the order 0,1,2,.. up to min(F, usable context) and (iii) the first success ends the "
    "trials, then by induction over hunks a file patch that applies completely under F yields the same reports and content under "
    "any F' > F. The rules establish the premises: (R1) the limit parameter is used only as the bound of the level range, forwarded "
    "unchanged, or stored in the report (whose file-level fuzz is read only by diagnostics); (R2) order and first success (= C02-R1); "
    "(R3) the trial functions take no &mut, touch no statics and call nothing outside core/alloc/itertools and themselves; (R4) "
    "--fuzz reaches the engine unchanged (default constant 0)."
)
LEVEL_NOTE = "Assumes determinism of std slices/iterators and itertools::interleave."

PURE_ROOTS = ("libpatch::patch::try_apply_hunk", "Hunk::<'a, Line>::view", "HunkView::<'a, 'hunk, Line>::new")
PURE_CRATES = ("core", "alloc", "itertools", "libpatch", "std")
REPORT_CTORS = ("FilePatchApplyReport::new_with_capacity", "FilePatchApplyReport::single_hunk_success",
                "FilePatchApplyReport::single_hunk_failure", "FilePatchApplyReport::single_hunk_skip")
APPLY_FNS = ("FilePatch::<'a, &'a [u8]>::apply", "FilePatch::<'a, &'a [u8]>::apply_internal", "FilePatch::<'a, &'a [u8]>::apply_modify",
             "FilePatch::<'a, &'a [u8]>::apply_create", "FilePatch::<'a, &'a [u8]>::apply_delete")


def forward_copies(fn, start):
    """Locals that hold a plain copy of local `start` - directly, or carried through a tuple ((a, b) = (.., x); y = pair.1)."""
    s = {start}
    fields = set()      # (tuple local, index) holding the value
    changed = True
    while changed:
        changed = False
        for bb, idx, st in fn.stmts():
            if st["k"] != "assign" or "p" in st["lhs"]:
                continue
            rv = st["rv"]
            lhs = st["lhs"]["l"]
            if rv["k"] == "use" and rv["op"].get("k") in ("copy", "move"):
                pl = rv["op"]["pl"]
                ps = pl.get("p", [])
                if not ps and pl["l"] in s and lhs not in s:
                    s.add(lhs)
                    changed = True
                if len(ps) == 1 and isinstance(ps[0], dict) and "f" in ps[0] and (pl["l"], ps[0]["f"]) in fields and lhs not in s:
                    s.add(lhs)
                    changed = True
                if not ps:
                    for (tl, i) in list(fields):
                        if tl == pl["l"] and (lhs, i) not in fields:
                            fields.add((lhs, i))
                            changed = True
            elif rv["k"] == "agg" and rv.get("ak") == "tuple":
                for i, o in enumerate(rv["ops"]):
                    if o.get("k") in ("copy", "move") and "p" not in o["pl"] and o["pl"]["l"] in s and (lhs, i) not in fields:
                        fields.add((lhs, i))
                        changed = True
    return s


def param_index(fn, name):
    for i in range(1, fn.arg_count + 1):
        if fn.local_name(i) == name:
            return i
    return None


def r1(ck):
    prog = ck.prog
    rule = "C20-R1"
    fns = []
    for suf in APPLY_FNS:
        f = ck.anchor(suf)
        if f is not None:
            fns.append(f)
    nuse = 0
    for fn in fns:
        pi = param_index(fn, "fuzz")
        if pi is None:
            ck.violate(rule, "anchor:fuzz parameter of %s" % fn.id, "reason=anchor no parameter named fuzz")
            continue
        held = forward_copies(fn, pi)
        for bb, idx, st in fn.stmts():
            if st["k"] != "assign":
                continue
            rv = st["rv"]
            used = [l for l in df._rv_locals(rv) if l in held]
            if not used:
                continue
            if rv["k"] == "use" and "p" not in st["lhs"]:
                continue    # plain copy
            nuse += 1
            ck.violate(rule, "use of the fuzz limit in %s: %s" % (fn.id, rv["k"] + ":" + str(rv.get("op", ""))[:20]),
                       "the fuzz limit flows into %s: the outcome of a trial would depend on the limit, not only on the level" % df.show(df.rvalue_expr(fn, rv), 100),
                       fn.where(st))
        for bb, t in fn.terms():
            if t["k"] == "switch" and any(l in held for l in df._operand_locals(t["discr"])):
                nuse += 1
                ck.violate(rule, "branch on the fuzz limit in %s" % fn.id, "control flow depends on the fuzz limit", fn.where(t))
            if t["k"] != "call":
                continue
            for ai, a in enumerate(t["args"]):
                if not any(l in held for l in df._operand_locals(a)):
                    continue
                nuse += 1
                c = callee_of(t)
                rp = c.get("rpath") or ""
                inst = "fuzz limit passed to %s (arg %d) in %s" % (rp.split("::")[-1], ai, fn.name)
                ok = False
                why = ""
                callee_fn = prog.fns.get(rp)
                if callee_fn is not None and any(rp.endswith(s) for s in APPLY_FNS):
                    ok = callee_fn.local_name(ai + 1) == "fuzz"
                    why = "forwarded as the callee's own `fuzz` parameter"
                elif any(rp.endswith(s) for s in REPORT_CTORS):
                    ok = callee_fn is not None and callee_fn.local_name(ai + 1) == "fuzz"
                    why = "recorded in the report"
                elif is_min_path(rp) or is_min_path(c.get("path")):
                    # the result must flow only into the end of the level range
                    dest = t["dest"]["l"]
                    dheld = forward_copies(fn, dest)
                    uses = []
                    for b2, t2 in fn.calls():
                        for aj, a2 in enumerate(t2["args"]):
                            if any(l in dheld for l in df._operand_locals(a2)):
                                uses.append((callee_of(t2).get("rpath") or "", aj))
                    ok = uses == [("core::ops::range::RangeInclusive::<Idx>::new", 1)]
                    why = "bounds the level range: uses of min(..) = %s" % uses
                ck.require(ok, rule, inst, "the fuzz limit is passed to %s: %s" % (rp, why or "not an allowed use"), fn.where(t), ok_detail=why)
    ck.floor(rule, "uses of the fuzz limit", nuse, 6)
    # every view is built at a level that was drawn from the level range (normal mode) or recorded in a report (rollback / splice):
    # a view built at the limit itself would make anchoring and trimming depend on the limit
    nview = 0
    scope_fns = [f for f in prog.fns.values() if f.crate == "libpatch" and "::patch::" in f.id and "::unified::" not in f.id]
    for fn in scope_fns:
        for bb, t in fn.calls():
            rp = callee_of(t).get("rpath") or ""
            if not (rp.endswith("Hunk::<'a, Line>::view") or rp.endswith("HunkView::<'a, 'hunk, Line>::new")):
                continue
            nview += 1
            e = df.operand_expr(fn, t["args"][2])
            drawn = isinstance(e, tuple) and e[0] == "field" and e[2] == 0 and isinstance(e[1], tuple) and e[1][0] == "downcast" and \
                e[1][2] == "Some" and df.is_call(e[1][1], "RangeInclusive<A>>::next")
            recorded = isinstance(e, tuple) and e[0] == "field" and e[2] == "fuzz" and \
                df.mentions(e, lambda x: isinstance(x, tuple) and x[0] == "downcast" and x[2] == "Applied")
            forwarded = isinstance(e, tuple) and e[0] == "param" and e[2] == "fuzz" and fn.name in ("view", "new")
            ck.require(drawn or recorded or forwarded, rule, "level of the view built in %s" % fn.id,
                       "a HunkView is built at level %s, which is neither the level just drawn from the range nor a recorded per-hunk level: "
                       "its anchoring/trimming would depend on the fuzz limit" % df.show(e, 100), fn.where(t),
                       ok_detail="drawn" if drawn else "recorded" if recorded else "forwarded")
    ck.floor(rule, "HunkView constructions in the engine", nview, 3)
    # the file-level fuzz of a report is read only through its getter, and the getter only by diagnostics
    getter = ck.anchor("libpatch::patch::FilePatchApplyReport::fuzz")
    if getter is not None:
        callers = ck.cg.callers(getter.id)
        bad = [c for c in callers if "::diagnostics::" not in c]
        ck.require(not bad, rule, "recorded limit read only by diagnostics", "FilePatchApplyReport::fuzz() is called from %s" % bad, getter.where(),
                   ok_detail="callers: %s" % callers)
    for fn in prog.fns.values():
        if fn.crate != "libpatch" or fn.impl_trait:
            continue
        for bb, idx, st in fn.stmts():
            if st["k"] != "assign":
                continue
            rv = st["rv"]
            pls = []
            if "pl" in rv:
                pls.append(rv["pl"])
            for key in ("op", "a", "b"):
                if key in rv and isinstance(rv[key], dict) and rv[key].get("k") in ("copy", "move"):
                    pls.append(rv[key]["pl"])
            for pl in pls:
                if any(isinstance(p, dict) and p.get("adt") == "libpatch::patch::FilePatchApplyReport" and p.get("name") == "fuzz" for p in pl.get("p", [])):
                    ck.require(getter is not None and fn.id == getter.id, rule, "read of FilePatchApplyReport.fuzz in %s" % fn.id,
                               "the recorded limit is read outside its getter", fn.where(st))


def r3(ck):
    prog, cg = ck.prog, ck.cg
    rule = "C20-R3"
    roots = []
    for suf in PURE_ROOTS:
        f = ck.anchor(suf)
        if f is not None:
            roots.append(f.id)
    pure = cg.closure(roots)
    ck.count("functions in the trial closure", len(pure))
    ck.floor(rule, "functions in the trial closure", len(pure), 8)
    for fid in sorted(pure):
        fn = prog.fns[fid]
        muts = [fn.local_ty(i) for i in range(1, fn.arg_count + 1) if fn.local_ty(i).startswith("&mut ") and fn.kind != "Closure"]
        ext = set()
        for s in cg.ext[fid]:
            if s.term is None or fn.blocks[s.bb]["cleanup"]:
                continue
            c = callee_of(s.term)
            crate = c.get("crate") or (s.callee.split("::")[0] if s.callee else "?")
            if crate not in PURE_CRATES:
                ext.add(s.callee)
            if callgraph_effect(s.callee):
                ext.add(s.callee)
        statics = []
        for bb, idx, st in fn.stmts():
            if st["k"] == "assign":
                txt = str(st["rv"])
                if "'static mut" in txt or "thread_local" in txt:
                    statics.append(fn.where(st))
        ck.require(not muts and not ext and not statics, rule, "trial function %s is pure" % fid,
                   "mutable parameters %s, foreign callees %s, statics %s" % (muts, sorted(ext), statics), fn.where(),
                   ok_detail="no &mut parameter, callees within core/alloc/itertools/libpatch")


def callgraph_effect(path):
    from ..callgraph import fs_write_kind, EXIT
    return bool(fs_write_kind(path) or EXIT.get(path)) or path.startswith(("std::fs::", "std::io::", "std::env::", "std::time::", "std::process::", "std::thread::", "std::sync::"))


def r4(ck):
    prog = ck.prog
    rule = "C20-R4"
    cmd_push = ck.anchor(A["cmd_push"])
    ao = ck.anchor("apply_one_file_patch")
    if cmd_push is None or ao is None:
        return
    for bb, idx, s in cmd_push.stmts():
        if s["k"] == "assign" and s["rv"]["k"] == "agg" and s["rv"].get("adt") == APPLY_CONFIG:
            fields = s["rv"]["fields"]
            e = df.operand_expr(cmd_push, s["rv"]["ops"][fields.index("fuzz")])
            # the options may reach cmd_push as a struct the caller filled in: look at what the callers put there
            srcs = df.param_field_sources(prog, cmd_push, e) or [(cmd_push, e)]
            # whatever the spelling (combinators, match, if let): the value is either parsed from --fuzz or the constant 0, nothing else
            nodes = []

            def deep(host, x, seen, depth=0):
                for y in df.walk(x):
                    nodes.append(y)
                    if isinstance(y, tuple) and y and y[0] == "local" and (host.id, y[1]) not in seen and depth < 6:
                        seen.add((host.id, y[1]))
                        for dx in df.all_def_exprs(host, y[1]):
                            deep(host, dx, seen, depth + 1)
            for host, x in srcs:
                deep(host, x, set())
            if srcs != [(cmd_push, e)]:
                e = srcs[0][1]
            has_opt = any(df.is_call(x, "getopts::Matches::opt_str") and any(df.is_const(a, "fuzz") for a in x[2]) for x in nodes)
            has_parse = any(df.is_call(x, "::parse") or df.is_call(x, "FromStr>::from_str") or
                            (isinstance(x, tuple) and x and x[0] == "closure") for x in nodes)
            other_opts = [x for x in nodes if df.is_call(x, "getopts::Matches::opt_str") and not any(df.is_const(a, "fuzz") for a in x[2])]
            ints = [x for x in nodes if isinstance(x, tuple) and x and x[0] == "const" and isinstance(x[1], int) and not isinstance(x[1], bool) and x[1] != 0
                    and (len(x) < 3 or x[2] in ("usize", "isize", "u32", "u64", "i32", "i64"))]
            good = has_opt and has_parse and not other_opts and not ints
            others = [x for x in nodes if isinstance(x, tuple) and x and x[0] == "bin" and x[1].replace("WithOverflow", "") in ("Add", "Sub", "Mul", "Div", "Rem", "Shl", "Shr")]
            ck.require(good and not others, rule, "config.fuzz = parsed --fuzz, default 0", "ApplyConfig.fuzz = %s" % df.show(e, 160), cmd_push.where(s),
                       ok_detail=df.show(e, 160))
            # parsed as the type it is used as: a narrower type turns a large limit into a parse error (and that into the default)
            ptys = set()
            for g_ in [h for h, _x in srcs] + [prog.fns[x[1]] for x in nodes if isinstance(x, tuple) and x and x[0] == "closure" and x[1] in prog.fns]:
                for b2, t2 in g_.calls():
                    rp2 = callee_of(t2).get("rpath") or callee_of(t2).get("path") or ""
                    if (rp2.endswith("::parse") or "FromStr" in rp2) and not g_.blocks[b2]["cleanup"] and "Result<" in (t2["dty"] or ""):
                        inner = t2["dty"].split("Result<", 1)[1].split(",")[0].strip()
                        if inner in ("u8", "u16", "u32", "u64", "usize", "i8", "i16", "i32", "i64", "isize"):
                            ptys.add(inner)
            if ptys:
                ck.require(ptys <= {"usize"}, rule, "--fuzz is parsed as usize", "the --fuzz value is parsed as %s: limits beyond that type are "
                           "not limits any more" % sorted(ptys), cmd_push.where(s), ok_detail="parse::<usize>()")
            # the closure that parses it just parses
            for x in df.walk(e):
                if isinstance(x, tuple) and x and x[0] == "closure" and x[1] in prog.fns:
                    cl = prog.fns[x[1]]
                    calls = sorted({callee_of(t).get("rpath") or "" for b2, t in cl.calls()})
                    okc = all(c.endswith("::parse") or c.endswith("Result::<T, E>::ok") or c.endswith("::deref") or c.endswith("::as_str") or "FromStr" in c for c in calls)
                    bins = [st for b2, i2, st in cl.stmts() if st["k"] == "assign" and st["rv"]["k"] == "bin"]
                    ck.require(okc and not bins, rule, "--fuzz value only parsed", "the --fuzz closure calls %s" % calls, cl.where())
    for bb, t, c in calls_named(ao, "FilePatch::<'a, &'a [u8]>::apply"):
        e = df.operand_expr(ao, t["args"][3])
        good = isinstance(e, tuple) and e[0] == "field" and e[2] == "fuzz" and df.mentions(e, lambda x: isinstance(x, tuple) and x[0] == "field" and x[2] == "config")
        ck.require(good, rule, "drivers pass config.fuzz to apply", "apply is given fuzz = %s" % df.show(e, 100), ao.where(t), ok_detail=df.show(e, 100))


def r5_recorded_level_readers(ck):
    """The fuzz recorded in a hunk's report is the level it applied at for modifying patches, but the *limit* for creations and
    deletions (apply_create / apply_delete pass the limit to single_hunk_success).  It is therefore only good for replaying the hunk
    (rollback, splice) and for the -A analysis; any decision of the push taken from it would depend on the limit."""
    prog = ck.prog
    HR = "libpatch::patch::HunkApplyReport"
    readers = {}
    for fn in prog.fns.values():
        k = len([1 for bb, nm in df.adt_field_uses(fn, HR) if nm == "fuzz"])
        if k:
            readers[fn.id] = k
    ok = lambda fid: fid.endswith("FilePatch::<'a, &'a [u8]>::apply_modify") or "libpatch::analysis::" in fid or "::diagnostics::" in fid or \
        fid.startswith("<libpatch::patch::HunkApplyReport as ")
    bad = sorted(f for f in readers if not ok(f))
    # a reader that only shows the value (a summary line, a verbose message): followed through locals, struct fields, calls and returns
    # it reaches nothing but formatted output - no branch, no index, no other function
    from .. import taint
    shown = []
    for f in list(bad):
        sinks = taint.display_only(prog, [], seed_fields={f: {(HR, "fuzz")}})
        if not sinks:
            bad.remove(f)
            shown.append(f)
        else:
            ck.info("C20-R5", "where the recorded level goes in %s" % f, "; ".join("%s (%s)" % (why, fn_.where(node)) for fn_, node, why in sinks[:3]))
    ck.require(not bad and any(f.endswith("apply_modify") for f in readers), "C20-R5", "the level recorded per hunk is read only to replay the hunk",
               "HunkApplyReport::Applied.fuzz is read by %s: for created and deleted files that field holds the fuzz LIMIT, so whatever is "
               "decided from it changes when the limit is raised although the push applied the same way" % bad,
               prog.fns[bad[0]].where() if bad else None,
               ok_detail="readers: %s%s" % (sorted(x.split("::")[-1] for x in readers if x not in shown),
                                           ("; only displayed by %s" % sorted(x.split("::")[-1] for x in shown)) if shown else ""))


def run(ck):
    r1(ck)
    r5_recorded_level_readers(ck)
    c02.r1(ck, rule="C20-R2")
    r3(ck)
    r4(ck)
    r6_every_trial_at_the_limit_is_the_recorded_one(ck)


def r6_every_trial_at_the_limit_is_the_recorded_one(ck, rule="C20-R6"):
    """`FilePatch::apply(.., fuzz)` tries a file patch with everything the limit allows.  Raising the limit can only turn failures into
    successes for the application that counts - but any *other* application at the limit (a probe: "would the reverse apply?", "is it
    applied already?") can come out differently with a higher limit, and whatever is decided on it changes an outcome that used to be
    fine.  Outside the failure diagnostics (presentation only, C14) every call of FilePatch::apply is the application whose report is
    recorded in the PatchStatus of that file patch."""
    prog = ck.prog
    n = 0
    for fn in sorted(prog.fns.values(), key=lambda f: f.id):
        if fn.crate != "rapidquilt" or "::diagnostics::" in fn.id or "/tests/" in fn.file:
            continue
        calls = [(bb, t) for bb, t in fn.calls() if (callee_of(t).get("rpath") or "").endswith("FilePatch::<'a, &'a [u8]>::apply") and not fn.blocks[bb]["cleanup"]]
        if not calls:
            continue
        recorded = set()
        for bb, idx, st in fn.stmts():
            if st["k"] == "assign" and st["rv"]["k"] == "agg" and (st["rv"].get("adt") or "").endswith("PatchStatus") and "report" in (st["rv"].get("fields") or []):
                op = st["rv"]["ops"][st["rv"]["fields"].index("report")]
                recorded |= set(df.operand_trace(fn, op))
        for bb, t in calls:
            n += 1
            ok = "p" not in t["dest"] and t["dest"]["l"] in recorded
            ck.require(ok, rule, "FilePatch::apply in %s is the recorded application" % fn.id.split("::")[-1],
                       "a file patch is applied at the fuzz limit and the report is not the one recorded for it: what is decided on such a probe "
                       "(skip, choose, warn) can change when the limit is raised although the push used to succeed", fn.where(t),
                       ok_detail="its report goes into PatchStatus.report")
    ck.floor(rule, "applications of a file patch outside the diagnostics", n, 1)
