"""C10  --dry-run writes nothing and predicts the real outcome (DESIGN §4 C10)."""
from .. import callgraph, cfg, dataflow as df, guards
from ..common import A, APPLY_CONFIG, dry_run_guards, not_dry_run_region, dry_run_any_region, external_roots, calls_named
from ..facts import callee_of

LEVEL = "proof"
EXPLANATION = (
    "Clause 1 (nothing is written under --dry-run) is decided completely at call-graph level: every function "
    "reachable from main (and from trait impls that library code may invoke) along call edges that are not "
    "dominated by the dry_run==false out-edge of a branch on ApplyConfig.dry_run contains no file-system-write "
    "primitive outside such a guarded region (C10-R1); the flag is assigned once from --dry-run and never "
    "re-assigned or mutably borrowed (C10-R2). Clause 2 is decided as a necessary condition only: nothing computed "
    "inside a dry_run-dependent region flows into the returned ApplyResult / exit status (C10-R3). Not decided: "
    "equality of the predicted failing patch with a real run that hits an I/O error; atime updates from reads."
)


def run(ck):
    prog, cg = ck.prog, ck.cg
    main = ck.anchor(A["main"])
    cmd_push = ck.anchor(A["cmd_push"])
    seq = ck.anchor(A["seq"])
    par = ck.anchor(A["par"])
    save_worker = ck.anchor(A["save_worker"])
    if None in (main, cmd_push, seq, par, save_worker):
        return

    # ---- R1: unguarded reachability -----------------------------------------------------
    region_cache = {}

    def region(fn):
        if fn.id not in region_cache:
            region_cache[fn.id] = not_dry_run_region(fn)
        return region_cache[fn.id]

    def guarded(site):
        reg, _ = region(site.caller)
        return site.bb in reg

    roots = [main.id] + external_roots(prog)
    U = cg.closure(roots, skip_site=guarded)
    ck.count("functions reachable without passing a dry_run==false guard", len(U))
    guard_sites = 0
    guard_fns = []
    for fn in prog.fns.values():
        _, gs = region(fn)
        if gs:
            guard_sites += len(gs)
            guard_fns.append(fn.id)
    ck.count("branches on ApplyConfig.dry_run", guard_sites)
    ck.floor("C10-R1", "branches on ApplyConfig.dry_run", guard_sites, 4)

    prims = cg.fs_write_sites()
    ck.count("file-system-write primitive call sites", len(prims))
    ck.floor("C10-R1", "file-system-write primitive sites", len(prims), 11)
    for site, lab in prims:
        fn = site.caller
        inst = "%s in %s" % (site.callee, fn.id)
        reg, _ = region(fn)
        if fn.id in U and site.bb not in reg:
            # find an unguarded chain for the report
            chain = None
            for r in roots:
                chain = cg.path(r, fn.id, skip_site=guarded)
                if chain is not None or r == fn.id:
                    break
            ck.violate("C10-R1", inst,
                       "file-system write (%s) reachable with --dry-run: %s -> %s" % (
                           lab, callgraph.format_chain(chain) if chain else fn.id, site.callee),
                       site.where())
        else:
            why = "inside a dry_run==false region of its own function" if site.bb in reg else \
                "function only reachable through dry_run==false guarded call sites"
            ck.ok("C10-R1", inst, why, site.where())
    # the guarded callees, for the record
    for fid in guard_fns:
        fn = prog.fns[fid]
        reg, gs = region(fn)
        guarded_calls = sorted({s.callee for s in cg.out[fid] if s.bb in reg})
        ck.info("C10-R1", "guards in %s" % fid, "%d branch(es); guarded callees: %s" % (len(gs), ", ".join(guarded_calls)))

    # ---- R2: the flag is assigned once, from --dry-run, never mutated -------------------------
    aggs = []
    writes = []
    mutborrows = []
    for fn in prog.fns.values():
        for bb, idx, s in fn.stmts():
            if s["k"] != "assign":
                continue
            rv = s["rv"]
            if rv["k"] == "agg" and rv.get("adt") == APPLY_CONFIG:
                aggs.append((fn, s))
            lhs = s["lhs"]
            for p in lhs.get("p", []):
                if isinstance(p, dict) and p.get("adt") == APPLY_CONFIG and p.get("name") == "dry_run":
                    writes.append((fn, s))
            if rv["k"] in ("ref", "rawptr") and rv.get("mut"):
                pl = rv["pl"]
                ty = pl.get("ty") or fn.local_ty(pl["l"])
                base_ty = fn.local_ty(pl["l"])
                if ty.startswith(APPLY_CONFIG) or (base_ty.startswith(APPLY_CONFIG) and not pl.get("p")):
                    mutborrows.append((fn, s))
    ck.require(len(aggs) == 1, "C10-R2", "ApplyConfig constructed once",
               "ApplyConfig is constructed at %d sites: %s" % (len(aggs), [f.where(s) for f, s in aggs]),
               aggs[0][0].where(aggs[0][1]) if aggs else "")
    ck.require(not writes, "C10-R2", "no assignment to ApplyConfig.dry_run",
               "ApplyConfig.dry_run is re-assigned at %s" % [f.where(s) for f, s in writes])
    ck.require(not mutborrows, "C10-R2", "ApplyConfig never mutably borrowed",
               "ApplyConfig is mutably borrowed at %s" % [f.where(s) for f, s in mutborrows])
    for fn, s in aggs:
        fields = s["rv"]["fields"]
        e = df.operand_expr(fn, s["rv"]["ops"][fields.index("dry_run")])
        # the options may reach this function as a struct the caller filled in
        alts = [x for g, x in (df.param_field_sources(prog, fn, e) or [(fn, e)])]
        good = all(isinstance(x, tuple) and x[0] == "call" and x[1].endswith("Matches::opt_present")
                   and any(a == ("const", "dry-run", "&str") or (isinstance(a, tuple) and a[0] == "const" and a[1] == "dry-run") for a in x[2]) for x in alts)
        if alts and alts != [e]:
            e = alts[0]
        ck.require(good, "C10-R2", "dry_run := opt_present(\"dry-run\")",
                   "ApplyConfig.dry_run is initialised from %s" % df.show(e), fn.where(s))

    # ---- R3: nothing computed under a dry_run-dependent branch reaches the result -------------
    for fn, what in ((seq, "ApplyResult of sequential driver"), (par, "ApplyResult of parallel driver"),
                     (cmd_push, "Ok(..) of cmd_push")):
        check_result_independent(ck, fn, what)
    # how far the applying loops go does not depend on dry_run: no loop exit of a function that applies file patches sits inside a
    # dry_run-dependent region (a dry run has to meet the same first failing patch as the real run)
    napply = 0
    for fn in sorted(prog.fns.values(), key=lambda f: f.id):
        if fn.crate != "rapidquilt" or not calls_named(fn, "apply_one_file_patch"):
            continue
        napply += 1
        reg, gs = dry_run_any_region(fn)
        bad_exits = []
        for head, body in cfg.loops(fn).items():
            for b_ in body:
                for sx in fn.succs(b_):
                    if sx in body or fn.blocks[sx]["cleanup"]:
                        continue
                    # an exit taken inside a dry_run-dependent region, or an exit *into* one (the branch on dry_run itself leaves the
                    # loop: the blocks of a `{ ...; break }` arm are not part of the loop body)
                    if b_ not in reg and sx not in reg:
                        continue
                    # leaving through `?` (an error is on its way out) is not a decision about how far to go
                    t_ = fn.blocks[b_]["term"]
                    if t_["k"] == "call" and (callee_of(t_).get("path") or "").endswith("from_residual"):
                        continue
                    bad_exits.append((b_, sx))
        ck.require(not bad_exits, "C10-R3", "the applying loop of %s goes equally far with and without --dry-run" % fn.id.split("::")[-1],
                   "%s leaves its loop from inside a dry_run-dependent region (edges %s): a dry run can stop before it has met the patch the real run "
                   "fails on, and then predicts another failing patch" % (fn.id, bad_exits[:3]), fn.where(fn.blocks[bad_exits[0][0]]["term"]) if bad_exits else fn.where(),
                   ok_detail="no loop exit depends on dry_run")
    ck.floor("C10-R3", "functions that apply file patches in a loop", napply, 2)
    # atomics that carry the applied count are not updated under a dry_run guard
    for fn in prog.fns.values():
        reg, gs = dry_run_any_region(fn)
        for bb, t in fn.calls():
            c = callee_of(t)
            p = c.get("rpath") or ""
            if ("atomic::AtomicUsize" in p or "atomic::Atomic::<usize>" in p) and not p.endswith("::load") and not p.endswith("::new"):
                ck.require(bb not in reg, "C10-R3", "%s in %s" % (p.split("::")[-1], fn.id),
                           "atomic update %s happens under a dry_run-dependent branch" % p, fn.where(t))


def dep_closure(fn, roots):
    """Locals the given locals depend on (data), with the blocks of the definitions involved."""
    d = df.defs_of(fn)
    seen = set()
    blocks = {}
    stack = list(roots)

    def locals_of_operand(op):
        if op.get("k") in ("copy", "move"):
            out = [op["pl"]["l"]]
            for p in op["pl"].get("p", []):
                if isinstance(p, dict) and "index" in p:
                    out.append(p["index"])
            return out
        return []

    def locals_of_rv(rv):
        out = []
        for key in ("op", "a", "b"):
            if key in rv and isinstance(rv[key], dict):
                out += locals_of_operand(rv[key])
        if "pl" in rv:
            out.append(rv["pl"]["l"])
        for o in rv.get("ops", []):
            out += locals_of_operand(o)
        return out

    # &mut borrows: local X borrowed mutably into R; calls taking R may write X from their other args
    mut_alias = {}
    for bb, idx, s in fn.stmts():
        if s["k"] == "assign" and s["rv"]["k"] == "ref" and s["rv"].get("mut") and "p" not in s["lhs"]:
            mut_alias.setdefault(s["lhs"]["l"], set()).add(s["rv"]["pl"]["l"])
    while stack:
        l = stack.pop()
        if l in seen:
            continue
        seen.add(l)
        for dd in d.all(l):
            if dd[0] in ("stmt", "pstmt"):
                rv_ = dd[3]["rv"]
                plain_copy = dd[0] == "stmt" and rv_["k"] == "use" and rv_["op"].get("k") in ("copy", "move")
                if not plain_copy:      # a copy made inside a region of a value computed outside it carries no dependence of its own
                    blocks.setdefault(l, set()).add(dd[1])
                for x in locals_of_rv(rv_):
                    stack.append(x)
            else:
                blocks.setdefault(l, set()).add(dd[1])
                for a in dd[2]["args"]:
                    for x in locals_of_operand(a):
                        stack.append(x)
        # writes through &mut aliases
        for bb, t in fn.calls():
            for a in t["args"]:
                for x in locals_of_operand(a):
                    if l in mut_alias.get(x, ()):  # x is &mut l
                        blocks.setdefault(l, set()).add(bb)
                        for a2 in t["args"]:
                            for y in locals_of_operand(a2):
                                stack.append(y)
    return seen, blocks


def check_result_independent(ck, fn, what):
    reg, gs = dry_run_any_region(fn)
    if not gs:
        ck.ok("C10-R3", "%s independent of dry_run regions" % what, "no branch on dry_run in %s" % fn.id, fn.where())
        return
    # Ok(...) constructions assigned to the return place
    ok_defs = []
    for bb, idx, s in fn.stmts():
        if s["k"] == "assign" and s["lhs"]["l"] == 0 and "p" not in s["lhs"]:
            ok_defs.append((bb, s))
    bad = []
    # `if dry_run { return Ok(v) } ...; Ok(v)` is the same as one return after the branch: tolerated when every Ok return carries the
    # very same value expression (whose own dependencies are still checked below)
    inreg = [(bb, s) for bb, s in ok_defs if bb in reg]
    vals = {repr(df.rvalue_expr(fn, s["rv"])) for bb, s in inreg if s["rv"]["k"] == "agg" and s["rv"].get("variant") == "Ok"}
    same_everywhere = len(vals) == 1 and len([1 for bb, s in inreg if s["rv"].get("variant") == "Ok"]) >= 2 and \
        all(s["rv"]["k"] == "agg" and s["rv"].get("variant") in ("Ok", "Err") for bb, s in inreg)
    for bb, s in ok_defs:
        rv = s["rv"]
        if bb in reg and not (same_everywhere and rv.get("variant") == "Ok"):
            if rv["k"] == "agg" and rv.get("variant") == "Err":
                continue        # an explicit refusal; what may be refused before anything is written is C17's business
            bad.append("return value assigned inside a dry_run-dependent region at %s" % fn.where(s))
            continue
        roots = []
        for o in rv.get("ops", []):
            if o.get("k") in ("copy", "move"):
                roots.append(o["pl"]["l"])
        if rv["k"] == "use" and rv["op"].get("k") in ("copy", "move"):
            roots.append(rv["op"]["pl"]["l"])
        seen, blocks = dep_closure(fn, roots)
        for l, bbs in blocks.items():
            inreg = [b for b in bbs if b in reg]
            if inreg:
                bad.append("%s (returned at %s) depends on %s which is written under a dry_run-dependent branch (bb%s)" % (
                    what, fn.where(s), fn.local_name(l) or "_%d" % l, inreg))
    # calls that define _0 inside the region must be error propagation
    for bb, t in fn.calls():
        if t["dest"]["l"] == 0 and bb in reg:
            c = callee_of(t)
            if not (c.get("path") or "").endswith("FromResidual::from_residual"):
                bad.append("return value produced by %s inside a dry_run-dependent region at %s" % (c.get("rpath"), fn.where(t)))
    ck.require(not bad, "C10-R3", "%s independent of dry_run regions" % what, "; ".join(bad) or
               "%d return-value definitions, none inside or data-dependent on a dry_run region" % len(ok_defs), fn.where())
