"""C03  an applied file patch changes exactly the lines its hunks mark (DESIGN §4 C03, §8.9)."""
from .. import cfg, dataflow as df, guards, patterns as pt, ranges, seqmodel
from ..facts import callee_of

LEVEL = "other"
EXPLANATION = (
    "rapidquilt applies a file patch in two phases: every hunk is matched against the *unmodified* file and its position recorded, "
    "then the recorded hunks are spliced in one after the other with a running offset. That is equal to replacing, hunk by hunk, the "
    "matched old lines by the new lines exactly when the matched ranges are in ascending order and no hunk's matched range (context "
    "included) reaches back into lines an earlier hunk changes. Decides those conditions and the splice itself: (R1) the one splice on "
    "the file content replaces [line + offset, line + offset + len(old side)) by the new side, both sides taken from the view of the "
    "very hunk, direction and recorded fuzz level of the report element it is zipped with, the offset starts at 0 and grows by that "
    "element's line_count_diff after its splice, and only elements whose discriminant is Applied are spliced (failed hunks contribute "
    "nothing); (R2) the numbers replayed are the ones matched: Applied.line is the position that matches() accepted, "
    "line_count_diff = len(new side) - len(old side) of that view, fuzz its level; (R3) one report per hunk, in hunk order: every "
    "iteration of the matching loop pushes exactly one report, and phase two zips self.hunks with those reports; (R4) order: the "
    "frozen line handed to the next hunk is line + len(old side) - suffix context of the hunk just applied (the first line after its "
    "changed region), and in normal mode a hunk is only reported Applied at a position the range engine proves to be at or after that "
    "line. (R6) a hunk is placed only where the lines equal its old side byte for byte (C02-R4): the splice rewrites the whole matched range. Not decided: equality of line contents (slice comparison in matches(), C02-R4), rollback replays (C04)."
)
LEVEL_NOTE = "Undecided: byte content of the lines themselves; behaviour when hunks are rejected as misordered is a refusal, not a different result."


def view_of(e):
    """(hunk_expr, direction_expr, fuzz_expr) of a Hunk::view(..) call expression, or None."""
    if df.is_call(e, "Hunk::<'a, Line>::view") and len(e[2]) == 3:
        return e[2]
    return None


def run(ck, with_order=True):
    prog, cg = ck.prog, ck.cg
    if with_order:
        # the trimming of a hunk and the frozen line rest on the context counts the parser stores (C01-R6)
        from . import c01 as _c01
        _c01.r6(ck, rule="C03-R5")
        # hunks reported failed contribute nothing, applied ones everything: every hunk is tried and every report is spliced (C04-R7)
        from . import c04 as _c04
        _c04.r7_every_hunk_is_visited(ck, rule="C03-R3b")
        # the splice replaces the whole matched range - context included - with the hunk's own lines: only the marked lines change
        # because a hunk is placed solely where the file's lines equal its old side byte for byte (C02-R4)
        from . import c02 as _c02
        from .c18 import ck_alias as _alias
        _c02.r4(_alias(ck, "C03-R6"))
    am = ck.anchor("FilePatch::<'a, &'a [u8]>::apply_modify")
    tah = ck.anchor("libpatch::patch::try_apply_hunk")
    if am is None or tah is None:
        return
    # =========================================== R1 the splice ====================================================================
    rule = "C03-R1"
    spl = [(bb, t) for bb, t in am.calls() if (callee_of(t).get("rpath") or "").endswith("Vec::<T, A>::splice") and not am.blocks[bb]["cleanup"]]
    content_muts = [(bb, t) for bb, t in am.calls() if not am.blocks[bb]["cleanup"] and t["argtys"] and t["argtys"][0].startswith("&mut ") and
                    isinstance(df.operand_expr(am, t["args"][0]), tuple) and df.operand_expr(am, t["args"][0])[0] == "field" and
                    df.operand_expr(am, t["args"][0])[2] == "content" and df.operand_expr(am, t["args"][0])[1][:1] == ("param",)]
    ck.require(len(spl) == 1 and len(content_muts) == 1, rule, "the file content is modified by exactly one splice in apply_modify",
               "%d splice calls, %d calls taking &mut modified_file.content" % (len(spl), len(content_muts)), am.where())
    if len(spl) != 1:
        return
    sbb, st = spl[0]
    zl = [il for il in pt.iterator_loops(am) if sbb in il["body"] and "Zip<" in il["iter_ty"]]
    if not ck.require(len(zl) == 1, rule, "the splice runs in a loop over (hunk, report) pairs", "loops around the splice: %s" % [il["iter_ty"][:60] for il in zl], am.where(st)):
        return
    il = zl[0]
    rng = df.operand_expr(am, st["args"][1])
    ins = df.operand_expr(am, st["args"][2])
    if not ck.require(isinstance(rng, tuple) and rng[0] == "agg" and rng[1].endswith("ops::range::Range") and len(rng[3]) == 2, rule,
                      "splice range is start..end", "range argument is %s" % df.show(rng, 120), am.where(st)):
        return
    # the pair drawn from the zip
    def is_item(x, k):      # (next(zip) as Some).0.k
        return isinstance(x, tuple) and x[0] == "field" and x[2] == k and isinstance(x[1], tuple) and x[1][0] == "field" and x[1][2] == 0 and \
            isinstance(x[1][1], tuple) and x[1][1][0] == "downcast" and x[1][1][2] == "Some" and df.is_call(x[1][1][1], "Zip<A, B> as core::iter::traits::iterator::Iterator>::next")

    def applied_field(x, name):
        return isinstance(x, tuple) and x[0] == "field" and x[2] == name and isinstance(x[1], tuple) and x[1][0] == "downcast" and x[1][2] == "Applied" and is_item(x[1][1], 1)
    mo = [l for l, nm in am.names.items() if nm and "offset" in nm and any(dd[1] in il["body"] for dd in df.defs_of(am).all(l))]
    mo = [l for l in mo if any(dd[1] not in il["body"] for dd in df.defs_of(am).all(l))]
    # the view the old side is measured on
    views = [x for x in df.walk(rng[3][1]) if view_of(x)]
    if not ck.require(len(views) >= 1, rule, "the replaced length is measured on a view of the hunk", "range end is %s" % df.show(rng[3][1], 160), am.where(st)):
        return
    V = views[0]
    h, d, f = view_of(V)
    okv = is_item(h, 0) and isinstance(d, tuple) and d[0] == "param" and d[2] == "direction" and applied_field(f, "fuzz")
    ck.require(okv, rule, "the view spliced is (this hunk, the direction being applied, the fuzz level recorded for it)",
               "view is built from (%s, %s, %s)" % (df.show(h, 60), df.show(d, 40), df.show(f, 60)), am.where(st), ok_detail="view(hunk, direction, report.fuzz)")
    m = seqmodel.Model([("line", lambda x: applied_field(x, "line")), ("mo", lambda x: isinstance(x, tuple) and x[0] == "local" and x[1] in mo)],
                       seqsyms=[("rlen", lambda x: df.is_call(x, "::remove_content") and x[2][0] == V)])
    bad = None
    try:
        for env in seqmodel.valuations(["line", "mo"], ["rlen"], 6 if ck.tier == "thorough" else 3):
            if env["line"] + env["mo"] < 0:
                continue
            a, b = m.val(rng[3][0], env), m.val(rng[3][1], env)
            if a != env["line"] + env["mo"] or b != env["line"] + env["mo"] + env["rlen"]:
                bad = (env, a, b)
                break
    except seqmodel.Unsupported as ex:
        bad = ("unsupported", str(ex), "")
    ck.require(bad is None and {"line", "mo", "rlen"} <= m.used, rule, "replaced range = [line + offset, line + offset + len(old side))",
               "splice range %s evaluates to %s" % (df.show(rng, 200), bad), am.where(st), ok_detail=df.show(rng, 200))
    e = ins
    while isinstance(e, tuple) and e[0] == "call" and e[1].endswith(("Iterator::cloned", "Iterator::copied", "<impl [T]>::iter", "IntoIterator::into_iter",
                                                                        "IntoIterator>::into_iter")) and e[2]:
        e = e[2][0]
    ck.require(df.is_call(e, "::add_content") and e[2][0] == V, rule, "inserted lines = new side of the same view",
               "splice inserts %s" % df.show(ins, 160), am.where(st), ok_detail="add_content of the same view")
    # only Applied elements are spliced
    sws = [sw for sw in pt.discr_switches(am, lambda ex, rv: (rv.get("adt") or "").endswith("HunkApplyReport")) if sw["bb"] in il["body"]]
    dom = any("Applied" in sw["edges"] and sbb in cfg.dominated_by_edge(am, sw["edges"]["Applied"]) and is_item(sw["expr"], 1) for sw in sws)
    ck.require(dom, rule, "only hunks whose own report is Applied are spliced", "the splice is not guarded by the Applied discriminant of the zipped report element",
               am.where(st))
    # the running offset
    if ck.require(len(mo) == 1, rule, "one running offset", "candidates: %s" % mo, am.where()):
        l = mo[0]
        outside = [dd for dd in df.defs_of(am).all(l) if dd[1] not in il["body"]]
        inside = [dd for dd in df.defs_of(am).all(l) if dd[1] in il["body"]]
        ok0 = len(outside) == 1 and outside[0][0] == "stmt" and df.rvalue_expr(am, outside[0][3]["rv"])[:2] == ("const", 0) and cfg.dominates(am, outside[0][1], il["head"])
        ck.require(ok0, rule, "the offset starts at 0", "initialisation: %s" % [df.show(df.rvalue_expr(am, dd[3]["rv"]), 60) for dd in outside if dd[0] == "stmt"], am.where())
        good = len(inside) == 1 and inside[0][0] == "stmt"
        if good:
            e = df.rvalue_expr(am, inside[0][3]["rv"])
            m2 = seqmodel.Model([("mo", lambda x: isinstance(x, tuple) and x[0] == "local" and x[1] == l), ("d", lambda x: applied_field(x, "line_count_diff"))])
            try:
                good = all(m2.val(e, env) == env["mo"] + env["d"] for env in seqmodel.valuations(["mo", "d"], [], 2)) and {"mo", "d"} <= m2.used
            except seqmodel.Unsupported:
                good = False
            good = good and inside[0][1] in cfg.reachable_from_after(am, sbb) and sbb not in cfg.reachable(am, [inside[0][1]], blocked={il["head"]})
        ck.require(good, rule, "after each splice the offset grows by that hunk's line_count_diff",
                   "updates of the offset in the loop: %s" % [df.show(df.rvalue_expr(am, dd[3]["rv"]), 100) for dd in inside if dd[0] == "stmt"], am.where())
    # =========================================== R2 recorded numbers =================================================================
    rule = "C03-R2"
    aggs = [(bb, s) for bb, idx, s in tah.stmts() if s["k"] == "assign" and s["rv"]["k"] == "agg" and s["rv"].get("variant") == "Applied"]
    if ck.require(len(aggs) == 1, rule, "one place reports a hunk as applied", "%d Applied constructions in try_apply_hunk" % len(aggs), tah.where()):
        abb, s = aggs[0]
        fl = dict(zip(s["rv"]["fields"], [df.operand_expr(tah, o) for o in s["rv"]["ops"]]))
        view = ("param", 1, tah.local_name(1))
        probes = [(bb, t) for bb, t in tah.calls() if (callee_of(t).get("rpath") or "").endswith("try_apply_hunk::matches")]
        tl = fl.get("line")
        # the position reported is the one matches() accepted: the direct probe's position, or the scan's hit assigned to the same variable
        okl = isinstance(tl, tuple) and tl[0] == "local" and any(df.operand_expr(tah, t["args"][2]) == tl for bb, t in probes)
        ck.require(okl, rule, "Applied.line is the position that was compared", "Applied.line = %s" % df.show(tl, 80), tah.where(s), ok_detail=df.show(tl, 60))
        lcd = fl.get("line_count_diff")
        m3 = seqmodel.Model([], seqsyms=[("a", lambda x: df.is_call(x, "::add_content") and x[2][0][:2] == ("param", 1)),
                                         ("r", lambda x: df.is_call(x, "::remove_content") and x[2][0][:2] == ("param", 1))])
        try:
            good = all(m3.val(lcd, env) == env["a"] - env["r"] for env in seqmodel.valuations([], ["a", "r"], 3)) and {"a", "r"} <= m3.used
        except seqmodel.Unsupported:
            good = False
        ck.require(good, rule, "line_count_diff = len(new side) - len(old side) of the matched view", "line_count_diff = %s" % df.show(lcd, 160), tah.where(s),
                   ok_detail=df.show(lcd, 120))
        fz = fl.get("fuzz")
        ck.require(df.is_call(fz, "HunkView::<'a, 'hunk, Line>::fuzz") and fz[2][0][:2] == ("param", 1), rule, "Applied.fuzz is the level of the matched view",
                   "Applied.fuzz = %s" % df.show(fz, 80), tah.where(s))
    # =========================================== R3 alignment ===========================================================================
    rule = "C03-R3"
    l1 = [x for x in pt.iterator_loops(am) if "Enumerate<" in x["iter_ty"] and "Hunk<" in x["iter_ty"]]
    if ck.require(len(l1) == 1, rule, "one matching loop over the hunks", "%d loops" % len(l1), am.where()):
        lo = l1[0]
        pushes = {bb for bb, t in am.calls() if (callee_of(t).get("rpath") or "").endswith("FilePatchApplyReport::push_hunk_report") and bb in lo["body"]}
        ck.floor(rule, "report pushes in the matching loop", len(pushes), 1)
        start = lo["some_edge"][1]
        r = cfg.reachable(am, [start], blocked=pushes)
        ck.require(lo["head"] not in r, rule, "every hunk gets a report", "an iteration of the matching loop can end without pushing a report: later reports would "
                   "be paired with the wrong hunks", am.where(lo["next_term"]), ok_detail="every path of an iteration crosses push_hunk_report")
        twice = False
        for pb in pushes:
            after = cfg.reachable(am, list(am.succs(pb)), blocked={lo["head"]})
            if after & pushes:
                twice = True
        ck.require(not twice, rule, "no hunk gets two reports", "an iteration can push two reports", am.where(lo["next_term"]))
        # the zip pairs self.hunks with the reports just built
        zt = df.operand_expr(am, il["next_term"]["args"][0])
        zips = [t for bb, t in am.calls() if (callee_of(t).get("rpath") or "").endswith("Iterator::zip")]
        okz = False
        for t in zips:
            a, b = df.operand_expr(am, t["args"][0]), df.operand_expr(am, t["args"][1])
            okz = okz or (df.mentions(a, lambda x: isinstance(x, tuple) and x[0] == "field" and x[2] == "hunks" and x[1][:2] == ("param", 1)) and
                          df.mentions(b, lambda x: isinstance(x, tuple) and x[0] == "field" and x[2] == "hunk_reports") and
                          not df.mentions(a, lambda x: df.is_call(x, "Iterator::rev")) and not df.mentions(b, lambda x: df.is_call(x, "Iterator::rev")))
        ck.require(okz, rule, "phase two pairs self.hunks with the reports in the same order", "zip arguments: %s" % [
            (df.show(df.operand_expr(am, t["args"][0]), 60), df.show(df.operand_expr(am, t["args"][1]), 60)) for t in zips], am.where())
    if not with_order:
        return
    # =========================================== R4 order / no reach-back ==============================================================
    rule = "C03-R4"
    fl_ = [l for l, nm in am.names.items() if nm == "last_frozen_line"]
    if ck.require(len(fl_) == 1, rule, "frozen line variable in apply_modify", "found %d" % len(fl_), am.where()):
        ins_ = [dd for dd in df.defs_of(am).all(fl_[0]) if dd[0] == "stmt" and cfg.innermost_loop_of(am, dd[1])]
        good = False
        shown = ""
        if len(ins_) == 1:
            e = df.rvalue_expr(am, ins_[0][3]["rv"])
            shown = df.show(e, 200)
            hv = [x for x in df.walk(e) if view_of(x)]
            if hv:
                W = hv[0]
                m4 = seqmodel.Model([("line", lambda x: isinstance(x, tuple) and x[0] == "field" and x[2] == "line" and isinstance(x[1], tuple) and x[1][0] == "downcast" and x[1][2] == "Applied"),
                                     ("sfx", lambda x: df.is_call(x, "::suffix_context") and x[2][0] == W)],
                                    seqsyms=[("r", lambda x: df.is_call(x, "::remove_content") and x[2][0] == W)])
                try:
                    # at least the end of the changed region, at most the end of the matched range (the stricter choice is fine for C03)
                    good = all(env["line"] + env["r"] - env["sfx"] <= m4.val(e, env) <= env["line"] + env["r"]
                               for env in seqmodel.valuations(["line"], ["r", "sfx"], 3) if env["sfx"] <= env["r"]) and {"line", "r"} <= m4.used
                except seqmodel.Unsupported:
                    good = False
        ck.require(good, rule, "frozen line = first line after the changed region of the hunk just applied (or later)",
                   "last_frozen_line is set to %s" % shown, am.where(), ok_detail=shown)
        # R4c: ... measured on the view that matched.  The lengths come from a view of the same hunk, in the same direction, at the
        # level the trial that produced the report was given (or the level recorded in that report), not from another view.
        if len(ins_) == 1:
            tried = []
            for bb, t in am.calls():
                if (callee_of(t).get("path") or "").endswith("try_apply_hunk") and not am.blocks[bb]["cleanup"]:
                    tried += [view_of(x) for x in df.walk(df.operand_expr(am, t["args"][0])) if view_of(x)]
            used = [view_of(x) for x in df.walk(df.rvalue_expr(am, ins_[0][3]["rv"])) if view_of(x)]
            recorded = lambda x: isinstance(x, tuple) and x[0] == "field" and x[2] == "fuzz" and isinstance(x[1], tuple) and x[1][0] == "downcast" and x[1][2] == "Applied"
            if ck.require(bool(tried) and bool(used), "C03-R4c", "views handed to the trial and measured for the frozen line",
                          "%d views tried, %d views measured" % (len(tried), len(used)), am.where()):
                bad = [u for u in used if not any(u[0] == t_[0] and u[1] == t_[1] and (u[2] == t_[2] or recorded(u[2])) for t_ in tried)]
                ck.require(not bad, "C03-R4c", "the frozen line is measured on the view that matched",
                           "last_frozen_line is computed from view(.., %s) while the trial was given view(.., %s): with another level the trimmed "
                           "lengths differ, the frozen line ends up too low and a later hunk may overlap what this one changed" %
                           (df.show(bad[0][2], 60) if bad else "", df.show(tried[0][2], 60)), am.where(ins_[0][3]) if hasattr(am, "where") else None,
                           ok_detail="level %s" % df.show(used[0][2], 80))
    # engine D, restricted to normal mode: where a hunk is reported Applied its position is at or after the frozen line
    from .c04 import rollback_regions
    region, normal, sws = rollback_regions(tah)
    blocked = set()
    for sw in sws:
        for name, e in sw["edges"].items():
            if name != "Normal":
                blocked.add(e)
    an = ranges.Analyzer(prog)
    found = []
    # the frozen line as try_apply_hunk receives it: a parameter of that name, or a variable of that name copied out of a parameter
    fl2 = [l for l, nm in tah.names.items() if nm == "last_frozen_line"]
    frozen_local = None
    for l in fl2:
        if l <= tah.arg_count:
            frozen_local = l
        else:
            e_ = df.operand_expr(tah, {"k": "copy", "pl": {"l": l}})
            if df.mentions(e_, lambda x: isinstance(x, tuple) and x and x[0] == "param"):
                frozen_local = l

    cores = []

    def probe(an_, fn, bb, s, st_, out):
        if fn.id == tah.id and s["rv"]["k"] == "agg" and s["rv"].get("variant") == "Applied":
            op = s["rv"]["ops"][s["rv"]["fields"].index("line")]
            t = an_.canon(st_, an_.term_of(fn, op, st_))
            frozen = None
            if frozen_local is not None:
                src = {"l": frozen_local}
                if frozen_local > fn.arg_count:
                    # a variable copied out of a parameter once: the parameter's field is what stays known (the copy is dead by now)
                    one = df.defs_of(fn).single(frozen_local)
                    if one and one[0] == "stmt" and one[3]["rv"]["k"] == "use" and one[3]["rv"]["op"].get("k") in ("copy", "move"):
                        src = one[3]["rv"]["op"]["pl"]
                ft = an_.canon(st_, an_.term_of(fn, {"k": "copy", "pl": src}, st_))
                frozen = ft[0] if ft is not None and ft[1] == 0 else None
            if frozen is None:
                found.append((False, "the frozen line is not a tracked value", s))
                return
            if t is None:
                found.append((False, "position is not a tracked value", s))
                return
            ok = st_.dead or an_.prove(st_, frozen, 0, t[0], t[1], 0)
            found.append((ok, an_.explain(st_, frozen, t[0]), s))
            # weaker, and what the ordering test of the code as it stands does give: the first *changed* line lies after the frozen line,
            # i.e. line + prefix_context > frozen.  The sum is a three-variable fact: ask the state for the name of (line + prefix).
            okc = st_.dead
            rel = "no sum of the position and the prefix context is known"
            def same_value(v):
                return v == t[0] or (st_.get(v, t[0]) == 0 and st_.get(t[0], v) == 0)
            for (S, x, y, c) in st_.sums:
                if c == 0 and t[1] == 0 and (same_value(x) or same_value(y)):
                    other = y if same_value(x) else x
                    d = st_.get(frozen, S)
                    # ... and the other summand is the hunk's *leading* context (the lines in front of the first changed one)
                    is_prefix = False
                    if other[0] == "v" and other[1].startswith("L") and other[1][1:].isdigit():
                        oe = df.operand_expr(fn, {"k": "copy", "pl": {"l": int(other[1][1:])}})
                        is_prefix = df.mentions(oe, lambda z: df.is_call(z, "::prefix_context")) and not df.mentions(oe, lambda z: df.is_call(z, "::suffix_context"))
                    if d is not None and d <= -1 and is_prefix:
                        okc = True
                    elif d is not None and d <= -1:
                        rel = "the frozen line is compared with the position plus %s, not plus the leading context" % df.show(
                            df.operand_expr(fn, {"k": "copy", "pl": {"l": int(other[1][1:])}}) if other[1][1:].isdigit() else other, 60)
                        continue
                    rel = an_.explain(st_, frozen, S)
            cores.append((okc, rel, s))
    an.stmt_probe = probe
    ck.require(frozen_local is not None, rule, "try_apply_hunk receives the frozen line",
               "try_apply_hunk has no parameter (or field of a parameter, copied into a variable) named last_frozen_line", tah.where())
    an.analyze(tah, blocked_edges=blocked)
    ck.floor(rule, "Applied constructions analysed", len(found), 1)
    for okc, rel, s in cores:
        ck.require(okc, "C03-R4b", "changed regions of successive hunks are in ascending order and disjoint",
                   "in normal mode a hunk can be reported Applied although its first changed line is not after the frozen line (%s): the running offset of "
                   "phase two is then applied to lines it does not cover" % rel, tah.where(s), ok_detail="last_frozen_line < line + prefix_context proven (%s)" % rel)
    ck.floor("C03-R4b", "Applied constructions analysed", len(cores), 1)
    for ok, rel, s in found:
        ck.require(ok, rule, "a hunk is applied only at or after the frozen line",
                   "in normal mode try_apply_hunk can report Applied at a position whose matched range starts before the frozen line (%s): its leading "
                   "context then covers lines an earlier hunk changes, phase two splices on shifted coordinates and writes the old lines back" % rel,
                   tah.where(s), ok_detail="last_frozen_line <= line proven (%s)" % rel)
