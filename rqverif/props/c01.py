"""C01  a unified diff A->B pushed onto A yields B (DESIGN §4 C01, §8.9) - the clauses whose truth is in the shape of the code."""
from .. import cfg, dataflow as df, guards, patterns as pt, seqmodel
from ..facts import callee_of
from .c18 import ck_alias

LEVEL = "other"
EXPLANATION = (
    "Byte-for-byte equality for all (A, B) is not a static matter; what is decided are the necessary conditions a diff produced by "
    "diff(1) relies on: (R1) coordinates - the line numbers of a hunk header become 0-based positions by the unified-diff convention: "
    "N - 1 for a side with lines, N itself for a side without lines ('-N,0' names the line after which the hunk goes; '-0,0' is position "
    "0), for both sides, decided on the integer terms handed to Hunk::new (engine H); (R2) kinds - a single hunk without context is taken "
    "for the creation (deletion) of the file only when its empty side is the range 0,0; an insertion or deletion in the middle of a file "
    "written without context (diff -U0) stays a modification; (R3) sides - applying forward matches the old side and inserts the new "
    "side, applying reversed swaps them (the two accessors are inverse case tables over the direction); (R4) the splice of C03 (R1-R3: "
    "replaced range, inserted lines, running offset, one report per hunk); (R5) the placement rules of C02-R4: the position the header "
    "names is compared first, matches() answers false without comparing only for positions outside [0, len - len(old side)] - an empty "
    "old side at the very end of the file included - and compares exactly the old side; (R6) a hunk's prefix / suffix "
    "context counts are counted from the line markers while the hunk is read (one increment per ' ' line, suffix back to 0 at every "
    "changed line), not inferred from line contents. (R8) the offset recorded for a hunk is measured against the side that is matched, (R9) the quoted form of a name is read back byte for byte, (R10) under -R every choice between an old and a new thing takes the other one. Not decided: parsing of every header dialect, line "
    "terminators and the no-newline marker, equality of line contents, and '-0,0' hunks against an existing non-empty file (taken for a "
    "creation, refused) - listed in DESIGN §8.9."
)
LEVEL_NOTE = "Partial: coordinates, kinds, sides and splice arithmetic are decided; byte equality of the result is not."


def header_terms(ck, rule):
    """[(side, term, N-matcher, count-matcher, fn, where)] for the two position arguments of Hunk::new in parse_hunk."""
    ph = ck.anchor("libpatch::patch::unified::parser::parse_hunk")
    if ph is None:
        return None, []
    news = [(bb, t) for bb, t in ph.calls() if (callee_of(t).get("rpath") or "").endswith("Hunk::<'a, Line>::new") and not ph.blocks[bb]["cleanup"]]
    if not ck.require(len(news) == 1 and cfg.innermost_loop_of(ph, news[0][0]) is None, rule, "parse_hunk builds the hunk once, before reading its lines",
                      "%d calls of Hunk::new outside loops" % len(news), ph.where()):
        return ph, []
    bb, t = news[0]
    out = []
    for side, i in (("remove", 0), ("add", 1)):
        e = seqmodel.ite_expr(ph, df.operand_expr(ph, t["args"][i]))
        out.append((side, e, ph.where(t)))
    return ph, out


def fld(x, name):
    return isinstance(x, tuple) and x[0] == "field" and x[2] == name and isinstance(x[1], tuple) and x[1][0] in ("local", "param")


def parser_position(n, c):
    return n if c == 0 else max(n - 1, 0)


def r1(ck, rule="C01-R1"):
    ph, terms = header_terms(ck, rule)
    for side, e, where in terms:
        m = seqmodel.Model([("N", lambda x, s=side: fld(x, s + "_line")), ("c", lambda x, s=side: fld(x, s + "_count"))], fn=ph)
        wrong = None
        try:
            for n in range(0, 12 if ck.tier == "thorough" else 5):
                for c in range(0, 3):
                    v = m.val(e, {"N": n, "c": c})
                    if v != parser_position(n, c):
                        wrong = (n, c, v)
                        break
                if wrong:
                    break
        except seqmodel.Unsupported as ex:
            ck.violate(rule, "position of the %s side is a recognised term" % side, "cannot model %s (%s)" % (df.show(e, 120), ex), where)
            continue
        ck.require(wrong is None and "N" in m.used, rule, "position of the %s side = N - 1, or N for a side without lines" % side,
                   "for '%s%d,%d' the %s side is placed at 0-based line %s; the unified-diff convention says %d (a side without lines names the line "
                   "after which the hunk goes)" % (("-" if side == "remove" else "+"), wrong[0] if wrong else 0, wrong[1] if wrong else 0, side,
                                                    wrong[2] if wrong else "?", parser_position(wrong[0], wrong[1]) if wrong else 0),
                   where, ok_detail=df.show(e, 160))
    # Hunk::new stores its two positions where the accessors read them
    hn = ck.anchor("libpatch::patch::Hunk::<'a, Line>::new")
    if hn is not None:
        aggs = [(bb, s) for bb, idx, s in hn.stmts() if s["k"] == "assign" and s["rv"]["k"] == "agg" and (s["rv"].get("adt") or "").endswith("patch::HunkPart")]
        got = {}
        for bb, s in aggs:
            fl = dict(zip(s["rv"]["fields"], [df.operand_expr(hn, o) for o in s["rv"]["ops"]]))
            tl = fl.get("target_line")
            if isinstance(tl, tuple) and tl[0] == "param":
                got[tl[1]] = s
        hk = [(bb, s) for bb, idx, s in hn.stmts() if s["k"] == "assign" and s["rv"]["k"] == "agg" and (s["rv"].get("adt") or "").endswith("patch::Hunk")]
        ok = False
        if len(hk) == 1 and set(got) == {1, 2}:
            fl = dict(zip(hk[0][1]["rv"]["fields"], [df.operand_expr(hn, o) for o in hk[0][1]["rv"]["ops"]]))
            def part_of(e):
                return [p for p, s in got.items() if df.mentions(e, lambda x, s=s: x == df.rvalue_expr(hn, s["rv"])) or e == df.rvalue_expr(hn, s["rv"])]
            ok = part_of(fl.get("remove")) == [1] and part_of(fl.get("add")) == [2]
        ck.require(ok, rule, "Hunk::new(first, second) stores the positions of the old and the new side in that order",
                   "Hunk::new does not map its first argument to remove.target_line and its second to add.target_line", hn.where())


def r2(ck, rule="C01-R2"):
    rk = ck.anchor("FilePatchMetadata::<'a>::recognize_kind")
    if rk is None:
        return
    n = 0
    for bb, idx, s in rk.stmts():
        if not (s["k"] == "assign" and s["lhs"]["l"] == 0 and "p" not in s["lhs"] and s["rv"]["k"] == "agg" and (s["rv"].get("adt") or "").endswith("FilePatchKind")):
            continue
        kind = s["rv"].get("variant")
        if kind not in ("Create", "Delete"):
            continue
        n += 1
        side = "remove" if kind == "Create" else "add"

        def empty_side(e):
            return df.is_call(e, "::is_empty") and df.mentions(e[2][0], lambda x: isinstance(x, tuple) and x[0] == "field" and x[2] == side)

        def at_zero(e):
            if not (isinstance(e, tuple) and e[0] == "bin" and e[1] == "Eq"):
                return False
            a, b = e[2], e[3]
            for x, y in ((a, b), (b, a)):
                if isinstance(x, tuple) and x[0] == "field" and x[2] == "target_line" and isinstance(x[1], tuple) and x[1][0] == "field" and x[1][2] == side and \
                        isinstance(y, tuple) and y[0] == "const" and y[1] == 0:
                    return True
            return False
        dom_empty = any(bb in cfg.dominated_by_edge(rk, g["true_edge"]) for g in guards.find_bool_guards(rk, empty_side))
        dom_zero = any(bb in cfg.dominated_by_edge(rk, g["true_edge"]) for g in guards.find_bool_guards(rk, at_zero))
        ck.require(dom_empty and dom_zero, rule, "%s only for a hunk whose %s side is the empty range 0,0" % (kind, "old" if side == "remove" else "new"),
                   "a single hunk without context is classified %s whenever its %s side has no lines (empty: %s, at line 0: %s): an insertion or deletion "
                   "in the middle of a file written without context (diff -U0) is taken for the %s of the whole file and refused" % (
                       kind, side, dom_empty, dom_zero, "creation" if kind == "Create" else "deletion"), rk.where(s),
                   ok_detail="guarded by %s.content.is_empty() and %s.target_line == 0" % (side, side))
    ck.floor(rule, "Create / Delete classifications in recognize_kind", n, 2)


def r3(ck, rule="C01-R3"):
    """Applying forward compares and removes the `remove` side and inserts the `add` side; reverting exchanges the two.  Decided on the
    value each public accessor of HunkView returns when the direction is fixed (sides.py) - whether the side is picked by a match, by
    `== Forward`, through a helper or by projecting a pair."""
    from .. import sides
    prog = ck.prog
    want = {"remove_content": {"Forward": "remove", "Revert": "add"}, "remove_target_line": {"Forward": "remove", "Revert": "add"},
            "add_content": {"Forward": "add", "Revert": "remove"}, "add_target_line": {"Forward": "add", "Revert": "remove"}}
    for name, tbl in want.items():
        fn = ck.anchor("HunkView::<'a, 'hunk, Line>::%s" % name)
        if fn is None:
            continue
        got = {d: sorted(sides.part_read(prog, fn, d)) for d in ("Forward", "Revert")}
        ok = all(got[d] == [tbl[d]] for d in got)
        ck.require(ok, rule, "%s() reads the %s side when applying forward and the other one when reverting" % (name, tbl["Forward"]),
                   "%s() maps directions to sides as %s" % (name, got), fn.where(), ok_detail=str(got))
    # try_apply_hunk compares the old side, apply_modify splices old -> new: C03-R1 / C02-R4 check the accessors used there


def r6(ck, rule="C01-R6"):
    """prefix_context / suffix_context are the numbers of leading / trailing *context lines* of the hunk (lines marked ' '), counted
    while the lines are read: anchoring (C02-R2), fuzz trimming (C02-R3) and the frozen line (C03-R4) all rest on them.  A count
    taken from line *contents* instead (common prefix of the two sides) differs when a changed line repeats its neighbour."""
    ph = ck.anchor("libpatch::patch::unified::parser::parse_hunk")
    if ph is None:
        return
    sws = pt.discr_switches(ph, lambda e, rv: (rv.get("adt") or "").endswith("HunkLineType"))
    if not ck.require(len(sws) == 1 and {"Add", "Remove", "Context"} <= set(sws[0]["edges"]), rule, "parse_hunk dispatches on the line marker",
                      "%d matches on HunkLineType" % len(sws), ph.where()):
        return
    # What runs for a line of each kind: reachability with the line type fixed (pathconst), so it does not matter whether the counters
    # are updated inside the arms of the match or later, under flags the match computed.
    from .. import pathconst
    KINDS = ("Add", "Remove", "Context")

    def under(v, blocked=()):
        return pathconst.reach_under(ph, lambda e: None, lambda e, adt: v if (adt or "").endswith("HunkLineType") else None, blocked=blocked,
                                    per_iteration=True)
    R = {v: under(v) for v in KINDS}
    only_context = lambda bb: bb in R["Context"] and bb not in R["Add"] and bb not in R["Remove"]
    stores = {"prefix_context": [], "suffix_context": []}
    for bb, idx, s in ph.stmts():
        if s["k"] != "assign" or "p" not in s["lhs"]:
            continue
        names = [p_.get("name") for p_ in s["lhs"]["p"] if isinstance(p_, dict)]
        for f in stores:
            if names and names[-1] == f:
                e = df.rvalue_expr(ph, s["rv"])
                kind = "other"
                if e == ("const", 0, "usize"):
                    kind = "reset"
                else:
                    x = e
                    if isinstance(x, tuple) and x[0] == "field" and x[2] == 0 and isinstance(x[1], tuple) and x[1][0] == "bin":
                        x = x[1]
                    if isinstance(x, tuple) and x[0] == "bin" and x[1].startswith("Add") and x[3] == ("const", 1, "usize") and \
                            isinstance(x[2], tuple) and x[2][0] == "field" and x[2][2] == f:
                        kind = "inc"
                stores[f].append((bb, s, kind, df.show(e, 80)))
    pre, suf = stores["prefix_context"], stores["suffix_context"]
    ck.floor(rule, "updates of the context counters in parse_hunk", len(pre) + len(suf), 3)
    okp = bool(pre) and all(k == "inc" and only_context(bb) for bb, s, k, sh in pre)
    ck.require(okp, rule, "prefix_context counts leading context lines",
               "prefix_context is updated as %s: not one increment per line marked ' '" % [(sh, "for context lines only" if only_context(bb) else "also for other lines") for bb, s, k, sh in pre],
               ph.where(pre[0][1]) if pre else ph.where(), ok_detail="+= 1 for lines marked ' ' only")
    incs = [x for x in suf if x[2] == "inc"]
    resets = [x for x in suf if x[2] == "reset"]
    oks = bool(incs) and all(only_context(bb) for bb, s, k, sh in incs) and not [x for x in suf if x[2] == "other"] and \
        any(bb in R["Add"] for bb, s, k, sh in resets) and any(bb in R["Remove"] for bb, s, k, sh in resets) and \
        not any(bb in R["Context"] for bb, s, k, sh in resets)
    ck.require(oks, rule, "suffix_context counts trailing context lines",
               "suffix_context is updated as %s: not '+= 1 per context line, back to 0 at every changed line'" % [(sh, k) for bb, s, k, sh in suf],
               ph.where(suf[0][1]) if suf else ph.where(), ok_detail="+= 1 for context lines, = 0 for added and removed lines")
    # every line is counted: an iteration for a context line cannot reach the next one without an increment, one for a changed line
    # not without the reset
    loops = cfg.loops(ph)
    holder = [h for h, body in loops.items() if all(bb in body for bb, s, k, sh in pre + suf)]
    if pre and incs and resets and ck.require(bool(holder), rule, "the counters are updated inside the line loop", "updates are not inside one loop", ph.where()):
        head = min(holder, key=lambda h: len(loops[h]))
        body = loops[head]
        latches = {b for b in ph.preds()[head] if b in body}
        inc_bbs = {bb for bb, s, k, sh in pre + incs}
        reset_bbs = {bb for bb, s, k, sh in resets}
        miss = []

        # from the dispatch on the marker on: a line that never gets there (skipped whole, before it is looked at) is not part of the
        # hunk's content either, so the counts still describe what is stored
        def after_dispatch(v, blocked):
            return pathconst.reach_under(ph, lambda e: None, lambda e, adt: v if (adt or "").endswith("HunkLineType") else None, blocked=blocked,
                                        per_iteration=True, start=[sws[0]["edges"][v][1]])
        if latches & after_dispatch("Context", inc_bbs):
            miss.append("a context line can pass without being counted")
        for v in ("Add", "Remove"):
            if latches & after_dispatch(v, reset_bbs):
                miss.append("a line marked %s can pass without resetting suffix_context" % ("'+'" if v == "Add" else "'-'"))
        ck.require(not miss, rule, "every line updates the counters", "; ".join(miss), ph.where(), ok_detail="no iteration skips its update")
    # leading vs trailing: the two increments sit on opposite sides of one flag that changed lines set
    if pre and incs:
        good = False
        for g in guards.find_bool_guards(ph, lambda e: isinstance(e, tuple) and e[0] == "local"):
            tr, fr = cfg.dominated_by_edge(ph, g["true_edge"]), cfg.dominated_by_edge(ph, g["false_edge"])
            flag = g["expr"][1]
            if all(bb in fr for bb, s, k, sh in pre) and all(bb in tr for bb, s, k, sh in incs):
                sets = [dd for dd in df.defs_of(ph).all(flag) if dd[0] == "stmt"]
                t_in = [dd for dd in sets if df.rvalue_expr(ph, dd[3]["rv"]) == ("const", 1, "bool")]
                f_in = [dd for dd in sets if df.rvalue_expr(ph, dd[3]["rv"]) == ("const", 0, "bool")]
                if any(dd[1] in R["Add"] for dd in t_in) and any(dd[1] in R["Remove"] for dd in t_in) and \
                        not any(dd[1] in R["Context"] and cfg.innermost_loop_of(ph, dd[1]) is not None for dd in t_in) and \
                        all(cfg.innermost_loop_of(ph, dd[1]) is None for dd in f_in) and len(t_in) + len(f_in) == len(sets):
                    good = True
        ck.require(good, rule, "context lines before the first changed line count as prefix, later ones as suffix",
                   "the two counters are not separated by a flag that added and removed lines (and only they) set", ph.where(pre[0][1]))


def run(ck):
    r1(ck)
    r2(ck)
    r3(ck)
    r6(ck)
    from . import c02, c03
    c03.run(ck_alias(ck, "C01-R4"), with_order=False)
    # the position a correct diff names is probed first and accepted whenever the old side is there (matches() refuses without
    # comparing only inadmissible positions - an empty old side at the very end of the file is admissible); scan order as in C02
    c02.r4(ck_alias(ck, "C01-R5"))
    # a side of the diff is absent exactly when its header names /dev/null: the names a file patch carries are the names of the header
    # lines (C16-R4) - nothing else (a time stamp, a mode line) makes a name disappear
    from . import c16
    c16.r4(ck_alias(ck, "C01-R7"))
    # an exact diff applies without offset only if offsets are kept right from hunk to hunk (C02-R6)
    c02.r6_offset_bookkeeping(ck, rule="C01-R8")
    # quoted names are one of the accepted header dialects: what git writes for a non-ASCII name is read back as that name (C12-R9)
    from . import c12
    c12.r9_quoted_form_is_read_back(ck_alias(ck, "C01-R9"))
    # -R is the mirror image: wherever the direction selects between a pair of old/new things, Revert takes the other one (C16-R5)
    c16.r5(ck_alias(ck, "C01-R10"))
    # what is written is B only if writing it does not destroy what is being written: under --mmap the unchanged lines of B are slices
    # of the mapped old file, which stays intact because the file is replaced, never rewritten (C15-R1)
    from . import c15 as _c15
    from ..framework import RuleAlias as _RA
    _c15.run(_RA(ck, lambda r: "C01-R11" if r == "C15-R1" else None))
