"""C19  patch file names can never make a push touch files outside the working tree (DESIGN §4 C19)."""
from .. import cfg, dataflow as df, guards, patterns as pt
from ..common import A, calls_named
from ..facts import callee_of

LEVEL = "other"
EXPLANATION = (
    "Taint rule: the names a file patch carries (old_filename()/new_filename(), after -pN stripping) reach base_dir.join(..) sinks that "
    "load, create, write or delete (a bare existence probe is not a use as target) "
    "only through the modified-files map and PatchStatus, and both are populated only by apply_one_file_patch (checked here and in "
    "C15-R3). Inside that function every Ok return is "
    "dominated by the exhaustion edge of a loop that passes BOTH names through a sanitizer, and the sanitizer's reject edge can only "
    "return Err (which aborts the push before anything is saved, C05/C17). A sanitizer is recognised by shape, not by name: it walks Path::components() and maps "
    "ParentDir, RootDir and Prefix to 'reject'. Not decided: symlinks already present inside the tree (not a property of the names)."
)
LEVEL_NOTE = "Undecided: symlinked directories inside the working tree; Windows path prefixes are covered by Component::Prefix."

COMPONENT = "std::path::Component"


def find_sanitizers(ck):
    """{fn_id: polarity} functions Path -> bool that accept only names without ParentDir/RootDir/Prefix components.
    polarity True: returns true for safe names."""
    prog, cg = ck.prog, ck.cg
    out = {}
    for fn in prog.fns.values():
        if fn.kind == "Closure" or fn.crate != "rapidquilt":
            continue
        if fn.local_ty(0) != "bool":
            continue
        comp = calls_named(fn, "std::path::Path::components")
        if not comp:
            continue
        okd, why = depth_counter_sanitizer(fn)
        if okd is True:
            out[fn.id] = True
            continue
        if okd is False:
            ck.violate("C19-R1", "depth-counting sanitizer %s is right on every arm" % fn.name, why, fn.where())
            continue
        # all(closure) / any(closure) over the components
        for bb, t in fn.calls():
            p = callee_of(t).get("path") or ""
            if not (p.endswith("Iterator::all") or p.endswith("Iterator::any")):
                continue
            is_all = p.endswith("Iterator::all")
            if not (t["dest"]["l"] == 0 or df.local_expr(fn, 0) is not None):
                continue
            # iterator derives from components()
            locs = df.operand_trace(fn, t["args"][0])
            if not any(dd[0] == "call" and (callee_of(dd[2]).get("rpath") or "").endswith("Path::components")
                       for l in locs for dd in df.defs_of(fn).all(l)):
                continue
            cl = None
            for s in cg.out[fn.id]:
                if s.term is t and s.kind == "value" and s.callee in prog.fns:
                    cl = prog.fns[s.callee]
            if cl is None:
                continue
            verdict = closure_verdict(cl)
            if verdict is None:
                continue
            # all(good): reject variants map to false; any(bad): reject variants map to true
            want = 0 if is_all else 1
            bad_variants = ("ParentDir", "RootDir", "Prefix")
            if all(verdict.get(v) == {want} for v in bad_variants) and verdict.get("Normal") == {1 - want}:
                # result returned directly (all) or negated (any)
                ret = df.local_expr(fn, 0) if t["dest"]["l"] != 0 else ("direct",)
                direct = t["dest"]["l"] == 0
                if is_all and direct:
                    out[fn.id] = True
                elif not is_all:
                    # returns !any(bad) ?
                    e = df.local_expr(fn, 0)
                    if isinstance(e, tuple) and e[0] == "un" and e[1] == "Not":
                        out[fn.id] = True
                    elif direct:
                        out[fn.id] = False
    return out


def depth_counter_sanitizer(fn):
    """Second recognised idiom: a loop over Path::components() that keeps the depth below the working directory.

    Returns (True, None) when fn is such a loop and every arm is right, (False, reason) when it is such a loop with a flaw,
    (None, None) when fn is not of this shape at all."""
    loops = [il for il in pt.iterator_loops(fn) if "Components" in il["iter_ty"]]
    sws = pt.discr_switches(fn, lambda e, rv: rv.get("adt") == COMPONENT)
    if len(loops) != 1 or len(sws) != 1 or sws[0]["bb"] not in loops[0]["body"]:
        return None, None
    il, sw = loops[0], sws[0]
    head = il["head"]

    def step(kind):     # locals L with a definition L = L +/- 1 inside the loop
        out = {}
        for bb, idx, s in fn.stmts():
            if bb not in il["body"] or s["k"] != "assign" or "p" in s["lhs"]:
                continue
            e = df.rvalue_expr(fn, s["rv"])
            if isinstance(e, tuple) and e[0] == "field" and e[2] == 0 and isinstance(e[1], tuple) and e[1][0] == "bin":
                e = ("bin", e[1][1].replace("WithOverflow", ""), e[1][2], e[1][3])
            if isinstance(e, tuple) and e[0] == "bin" and e[1] == kind and e[3] == ("const", 1, "usize") and \
                    isinstance(e[2], tuple) and e[2][0] == "local" and e[2][1] == s["lhs"]["l"]:
                out.setdefault(s["lhs"]["l"], []).append(bb)
        return out
    incs, decs = step("Add"), step("Sub")
    counters = set(incs) & set(decs)
    if len(counters) != 1:
        return None, None
    c = counters.pop()

    def region(variant):
        edge = sw["edges"].get(variant) or sw["otherwise"]
        return cfg.reachable(fn, [edge[1]], blocked={head}) - {head}, edge

    def returns_false(blocks):
        return any(s["k"] == "assign" and s["lhs"]["l"] == 0 and "p" not in s["lhs"] and s["rv"]["k"] == "use" and s["rv"]["op"].get("int") == 0
                   for b in blocks for s in fn.blocks[b]["stmts"])

    def continues(blocks):
        return any(head in fn.succs(b) for b in blocks)
    rn, _ = region("Normal")
    if not any(b in rn for b in incs[c]):
        return False, "the Normal arm does not count a directory level"
    rc, _ = region("CurDir")
    if any(b in rc for b in incs[c] + decs[c]):
        return False, "a `.` component changes the depth: `./..` would be accepted although it leaves the working directory"
    if returns_false(rc) and not continues(rc):
        pass    # refusing `.` outright is stricter, fine
    for v in ("RootDir", "Prefix"):
        rv_, _ = region(v)
        if continues(rv_) or not returns_false(rv_):
            return False, "a %s component is not refused" % v
    rp, _ = region("ParentDir")
    dec_here = [b for b in decs[c] if b in rp]
    if not dec_here or any(b in rp for b in incs[c]):
        return False, "the ParentDir arm does not take one level off the depth"
    guarded = False
    for g in guards.find_bool_guards(fn, lambda e: isinstance(e, tuple) and e[0] == "bin" and e[1] in ("Eq", "Ne", "Gt", "Lt", "Le", "Ge")):
        e = g["expr"]
        a, b = e[2], e[3]
        is_c = lambda x: isinstance(x, tuple) and x[0] == "local" and x[1] == c
        zero = lambda x: x == ("const", 0, "usize")
        one = lambda x: x == ("const", 1, "usize")
        # edge on which depth >= 1 is known
        pos_edge = None
        if e[1] == "Eq" and ((is_c(a) and zero(b)) or (is_c(b) and zero(a))):
            pos_edge, neg_edge = g["false_edge"], g["true_edge"]
        elif e[1] == "Ne" and ((is_c(a) and zero(b)) or (is_c(b) and zero(a))):
            pos_edge, neg_edge = g["true_edge"], g["false_edge"]
        elif e[1] == "Gt" and is_c(a) and zero(b) or e[1] == "Lt" and zero(a) and is_c(b) or e[1] == "Ge" and is_c(a) and one(b):
            pos_edge, neg_edge = g["true_edge"], g["false_edge"]
        elif e[1] == "Lt" and is_c(a) and one(b) or e[1] == "Le" and is_c(a) and zero(b):
            pos_edge, neg_edge = g["false_edge"], g["true_edge"]
        if pos_edge is None or g["bb"] not in rp:
            continue
        neg_blocks = cfg.reachable(fn, [neg_edge[1]], blocked={head})
        if all(b in cfg.dominated_by_edge(fn, pos_edge) for b in dec_here) and returns_false(neg_blocks) and head not in neg_blocks and \
                not any(b in neg_blocks for b in dec_here):
            guarded = True
    if not guarded:
        return False, "`..` is not refused when the depth is 0 (or the depth is decremented without that test)"
    ne = il["none_edge"]
    after = cfg.reachable(fn, [ne[1]]) if ne else set()
    ok_true = any(s["k"] == "assign" and s["lhs"]["l"] == 0 and "p" not in s["lhs"] and s["rv"]["k"] == "use" and s["rv"]["op"].get("int") == 1
                  for b in after for s in fn.blocks[b]["stmts"])
    if not ok_true:
        return False, "the name is not accepted after the last component"
    # the counter starts at 0
    init = [dd for dd in df.defs_of(fn).all(c) if dd[1] not in il["body"]]
    if not (len(init) == 1 and init[0][0] == "stmt" and init[0][3]["rv"]["k"] == "use" and init[0][3]["rv"]["op"].get("int") == 0):
        return False, "the depth does not start at 0"
    return True, None


def closure_verdict(cl):
    """variant -> set of bool constants the closure returns on that Component variant."""
    sws = pt.discr_switches(cl, lambda e, rv: rv.get("adt") == COMPONENT)
    if not sws:
        return None
    sw = sws[0]
    res = {}
    names = ["Prefix", "RootDir", "CurDir", "ParentDir", "Normal"]
    for v in names:
        edge = sw["edges"].get(v)
        if edge is None:
            edge = sw["otherwise"]
        r = cfg.reachable(cl, [edge[1]])
        vals = set()
        for b in r:
            for s in cl.blocks[b]["stmts"]:
                if s["k"] == "assign" and s["lhs"]["l"] == 0 and "p" not in s["lhs"] and s["rv"]["k"] == "use" and "int" in s["rv"]["op"]:
                    # only count assignments not shared with other variants' exclusive blocks: take blocks dominated by the edge, or the first reached
                    vals.add(s["rv"]["op"]["int"])
        # restrict to the first assignment on the path: blocks reachable before any other _0 assignment
        first = set()
        seen = set()
        stack = [edge[1]]
        while stack:
            b = stack.pop()
            if b in seen:
                continue
            seen.add(b)
            hit = False
            for s in cl.blocks[b]["stmts"]:
                if s["k"] == "assign" and s["lhs"]["l"] == 0 and "p" not in s["lhs"] and s["rv"]["k"] == "use" and "int" in s["rv"]["op"]:
                    first.add(s["rv"]["op"]["int"])
                    hit = True
            if not hit:
                stack.extend(cl.succs(b))
        res[v] = first
    return res


def run(ck):
    prog, cg = ck.prog, ck.cg
    ao = ck.anchor("apply_one_file_patch")
    gol = ck.anchor("ModifiedFiles::<'arena, 'config>::get_or_load")
    ch = ck.anchor("rapidquilt::apply::common::choose_filename_to_patch")
    if None in (ao, gol, ch):
        return
    rule = "C19-R1"
    sans = find_sanitizers(ck)
    ck.count("sanitizer functions recognised by shape", len(sans))
    if not ck.require(len(sans) >= 1, rule, "a path sanitizer exists",
                      "no function that walks Path::components() and rejects ParentDir/RootDir/Prefix was found: names from a patch are joined to "
                      "the working directory unchecked (absolute names and '..' escape the tree)", ao.where()):
        # still list the sinks for the report
        for s in cg.sites_to(gol.id) + cg.sites_to(ch.id):
            ck.violate(rule, "unsanitised sink %s in %s" % (s.callee.split("::")[-1], s.caller.name), "patch-controlled name reaches %s" % s.callee, s.where())
        return
    # the sanitizer call(s) in apply_one_file_patch
    calls = [(bb, t) for bb, t in ao.calls() if (callee_of(t).get("rpath") or "") in sans]
    covered = set()
    accept_edges = []
    comb_done = []
    # the same check spelled with an iterator combinator: names.find(|n| !is_safe(n)) / any(..) / all(..)
    for bb, t in ao.calls():
        p = callee_of(t).get("path") or ""
        comb = p.split("::")[-1]
        if ao.blocks[bb]["cleanup"] or not p.endswith(("Iterator::find", "Iterator::any", "Iterator::all", "Iterator::position")) or len(t["args"]) < 2:
            continue
        ce = df.operand_expr(ao, t["args"][1])
        if not (isinstance(ce, tuple) and ce and ce[0] == "closure" and ce[1] in prog.fns):
            continue
        cl = prog.fns[ce[1]]
        r0 = df.local_expr(cl, 0)
        neg = False
        while isinstance(r0, tuple) and r0 and r0[0] == "un" and r0[1] == "Not":
            r0, neg = r0[2], not neg
        if not (isinstance(r0, tuple) and r0 and r0[0] == "call" and r0[1] in sans and df.mentions(r0, lambda x: isinstance(x, tuple) and x[0] == "param" and x[1] >= 2)):
            continue
        true_means_unsafe = (sans[r0[1]] == neg)       # polarity True: sanitizer true = safe
        locs = df.operand_trace(ao, t["args"][0])
        for l in locs:
            for dd in df.defs_of(ao).all(l):
                if dd[0] == "call":
                    pth = callee_of(dd[2]).get("rpath") or ""
                    if pth.endswith("::old_filename"):
                        covered.add("old_filename")
                    if pth.endswith("::new_filename"):
                        covered.add("new_filename")
        accept = reject = None
        if comb in ("find", "position") and true_means_unsafe:
            for sw in pt.discr_switches(ao, lambda e, rv: "p" not in rv["pl"] and rv["pl"]["l"] in df.operand_trace(ao, {"k": "copy", "pl": t["dest"]}) | {t["dest"]["l"]}):
                accept, reject = sw["edges"].get("None"), sw["edges"].get("Some")
        elif comb in ("any", "all"):
            for g in guards.find_bool_guards(ao, lambda e: isinstance(e, tuple) and e[0] == "call" and e[1].endswith("Iterator::" + comb)):
                unsafe_edge = g["true_edge"] if (comb == "any") == true_means_unsafe else g["false_edge"]
                safe_edge = g["false_edge"] if unsafe_edge == g["true_edge"] else g["true_edge"]
                if (comb == "any" and true_means_unsafe) or (comb == "all" and not true_means_unsafe):
                    accept, reject = safe_edge, unsafe_edge
        if accept is None or reject is None:
            ck.violate(rule, "verdict of %s(..) over the names is branched on" % comb, "cannot tell which branch means 'some name is unsafe'", ao.where(t))
            continue
        r = cfg.reachable(ao, [reject[1]])
        oks = [b2 for b2 in r for s_ in ao.blocks[b2]["stmts"]
               if s_["k"] == "assign" and s_["lhs"]["l"] == 0 and "p" not in s_["lhs"] and s_["rv"]["k"] == "agg" and s_["rv"].get("variant") == "Ok"]
        rets_err = any(s_["k"] == "assign" and s_["lhs"]["l"] == 0 and s_["rv"]["k"] == "agg" and s_["rv"].get("variant") == "Err"
                       for b2 in r for s_ in ao.blocks[b2]["stmts"])
        ck.require(not oks and rets_err, rule, "an unsafe name makes apply_one_file_patch fail",
                   "from the branch taken when %s(..) found an unsafe name %s" % (comb, "an Ok return is still reachable" if oks else "no Err is returned"), ao.where(t),
                   ok_detail="%s(..) over the names: the 'unsafe' branch returns Err" % comb)
        comb_done.append(accept)
    if not ck.require(len(calls) + len(comb_done) >= 1, rule, "apply_one_file_patch calls the sanitizer", "the sanitizer %s is not called in apply_one_file_patch" % sorted(sans), ao.where()):
        return
    for bb, t in calls:
        pol = sans[callee_of(t)["rpath"]]
        locs = df.operand_trace(ao, t["args"][0])
        for l in locs:
            for dd in df.defs_of(ao).all(l):
                if dd[0] == "call":
                    p = callee_of(dd[2]).get("rpath") or ""
                    if p.endswith("::old_filename"):
                        covered.add("old_filename")
                    if p.endswith("::new_filename"):
                        covered.add("new_filename")
        # the branch on the verdict
        gs = [g for g in guards.find_bool_guards(ao, lambda e: isinstance(e, tuple) and e[0] == "call" and e[1] in sans)]
        gs = [g for g in gs if cfg.dominates(ao, bb, g["bb"])]
        if not ck.require(len(gs) >= 1, rule, "the sanitizer's verdict is branched on", "the result of the sanitizer is not tested", ao.where(t)):
            continue
        for g in gs:
            reject = g["false_edge"] if pol else g["true_edge"]
            accept = g["true_edge"] if pol else g["false_edge"]
            r = cfg.reachable(ao, [reject[1]])
            oks = [b2 for b2 in r for s in ao.blocks[b2]["stmts"]
                   if s["k"] == "assign" and s["lhs"]["l"] == 0 and "p" not in s["lhs"] and s["rv"]["k"] == "agg" and s["rv"].get("variant") == "Ok"]
            rets_err = any(s["k"] == "assign" and s["lhs"]["l"] == 0 and s["rv"]["k"] == "agg" and s["rv"].get("variant") == "Err"
                           for b2 in r for s in ao.blocks[b2]["stmts"])
            ck.require(not oks and rets_err, rule, "an unsafe name makes apply_one_file_patch fail",
                       "from the reject edge of the sanitizer %s" % ("an Ok return is still reachable" if oks else "no Err is returned"), ao.where(t),
                       ok_detail="reject edge returns Err, no Ok return reachable")
            accept_edges.append((g, accept))
    ck.require(covered == {"old_filename", "new_filename"}, rule, "both names of the file patch are sanitised",
               "only %s pass(es) through the sanitizer: the other name can still point outside the tree" % sorted(covered), ao.where(),
               ok_detail="old_filename and new_filename")
    # every use of a name is dominated by "all names passed": the exhaustion edge of the checking loop (or, without a loop, the accept edges)
    check_bbs = {bb for bb, t in calls}
    done_edges = []
    for il in pt.iterator_loops(ao):
        if check_bbs & il["body"] and il["none_edge"]:
            done_edges.append(il["none_edge"])
    if comb_done:
        done_edges = done_edges + comb_done
    if not done_edges:
        done_edges = [a for g, a in accept_edges]
        need_all = True
    else:
        need_all = False
    # apply_one_file_patch can only succeed (Ok) after every name passed: an Err aborts the push before anything is saved (C05/C17),
    # so a name that was loaded or probed before the verdict never becomes a target
    uses = [(b2, s) for b2, i2, s in ao.stmts() if s["k"] == "assign" and s["lhs"]["l"] == 0 and "p" not in s["lhs"]
            and s["rv"]["k"] == "agg" and s["rv"].get("variant") == "Ok"]
    ck.floor(rule, "Ok returns of apply_one_file_patch", len(uses), 2)
    for b2, s in uses:
        if need_all:
            ok = all(b2 in cfg.dominated_by_edge(ao, e) for e in done_edges) and len(done_edges) >= 2
        else:
            ok = any(b2 in cfg.dominated_by_edge(ao, e) for e in done_edges)
        ck.require(ok, rule, "apply_one_file_patch returns Ok only after both names passed the sanitizer",
                   "an Ok return is reachable before the names were checked", ao.where(s))
    # sinks elsewhere take their names from what apply_one_file_patch recorded
    all_aggs = [(fn, s) for fn in prog.fns.values() for b2, i2, s in fn.stmts()
                if s["k"] == "assign" and s["rv"]["k"] == "agg" and (s["rv"].get("adt") or "").endswith("common::PatchStatus")]
    for fn, s in all_aggs:
        ck.require(fn.id == ao.id, rule, "PatchStatus built in %s" % fn.id, "a PatchStatus (carrier of patch-controlled names) is built outside apply_one_file_patch", fn.where(s))
    for s in cg.sites_to(gol.id):
        ck.require(s.caller.id == ao.id, rule, "get_or_load called from %s" % s.caller.id,
                   "the modified-files map is populated outside apply_one_file_patch (unsanitised)", s.where())
    # joins of base_dir with a name derived directly from a file patch must also be behind the check
    for fn in prog.fns.values():
        if fn.crate != "rapidquilt" or fn.id == ao.id:
            continue
        for bb, t, c in calls_named(fn, "std::path::Path::join", "std::path::PathBuf::push"):
            e = df.operand_expr(fn, t["args"][1])
            direct = [x for x in df.walk(e) if df.is_call(x, "::old_filename", "::new_filename")]
            if direct:
                # allowed only for names of an already recorded PatchStatus (applied_patch.file_patch...)
                okp = df.mentions(e, lambda x: isinstance(x, tuple) and x[0] == "field" and x[2] == "file_patch")
                ck.require(okp, rule, "join of a raw patch name in %s" % fn.id,
                           "base_dir is joined with %s outside the sanitised path" % df.show(e, 100), fn.where(t))
