"""C15  files are replaced, never edited in place; only named files are touched (DESIGN §4 C15)."""
from .. import callgraph, cfg, dataflow as df, guards
from ..common import A, calls_named, calls_to, open_chain_flags, arg_by_name
from ..facts import callee_of

LEVEL = "proof"
EXPLANATION = (
    "Decides: (R1) every creation of a writable handle on a working-tree path is dominated — on the paths where the "
    "file existed — by an unlink of the same path value, so the new content always gets a fresh inode; (R2) file-system "
    "write primitives occur only below the output entry points of the save layer (call-graph dominance), nowhere else in "
    "either crate; (R3) the paths written by the save layer derive from keys of the modified-files map, and keys enter "
    "that map only in get_or_load from names carried by the file patch; (R4) permissions are set on the freshly created "
    "handle, never by path; (R5) mmap mappings are PROT_READ + MAP_PRIVATE and unmapped only in Drop. With POSIX "
    "unlink+create semantics these imply the property for tree files. `.pc/**` is the tool's own metadata area and exempt. (R8) `existed` of a record built from the disk is what the load answered, and is never rewritten."
)
LEVEL_NOTE = "Assumes POSIX unlink/O_CREAT semantics; symlinks already inside the tree are not a property of patch names."

CREATE_PRIMS = ("std::fs::File::create", "std::fs::File::create_new", "std::fs::OpenOptions::open", "std::fs::write",
                "std::fs::copy", "std::fs::rename", "std::fs::hard_link")
OUTPUT_ENTRY_SUFFIXES = (
    "rapidquilt::apply::common::save_modified_file",
    "rapidquilt::apply::common::save_backup_file",
    "rollback_and_save_rej_files",
    "rapidquilt::apply::common::clean_empty_directories",
    "rapidquilt::cmd::save_applied_patches",
)


def mentions_pc(fn, e):
    return df.mentions_deep(fn, e, lambda x: df.is_const(x, ".pc", ".pc/applied-patches"))


def path_arg_expr(fn, t):
    # all create-like primitives take the path first; OpenOptions::open takes (self, path)
    c = callee_of(t)
    idx = 1 if c["rpath"].endswith("OpenOptions::open") else 0
    return df.operand_expr(fn, t["args"][idx])


def owner_fn(prog, fn):
    """A closure's enclosing function."""
    while fn.kind == "Closure" and fn.parent in prog.fns:
        fn = prog.fns[fn.parent]
    return fn


def run(ck):
    prog, cg = ck.prog, ck.cg
    main = ck.anchor(A["main"])
    if main is None:
        return
    prims = cg.fs_write_sites()
    ck.count("file-system-write primitive call sites", len(prims))

    # ---- R1 fresh inode ------------------------------------------------------------------------
    n_create = 0
    n_tree = 0
    for site, lab in prims:
        if site.callee not in CREATE_PRIMS:
            continue
        n_create += 1
        fn = site.caller
        e = path_arg_expr(fn, site.term)
        inst = "%s in %s" % (site.callee, fn.id)
        # closures (e.g. save_backup_file's and_then chain) take the path from their captured environment
        probe = e
        pfn = fn
        if fn.kind == "Closure":
            pfn = owner_fn(prog, fn)
            for bb, idx, s in pfn.stmts():
                if s["k"] == "assign" and s["rv"]["k"] == "agg" and s["rv"].get("closure") == fn.id:
                    probe = ("agg", "closure-env", None, tuple(df.operand_expr(pfn, o) for o in s["rv"]["ops"]))
        if mentions_pc(pfn, probe):
            ck.ok("C15-R1", inst, "path is below .pc (tool metadata area, exempt): %s" % df.show(probe, 120), site.where())
            continue
        n_tree += 1
        if site.callee.endswith("OpenOptions::open"):
            # create(true)+truncate(true)+write(true) (no append) is File::create; create_new(true) cannot hit an existing inode at all
            d = open_chain_flags(fn, site.term)
            as_create = d is not None and d.get("append", [0]) == [0] * len(d.get("append", [0])) and \
                (d.get("create_new") == [1] or (d.get("create") == [1] and d.get("truncate") == [1] and d.get("write") == [1]))
            if d is not None and d.get("create_new") == [1]:
                ck.ok("C15-R1", inst, "opened with create_new(true): fails on an existing name, never writes through one", site.where())
                continue
            if not as_create:
                ck.violate("C15-R1", inst, "working-tree path opened through OpenOptions (%s): may write in place: %s" % (d, df.show(e)), site.where())
                continue
        # path constants: the file existed
        ex_guards = guards.field_guards(fn, "existed")
        disabled = {g["false_edge"] for g in ex_guards}
        unlinks = []
        for bb, t, c in calls_named(fn, "std::fs::remove_file"):
            ue = df.operand_expr(fn, t["args"][0])
            if ue == e:
                unlinks.append(bb)
        dominated = any(cfg.dominates(fn, ub, site.bb, disabled) and ub != site.bb for ub in unlinks)
        ck.require(dominated, "C15-R1", inst,
                   "creation of %s is not dominated by an unlink of the same path when the file existed "
                   "(an existing hard-linked or symlinked file would be written in place)" % df.show(e, 120),
                   site.where(),
                   ok_detail="dominated by remove_file(%s)%s" % (df.show(e, 80), " under existed=true" if ex_guards else ""))
    ck.floor("C15-R1", "handle-creating primitive sites", n_create, 4)
    ck.floor("C15-R1", "working-tree creation sites", n_tree, 2)

    # ---- R2 who may write ------------------------------------------------------------------------
    entries = []
    for suf in OUTPUT_ENTRY_SUFFIXES:
        hit = prog.find(suf)
        if len(hit) != 1:
            ck.violate("C15-R2", "anchor:" + suf, "reason=anchor output entry point %s resolves to %d functions" % (suf, len(hit)))
        else:
            entries.append(hit[0].id)
    entry_set = set(entries)
    from ..common import external_roots
    roots = [main.id] + external_roots(prog)
    # functions reachable from the roots without entering an output entry point
    outside = cg.closure(roots, skip_site=lambda s: s.callee in entry_set)
    outside -= entry_set
    for site, lab in prims:
        fn = site.caller
        inst = "%s in %s" % (site.callee, fn.id)
        if fn.id in outside:
            chain = cg.path(main.id, fn.id, skip_site=lambda s: s.callee in entry_set)
            ck.violate("C15-R2", inst,
                       "file-system write (%s) outside the save layer: %s" % (lab, callgraph.format_chain(chain) if chain else fn.id),
                       site.where())
        else:
            ck.ok("C15-R2", inst, "only reachable through an output entry point of the save layer", site.where())
    ck.floor("C15-R2", "file-system-write primitive sites", len(prims), 11)

    # ---- R3 only named files are touched -------------------------------------------------------------
    smf = ck.anchor("rapidquilt::apply::common::save_modified_file")
    get_or_load = ck.anchor("ModifiedFiles::<'arena, 'config>::get_or_load")
    save = ck.anchor("ModifiedFiles::<'arena, 'config>::save")
    apply_one = ck.anchor("apply_one_file_patch")
    if None not in (smf, get_or_load, save, apply_one):
        # (a) primitives in save_modified_file write base_dir.join(filename)
        nprim = 0
        for site, lab in prims:
            if site.caller.id != smf.id:
                continue
            if site.callee.endswith("set_permissions"):
                continue
            nprim += 1
            e = path_arg_expr(smf, site.term) if site.callee in CREATE_PRIMS else df.operand_expr(smf, site.term["args"][0])
            params = {x[2] for x in df.walk(e) if isinstance(x, tuple) and x and x[0] == "param"}
            consts = [x for x in df.walk(e) if isinstance(x, tuple) and x and x[0] == "const"]
            base_ok = "base_dir" in df.fields_in(e)
            if not base_ok and "base_dir" in params:
                # the directory handed in as a parameter of its own: every caller passes config.base_dir
                sites_ = [(g, t2) for g in prog.fns.values() for b2, t2 in g.calls() if (callee_of(t2).get("rpath") or "") == smf.id and not g.blocks[b2]["cleanup"]]
                base_ok = bool(sites_) and all("base_dir" in df.fields_in(df.operand_expr(g, arg_by_name(prog, t2, "base_dir", 0))) for g, t2 in sites_)
            good = "filename" in params and base_ok and not consts
            ck.require(good, "C15-R3", "%s path in save_modified_file" % site.callee,
                       "path written is %s, expected to derive only from config.base_dir and the `filename` parameter" % df.show(e),
                       site.where(), ok_detail="path = %s" % df.show(e, 100))
        ck.floor("C15-R3", "path primitives in save_modified_file", nprim, 3)
        # (b) save passes map keys
        for bb, t, c in calls_named(save, "rapidquilt::apply::common::save_modified_file"):
            e = df.operand_expr(save, arg_by_name(prog, t, "filename", 1))
            from_iter = df.mentions(e, lambda x: isinstance(x, tuple) and x and x[0] == "call" and x[1].endswith("Iterator>::next")) or \
                df.mentions(e, lambda x: isinstance(x, tuple) and x and x[0] == "call" and "hash::map::Iter" in x[1])
            ck.require(from_iter, "C15-R3", "save_modified_file filename argument in ModifiedFiles::save",
                       "filename passed to save_modified_file is %s, expected an item of the map iteration" % df.show(e),
                       save.where(t), ok_detail="filename = %s" % df.show(e, 100))
        # (c) keys are inserted only by get_or_load
        inserts = []
        for fn in prog.fns.values():
            for bb, t in fn.calls():
                c = callee_of(t)
                p = c["rpath"] or ""
                if p.startswith("std::collections::hash::map::HashMap") and p.split("::")[-1] in (
                        "entry", "insert", "try_insert", "extend", "get_or_insert_with", "raw_entry_mut"):
                    a0ty = t["argtys"][0] if t["argtys"] else ""
                    if "ModifiedFile<" in a0ty or "ModifiedFiles" in a0ty:
                        inserts.append((fn, bb, t))
        ck.count("insertions into the modified-files map", len(inserts))
        for fn, bb, t in inserts:
            ck.require(fn.id == get_or_load.id, "C15-R3", "map insertion in %s" % fn.id,
                       "the modified-files map is populated outside get_or_load", fn.where(t))
        ck.floor("C15-R3", "map insertion sites", len(inserts), 1)
        for fn, bb, t in inserts:
            if fn.id != get_or_load.id:
                continue
            e = df.operand_expr(fn, t["args"][1])
            ok = isinstance(e, tuple) and e[0] == "param" and e[2] == "filename"
            ck.require(ok, "C15-R3", "inserted key in get_or_load", "key inserted is %s, expected the `filename` parameter" % df.show(e), fn.where(t))
        # (d) every get_or_load caller passes a name carried by the file patch
        sites = cg.sites_to(get_or_load.id)
        ck.floor("C15-R3", "callers of get_or_load", len(sites), 3)
        for s in sites:
            fn = s.caller
            e = df.operand_expr(fn, s.term["args"][1])
            names = [x for x in df.walk(e) if isinstance(x, tuple) and x and x[0] == "call" and
                     (x[1].endswith("::old_filename") or x[1].endswith("::new_filename"))]
            foreign = [x for x in df.walk(e) if isinstance(x, tuple) and x and x[0] == "const"]
            ck.require(bool(names) and not foreign, "C15-R3", "get_or_load argument in %s" % fn.id,
                       "name loaded is %s, expected to derive from old_filename()/new_filename() of the file patch" % df.show(e),
                       s.where(), ok_detail="name = %s" % df.show(e, 140))

    # ---- R4 permissions are set on the fresh inode -----------------------------------------------------------
    nperm = 0
    for site, lab in prims:
        fn = site.caller
        if site.callee == "std::fs::set_permissions":
            nperm += 1
            e = df.operand_expr(fn, site.term["args"][0])
            creates = [bb for bb, t, c in calls_named(fn, "std::fs::File::create", "std::fs::File::create_new", "std::fs::OpenOptions::open")
                       if path_arg_expr(fn, t) == e]
            ok = any(cfg.dominates(fn, cb, site.bb) and cb != site.bb for cb in creates)
            ck.require(ok, "C15-R4", "%s in %s" % (site.callee, fn.id),
                       "permissions set by path %s without a dominating creation of that path: the mode of a shared "
                       "(hard-linked) inode would change" % df.show(e, 100), site.where(),
                       ok_detail="by path, dominated by File::create of the same path")
        if site.callee == "std::fs::File::set_permissions":
            nperm += 1
            e = df.operand_expr(fn, site.term["args"][0])
            ok = df.mentions_deep(fn, e, lambda x: df.is_call(x, "std::fs::File::create") or df.is_call(x, "std::fs::File::create_new") or
                                  df.is_call(x, "std::fs::OpenOptions::open")) or \
                (fn.kind == "Closure" and isinstance(e, tuple) and e[0] in ("param", "local"))
            ck.require(ok, "C15-R4", "%s in %s" % (site.callee, fn.id),
                       "set_permissions on %s which is not the freshly created handle" % df.show(e), site.where(),
                       ok_detail="handle = %s" % df.show(e, 100))
    ck.floor("C15-R4", "permission-setting sites", nperm, 2)

    # ---- R5 mappings private, read-only, unmapped only in Drop -----------------------------------------------------
    nmmap = 0
    for fn in prog.fns.values():
        for bb, t in fn.calls():
            c = callee_of(t)
            p = c["rpath"] or ""
            if p.startswith("libc::") and p.endswith("::mmap"):
                nmmap += 1
                prot = df.operand_expr(fn, t["args"][2])
                flags = df.operand_expr(fn, t["args"][3])
                okp = prot == ("const", 1, "i32")          # PROT_READ
                okf = flags == ("const", 2, "i32")         # MAP_PRIVATE
                ck.require(okp and okf, "C15-R5", "mmap protection/flags in %s" % fn.id,
                           "mmap called with prot=%s flags=%s, expected PROT_READ (1) and MAP_PRIVATE (2)" % (df.show(prot), df.show(flags)),
                           fn.where(t), ok_detail="prot=PROT_READ flags=MAP_PRIVATE")
            if p.startswith("libc::") and (p.endswith("::munmap") or p.endswith("::mremap") or p.endswith("::mprotect")):
                ok = fn.impl_trait == "core::ops::drop::Drop"
                ck.require(ok, "C15-R5", "%s in %s" % (p.split("::")[-1], fn.id),
                           "%s called outside a Drop impl: mapped file content could change or vanish during the run" % p, fn.where(t),
                           ok_detail="only in Drop")
    ck.floor("C15-R5", "mmap call sites", nmmap, 1)
    # the unlink that precedes re-creating a file may only be passed over when there was nothing to unlink (shared with C18-R6)
    from .c18 import r6_only_notfound_tolerated
    r6_only_notfound_tolerated(ck, rule="C15-R6")
    # `existed` (unlink before re-creating) is only as good as the way files get into the map (shared with C16-R3)
    from . import c16
    c16.r3(ck, rule="C15-R7")
    r8_existed_never_rewritten(ck)
    r8b_existed_is_what_the_load_answered(ck)


def r8b_existed_is_what_the_load_answered(ck, rule="C15-R8"):
    """... and when the record is built from the disk it says what the load answered: a file that could be loaded existed (`true`, a
    constant - not a guess from its content such as "it is empty"); only `new_non_existent()` says otherwise.  A file taken for absent
    is not unlinked before it is written: created over the existing inode."""
    gol = ck.anchor("ModifiedFiles::<'arena, 'config>::get_or_load")
    if gol is None:
        return
    news = [(bb, t) for bb, t in gol.calls() if (callee_of(t).get("rpath") or "").startswith("libpatch::modified_file::ModifiedFile::<") and (callee_of(t).get("rpath") or "").endswith(">::new") and not gol.blocks[bb]["cleanup"]]
    ck.floor(rule, "records built from loaded data in get_or_load", len(news), 1)
    for bb, t in news:
        a = arg_by_name(ck.prog, t, "existed", 1)
        e = df.operand_expr(gol, a) if a is not None else None
        ck.require(df.is_const(e, 1, True), rule, "a file that could be loaded is recorded as existing",
                   "get_or_load records `existed` = %s for a file it has just loaded: when that is false for a file that is on disk, the file is "
                   "not unlinked before it is written and its inode (shared with every hard link) is rewritten in place" % df.show(e, 80),
                   gol.where(t), ok_detail="existed = true")


def r8_existed_never_rewritten(ck, rule="C15-R8"):
    """`ModifiedFile.existed` says whether there is an inode to unlink before the file is created again; it describes the disk at the
    start of the push and belongs to the record of a *name*.  It is set when a record is built and never afterwards: no assignment to
    the field, no whole-record overwrite through a reference (`*record = ...`), no swap / replace / take of whole records."""
    prog = ck.prog
    MF = "libpatch::modified_file::ModifiedFile"
    is_mf = lambda ty: isinstance(ty, str) and ty.replace("&mut ", "").replace("&", "").lstrip("'a ").startswith(MF)
    built = 0
    bad = []
    for fn in prog.fns.values():
        for bb, idx, s in fn.stmts():
            if s["k"] != "assign" or fn.blocks[bb]["cleanup"]:
                continue
            rv = s["rv"]
            if rv["k"] == "agg" and (rv.get("adt") or "") == MF:
                built += 1
            proj = s["lhs"].get("p") or []
            if not proj:
                continue
            last = proj[-1]
            if isinstance(last, dict) and last.get("adt") == MF and last.get("name") == "existed":
                bad.append((fn, s, "assigns the field `existed` of an existing record"))
            elif last == "deref" and is_mf(s["lhs"].get("ty") or ""):
                bad.append((fn, s, "overwrites a whole record through a reference (its `existed` goes with it)"))
        for bb, t in fn.calls():
            if fn.blocks[bb]["cleanup"]:
                continue
            p = callee_of(t).get("path") or ""
            if p in ("core::mem::swap", "core::mem::replace", "core::mem::take") or p.endswith("Clone::clone_from"):
                if t["argtys"] and t["argtys"][0].startswith("&mut ") and is_mf(t["argtys"][0]):
                    bad.append((fn, t, "%s on whole records (their `existed` goes with it)" % p.split("::")[-1]))
    ck.floor(rule, "constructions of ModifiedFile", built, 3)
    inst = "`existed` is fixed when a record is built"
    if bad:
        for fn, node, why in bad:
            ck.violate(rule, inst + " (%s)" % fn.id.split("::")[-1],
                       "%s %s: whether save unlinks the old inode before creating the file would no longer describe the disk at the start "
                       "of the push - a file that is on disk can be truncated and rewritten in place, through every hard link" % (fn.id, why),
                       fn.where(node))
    else:
        ck.ok(rule, inst, "%d constructions; no field assignment, no whole-record overwrite / swap / replace / take anywhere" % built)
