"""C09  pushes compose (DESIGN §4 C09)."""
from .. import callgraph, cfg, dataflow as df, guards, noninterf, patterns as pt
from ..common import A, calls_named, builder_chain, is_log_open
from ..facts import callee_of
from . import c04

LEVEL = "other"
EXPLANATION = (
    "Decides: (R1) the applied-patches log is opened append-only (builder-chain typestate: append(true) and create(true) "
    "applied, no truncate/write/create_new) so an earlier push's names survive; (R2) the range pushed starts where the "
    "log ends (lower slice bound = number of names read from .pc/applied-patches, or 0 when it cannot be read) and the "
    "Count/UpTo goals are resolved relative to that value; the names are appended in series order by a forward loop; "
    "(R3) the 'nothing to do' decision and everything else in cmd_push is independent of verbosity (flag non-interference). "
    "(R4) name resolution and loading consult the disk only for names the current invocation has not touched (the in-memory "
    "state of a file deleted, created or renamed earlier in the same push shadows the stale disk state, as a separate later "
    "invocation would see it). (R8) the in-memory record of a name resolves a two-name file patch exactly as the disk would had the run been cut there (four-row table). Not decided: equality of trees across different splittings (content, history)."
)
LEVEL_NOTE = "Undecided: equality of the resulting trees for different splittings of a series."


def copy_chain(fn, op):
    """Locals holding the very same value as operand `op`: followed backwards through plain copies / moves and through the
    Continue payload of a `?` (but not through arithmetic or calls)."""
    out = set()
    cur = op
    for _ in range(12):
        if cur.get("k") not in ("copy", "move"):
            break
        pl = cur["pl"]
        out.add(pl["l"])
        if "p" in pl:
            break
        one = df.defs_of(fn).single(pl["l"])
        if not one or one[0] != "stmt" or one[3]["rv"]["k"] != "use":
            break
        cur = one[3]["rv"]["op"]
    return out


def run(ck):
    prog, cg = ck.prog, ck.cg
    cmd_push = ck.anchor(A["cmd_push"])
    if cmd_push is None:
        return
    # ---- R1 ------------------------------------------------------------------------------------------
    opens = []
    for fn in prog.fns.values():
        for bb, t, c in calls_named(fn, "std::fs::OpenOptions::open"):
            if is_log_open(fn, t):      # other OpenOptions users (none today) are C15's business, not the log's
                opens.append((fn, bb, t))
    ck.floor("C09-R1", "OpenOptions::open sites", len(opens), 1)
    for fn, bb, t in opens:
        ch = builder_chain(fn, t["args"][0])
        inst = "OpenOptions chain in %s" % fn.id
        if ch is None:
            ck.violate("C09-R1", inst, "the OpenOptions value reaching open() cannot be followed back to OpenOptions::new()", fn.where(t))
            continue
        d = {}
        for m, v in ch:
            d.setdefault(m, []).append(v)
        problems = []
        if d.get("append") != [1]:
            problems.append("append(true) missing")
        if d.get("create") != [1]:
            problems.append("create(true) missing (first push would fail)")
        for m in ("truncate", "write", "create_new"):
            if any(v != 0 for v in d.get(m, [])):
                problems.append("%s(..) applied" % m)
        ck.require(not problems, "C09-R1", inst,
                   "the applied-patches log is not opened append-only: %s (chain: %s)" % ("; ".join(problems), ch), fn.where(t),
                   ok_detail="chain %s" % ch)
    # the writer loops forward over its slice argument
    sap = ck.anchor(A["save_applied"])
    if sap is not None:
        its = pt.iterations(sap, prog)
        fw = [it for it in its if "core::slice::iter::Iter<" in it["iter_ty"] and it["forward"]]
        ck.require(len(fw) == 1 and len(its) == 1, "C09-R1", "names appended in series order",
                   "the log writer iterates %s" % [(it["kind"], it["iter_ty"]) for it in its], sap.where(),
                   ok_detail=fw[0]["iter_ty"] if fw else "")
        # what is iterated is the slice parameter
        for it in fw:
            op = it["il"]["next_term"]["args"][0] if it["kind"] == "loop" else it["term"]["args"][0]
            locs = df.operand_trace(sap, op)
            ck.require(2 in locs, "C09-R1", "the loop iterates the slice argument", "iterator does not derive from the slice parameter", sap.where())

    # ---- R2 ------------------------------------------------------------------------------------------
    slices = []
    for bb, t in cmd_push.calls():
        c = callee_of(t)
        if (c.get("path") or "").endswith("Index::index") or (c.get("rpath") or "").endswith("::index"):
            e = df.operand_expr(cmd_push, t["args"][1])
            base = df.operand_expr(cmd_push, t["args"][0])
            if isinstance(e, tuple) and e[0] == "agg" and e[1].endswith("ops::range::Range") and \
                    df.mentions(base, lambda x: isinstance(x, tuple) and x[0] == "local" and x[2] == "series_patches" or df.is_call(x, "read_series_file")):
                slices.append((bb, t, e))
    ck.floor("C09-R2", "range slices of the series in cmd_push", len(slices), 1)
    for bb, t, e in slices:
        lo, hi = e[3][0], e[3][1]
        if lo == ("const", 0, "usize"):
            continue   # the applied prefix slice, see C05-R1
        ok_lo = False
        detail = df.show(lo)
        through_try = df.try_payload_defs(cmd_push, lo)
        if through_try is not None or (isinstance(lo, tuple) and lo[0] == "local"):
            defs = [x for x, _ in through_try] if through_try is not None else df.all_def_exprs(cmd_push, lo[1])
            flat = []
            for dx in defs:         # a payload that is itself a local with several definitions (if / else inside the helper)
                if isinstance(dx, tuple) and dx and dx[0] == "local":
                    flat += df.all_def_exprs(cmd_push, dx[1]) or [dx]
                else:
                    flat.append(dx)
            defs = flat
            kinds = []
            for dx in defs:
                if dx == ("const", 0, "usize"):
                    kinds.append("zero")
                elif df.is_call(dx, "Vec::<T, A>::len") and df.mentions_deep(
                        cmd_push, dx, lambda x: df.is_const(x, ".pc/applied-patches")):
                    kinds.append("len(applied)")
                else:
                    kinds.append("other:" + df.show(dx, 80))
            ok_lo = sorted(set(kinds)) == ["len(applied)", "zero"]
            detail = "%s := %s" % (lo[2] if lo[0] == "local" else "first patch", kinds)
        ck.require(ok_lo, "C09-R2", "lower bound = number of names already in .pc/applied-patches",
                   "the range pushed starts at %s" % detail, cmd_push.where(t), ok_detail=detail)
        ok_hi = False
        hdetail = df.show(hi)
        # locals that carry the lower bound (the named variable, the payload of `helper(..)?`, ...)
        lo_locals = set()
        rl = t["args"][1]["pl"]["l"] if t["args"][1].get("k") in ("copy", "move") and "p" not in t["args"][1]["pl"] else None
        one = df.defs_of(cmd_push).single(rl) if rl is not None else None
        if one and one[0] == "stmt" and one[3]["rv"]["k"] == "agg" and len(one[3]["rv"]["ops"]) == 2:
            lo_locals = copy_chain(cmd_push, one[3]["rv"]["ops"][0])
        if isinstance(lo, tuple) and lo[0] == "local":
            lo_locals.add(lo[1])
        hi_try = df.try_payload_defs(cmd_push, hi)
        hi_defs = None
        if hi_try is not None:
            pls = {x for x, _ in hi_try}
            if len(pls) == 1 and isinstance(next(iter(pls)), tuple) and next(iter(pls))[0] == "local":
                hi = next(iter(pls))
            elif all(b_ is not None for _, b_ in hi_try):
                # the helper returns Ok(<expression>) on each arm: one "definition" per aggregate
                hi_defs = [{"bb": b_, "ex": x_, "locs": set(df.trace_locals(cmd_push, [y[1] for y in df.walk(x_) if isinstance(y, tuple) and y and y[0] in ("local", "param")])),
                            "res": None} for x_, b_ in hi_try]
        if hi_defs is None and isinstance(hi, tuple) and hi[0] == "local":
            hi_defs = []
            for dd in df.defs_of(cmd_push).all(hi[1]):
                hi_defs.append({"bb": dd[1],
                                "ex": df.rvalue_expr(cmd_push, dd[3]["rv"]) if dd[0] == "stmt" else df.call_expr(cmd_push, dd[2]),
                                "locs": set(df.trace_locals(cmd_push, df._rv_locals(dd[3]["rv"]) if dd[0] == "stmt" else
                                                            [x for a in dd[2]["args"] for x in df._operand_locals(a)])),
                                "res": dd[3]["lhs"]["l"] if dd[0] == "stmt" else dd[2]["dest"]["l"]})
        if hi_defs is not None and lo_locals:
            goal_sw = pt.discr_switches(cmd_push, lambda e_, rv: (rv.get("adt") or "").endswith("cmd::PushGoal"))
            arms = {}
            for sw in goal_sw:
                for v, edge in sw["edges"].items():
                    arms.setdefault(v, set()).update(cfg.dominated_by_edge(cmd_push, edge))
            kinds = []
            bad = []
            for hd in hi_defs:
                arm = [v for v, blocks in arms.items() if hd["bb"] in blocks]
                locs = hd["locs"]
                ex = hd["ex"]
                if arm == ["Count"]:
                    uses_first = bool(lo_locals & set(locs)) or df.mentions(ex, lambda y: y == lo)
                    uses_n = df.mentions(ex, lambda x: isinstance(x, tuple) and x[0] == "downcast" and x[2] == "Count")
                    # a clamp written out (`if wanted < len { wanted } else { len }`) has a second definition in this arm: the length
                    is_len = (df.is_call(ex, "::len") or df.mentions(ex, lambda x: df.is_call(x, "::len"))) and not uses_n
                    if uses_first and uses_n:
                        kinds.append("Count: depends on first_patch and n")
                    elif is_len and any(h2 is not hd and [v for v, blocks in arms.items() if h2["bb"] in blocks] == ["Count"] and
                                        (bool(lo_locals & set(h2["locs"])) or df.mentions(h2["ex"], lambda y: y == lo)) and
                                        df.mentions(h2["ex"], lambda x: isinstance(x, tuple) and x[0] == "downcast" and x[2] == "Count") for h2 in hi_defs):
                        kinds.append("Count: clamped to the length of the series")
                    else:
                        bad.append("Count goal resolved as %s (depends on first_patch: %s, on n: %s)" % (df.show(ex, 120), uses_first, uses_n))
                elif arm == ["UpTo"]:
                    # the index found by position() must live in the index space of the slice that is cut afterwards:
                    # searched slice == sliced slice, or the offset of the searched sub-slice is added back
                    from .. import ranges
                    an = ranges.Analyzer(prog)
                    base_path = an.cpath(cmd_push, t["args"][0]["pl"], None) if t["args"][0].get("k") in ("copy", "move") else None
                    pos = [(b2, t2) for b2, t2 in cmd_push.calls() if (callee_of(t2).get("rpath") or "").endswith("Iterator>::position")
                           and (t2["dest"]["l"] in (df.trace_locals(cmd_push, [hd["res"]]) if hd["res"] is not None else locs))]
                    if not pos:
                        kinds.append("UpTo: %s" % df.show(ex, 60))
                    for b2, t2 in pos:
                        sp = an.slice_of_iter(cmd_push, t2["args"][0], None)
                        same = sp is not None and base_path is not None and sp == base_path
                        offset_added = False
                        if not same and sp is not None:
                            # sub-slice produced by split_at(base, a) / base[a..]: accept when `a` is added to the index
                            offset_added = bool(lo_locals & set(locs)) and df.mentions(ex, lambda x: isinstance(x, tuple) and x[0] == "bin" and x[1].startswith("Add") and
                                                                                     any(y == lo or (isinstance(y, tuple) and y[0] == "local" and y[1] in lo_locals) for y in x[2:4]))
                        if same or offset_added:
                            kinds.append("UpTo: position in the sliced series + 1")
                        else:
                            bad.append("the goal patch is searched in %s but its index is used in %s without adding the offset back: "
                                       "after a partial push `push <name>` stops at the wrong patch" % (sp, base_path))
                elif len(arm) == 1:
                    kinds.append("%s: %s" % (arm[0], df.show(ex, 60)))
                else:
                    bad.append("upper bound assigned outside the goal match: %s" % df.show(ex, 100))
            ok_hi = not bad and any(k.startswith("Count") for k in kinds)
            hdetail = "; ".join(bad) if bad else str(kinds)
        ck.require(ok_hi, "C09-R2", "upper bound of Count / UpTo goals lives in the index space of the series", "last_patch: %s" % hdetail, cmd_push.where(t), ok_detail=hdetail)
    # the UpTo goal refuses an already applied patch: comparison index < first_patch guards an Err return
    # (checked as part of C17-R2)

    # ---- R4: what one invocation did in memory shadows the disk, exactly as a later invocation would find it on disk ----
    from . import c16
    c16.r3(ck, rule="C09-R4")

    # ---- R5: the log stores names only, so the log is compared with the series by name only ------------------------------------------
    r5_names_only(ck, cmd_push, sap)

    # ---- R6: a file created where an earlier patch of the same run deleted one is a new file ------------------------------------------
    r6_created_file_is_new(ck)

    # ---- R7: `existed` is about this invocation's start, so it may only steer how a file is written back -------------------------------
    MF = "libpatch::modified_file::ModifiedFile"
    readers = {}
    for fn in prog.fns.values():
        n_ = len([1 for bb, nm in df.adt_field_uses(fn, MF) if nm == "existed"])
        if n_:
            readers[fn.id] = n_
    allowed = lambda fid: fid.endswith("apply::common::save_modified_file") or fid.startswith("libpatch::modified_file::ModifiedFile") or \
        fid.startswith("<libpatch::modified_file::ModifiedFile")
    bad_readers = sorted(f for f in readers if not allowed(f))
    ck.require(not bad_readers and any(f.endswith("save_modified_file") for f in readers), "C09-R7",
               "whether a file was on disk when this invocation started only steers how it is written back",
               "ModifiedFile.existed is read by %s: it says what was on disk when THIS invocation loaded the file (false for a file an earlier patch "
               "of the same run created, true for the same file when an earlier invocation created it), so any other decision based on it "
               "differs between one push and a split push" % bad_readers, cmd_push.where(),
               ok_detail="read only by save_modified_file (unlink before re-creating, parent clean-up) and ModifiedFile's own methods")

    # ---- R8: what the in-memory record of a name says is what the disk would say had the run been cut here (a deleted record counts
    # as a missing file, a live one as an existing file): the resolution table of C16
    from . import c16 as _c16
    from .c18 import ck_alias as _alias
    _c16.r3c_resolution_table(_alias(ck, "C09-R8"))

    # ---- R9: every record of the file map is written back at the end of each invocation (C05-R6): a change that is only kept in
    # memory (a mode set by a patch without hunks, say) is lost at the next cut
    from . import c05 as _c05
    _c05.r6_every_file_saved(ck, rule="C09-R9")

    # ---- R3 ------------------------------------------------------------------------------------------
    bad, abort_reach = effect_tables(ck)
    br, fi = noninterf.analyse_function(prog, cg, cmd_push, bad, abort_reach)
    ck.count("presentation branches in cmd_push", len(br))
    ck.floor("C09-R3", "presentation branches in cmd_push", len(br), 1)
    for f in fi:
        ck.violate("C09-R3", f.key(), f.detail, f.fn.where(f.term) if f.term else f.fn.where())
    if not fi:
        for b in br:
            ck.ok("C09-R3", "branch on %s at bb%d in cmd_push" % (b[1], b[0]), "region of %d blocks is print-only and re-joins" % b[2])


def r6_created_file_is_new(ck):
    """Between two invocations a deleted file is simply absent; inside one invocation its record stays in memory, marked deleted.
    When a later patch creates a file of that name and names no mode, the record's old mode must not survive: in apply_internal, on the
    arm where the patch carries no mode, the permissions are reset on the path 'did not exist before this patch (read before the
    patch was applied) and exists now (read after)'.  The old value still goes into the report, so a rollback restores it."""
    rule = "C09-R6"
    ai = ck.anchor("FilePatch::<'a, &'a [u8]>::apply_internal")
    if ai is None:
        return
    sws = [sw for sw in pt.discr_switches(ai, lambda e, rv: True) if sw.get("adt") == "core::option::Option" and sw["edges"].get("None") and sw["edges"].get("Some")
           and "Permissions" in (ai.local_ty(sw["place"]["l"]) if "place" in sw else "Permissions")]
    dispatch = [bb for bb, t in ai.calls() if (callee_of(t).get("rpath") or "").split("::")[-1] in ("apply_modify", "apply_create", "apply_delete")]
    if not ck.require(bool(sws) and bool(dispatch), rule, "apply_internal distinguishes patches with and without a mode",
                      "no match on the patch's Option<Permissions> / no dispatch to apply_create found", ai.where()):
        return
    writes = []
    for bb, t in ai.calls():
        if ai.blocks[bb]["cleanup"] or not t["argtys"] or not t["argtys"][0].startswith("&mut core::option::Option<std::fs::Permissions>"):
            continue
        e = df.operand_expr(ai, t["args"][0])
        if isinstance(e, tuple) and e[0] == "field" and e[2] == "permissions" and (callee_of(t).get("rpath") or "").split("::")[-1] in ("take", "replace", "insert"):
            writes.append(bb)
    for bb, idx, st in ai.stmts():
        if st["k"] == "assign" and "p" in st["lhs"] and any(isinstance(p_, dict) and p_.get("name") == "permissions" for p_ in st["lhs"]["p"]):
            writes.append(bb)
    good = False
    for sw in sws:
        none_reg = cfg.dominated_by_edge(ai, sw["edges"]["None"])
        for wb in writes:
            if wb not in none_reg:
                continue
            before_true = after_false = False
            for g in guards.find_bool_guards(ai, lambda e: isinstance(e, tuple) and e[0] == "field" and e[2] == "deleted"):
                t = ai.blocks[g["bb"]]["term"]
                op = t["discr"]
                # where was the tested value read?  a local copied before the patch was dispatched, or the field as it is now
                read_bb = g["bb"]
                if op.get("k") in ("copy", "move") and "p" not in op["pl"]:
                    one = df.defs_of(ai).single(op["pl"]["l"])
                    while one is not None and one[0] == "stmt" and one[3]["rv"]["k"] == "use" and one[3]["rv"]["op"].get("k") in ("copy", "move") and \
                            "p" not in one[3]["rv"]["op"]["pl"]:
                        read_bb = one[1]
                        nxt = df.defs_of(ai).single(one[3]["rv"]["op"]["pl"]["l"])
                        if nxt is None:
                            break
                        one = nxt
                    if one is not None:
                        read_bb = one[1]
                before = all(cfg.dominates(ai, read_bb, d) and read_bb != d for d in dispatch) or all(cfg.dominates(ai, read_bb, d) for d in dispatch)
                if before and wb in cfg.dominated_by_edge(ai, g["true_edge"]):
                    before_true = True
                if not before and wb in cfg.dominated_by_edge(ai, g["false_edge"]):
                    after_false = True
            if before_true and after_false:
                good = True
    ck.require(good, rule, "a file created by a patch without a mode starts without the mode of a file deleted earlier in the run",
               "in apply_internal, when the patch names no mode the record's permissions are never reset for a file that did not exist before "
               "the patch and exists after it: a file deleted by one patch and created again by a later one keeps the old mode when both "
               "are pushed by one invocation, but gets the default mode when they are pushed by two", ai.where(),
               ok_detail="permissions reset on the path `absent before && present after`")


SERIES_PATCH = "rapidquilt::apply::SeriesPatch"
COMPARING = ("eq", "ne", "starts_with", "ends_with", "contains", "strip_prefix", "strip_suffix", "cmp", "partial_cmp", "lt", "le", "gt", "ge",
             "binary_search", "dedup", "max", "min", "sort", "sort_unstable")


def r5_names_only(ck, cmd_push, sap):
    """An entry read back from .pc/applied-patches is a bare name (strip level and direction are the defaults of the reader, not
    what the series said), so the next invocation may compare log entries with series entries by name only."""
    prog = ck.prog
    rule = "C09-R5"
    # (a) what the log writer reads of an entry is its name
    if sap is not None:
        fields = set()
        for fn in [sap] + [f for f in prog.fns.values() if f.kind == "Closure" and f.id.startswith(sap.id + "::")]:
            for b in fn.blocks:
                for pr in _projs([b["stmts"], b["term"]], SERIES_PATCH):
                    fields.add(pr["name"])
        ck.require(fields == {"filename"}, rule, "the log records the name of a patch and nothing else",
                   "save_applied_patches reads %s of a series entry" % sorted(fields), sap.where(), ok_detail="only .filename is read")
    # (b) no comparison of whole entries anywhere in the tool
    n = 0
    for fn in sorted(prog.fns.values(), key=lambda f: f.id):
        if fn.crate != "rapidquilt" or "SeriesPatch as core::" in fn.id:
            continue
        for bb, t in fn.calls():
            if fn.blocks[bb]["cleanup"]:
                continue
            rp = callee_of(t).get("rpath") or ""
            last = rp.split("::")[-1]
            if last in COMPARING and any(SERIES_PATCH in a for a in t["argtys"]) and not any("closure" in a for a in t["argtys"]):
                ck.violate(rule, "series entries and log entries are compared by name",
                           "%s compares whole SeriesPatch values with %s: an entry read back from .pc/applied-patches has the reader's default strip "
                           "level and direction, so a series entry with -pN or -R never equals its own record" % (fn.id, rp), fn.where(t))
            if last in ("eq", "ne") and len(t["args"]) == 2 and (fn.id == cmd_push.id or fn.id.startswith(cmd_push.id + "::")) and \
                    all("std::path::PathBuf" in a or "std::path::Path" in a for a in t["argtys"]):
                n += 1
    ck.floor(rule, "comparisons of path names in cmd_push (the series / log consistency test)", n, 1)


def _projs(x, adt):
    if isinstance(x, list):
        for v in x:
            yield from _projs(v, adt)
    elif isinstance(x, dict):
        if x.get("adt") == adt and "name" in x:
            yield x
        for v in x.values():
            if isinstance(v, (list, dict)):
                yield from _projs(v, adt)


def effect_tables(ck):
    prog, cg = ck.prog, ck.cg
    ctors, aborting = c04.discover_rollback_api(ck)
    abort_reach = set()
    for a in aborting:
        abort_reach |= cg.reaches(a)
    bad = {}
    for f in cg.functions_with_effect(callgraph.fs_write_kind):
        bad[f] = "write the file system"
    for f in cg.functions_with_effect(lambda p: callgraph.EXIT.get(p)):
        bad.setdefault(f, "exit the process")
    return bad, abort_reach
