"""C11  the patch parser is total (DESIGN §4 C11)."""
from .. import callgraph, cfg, dataflow as df, panics
from ..common import A
from ..facts import callee_of, op_s

LEVEL = "other"
EXPLANATION = (
    "Every panic-capable site (MIR overflow / bounds / division asserts, slice and Vec indexing, split_at, unwrap/expect, explicit "
    "panics) in the call-graph closure of parse_patch and of read_series_file is enumerated from the MIR and must be discharged, "
    "either by a forward abstract interpretation with a difference-bound domain over access paths (branch refinement, contracts for "
    "memchr/position/get/first/min/saturating ops/slicing, function return summaries, excluded-variant tracking) or by one of a closed "
    "list of checked axioms (AX1-AX8, rqverif/panics.py). (R2) Every allocation size in that closure is bounded by a small constant or "
    "by the length of an input slice. (R3) The closure has no recursion. (R4) Every loop in the closure makes progress: it draws from a "
    "finite std iterator, or the range engine proves a measure strictly smaller at every back edge than at the loop head (the length of "
    "the remaining input in parse_hunk and parse_hunks, through the summaries of the sub-parsers: strip_prefix takes exactly the "
    "needle off, s[a..] is a shorter by a, map_err / map keep the remainder) or strictly larger and bounded by a length the loop does "
    "not change (the index in parse_c_string). (R2b) in the parser's loops that are not walks over finite iterators a vector only grows on ways round that consume input. Not decided: termination of the loops of parse_filepatch and parse_patch (reported as "
    "undecided with the reason: facts conditional on the returned PatchLine variant resp. a value-level argument about the "
    "extended_headers flag), memory proportionality beyond R2, and crash freedom of the whole tool (the thorough tier lists the "
    "undischarged sites outside the parser for information)."
)
LEVEL_NOTE = "Undecided: termination of two of the seven parser loops; panics outside the parser closure (hunk application arithmetic, diagnostics)."


def describe(o):
    t = o.term
    if t["k"] == "assert":
        return "%s [%s]" % (o.what, ", ".join(df.show(df.operand_expr(o.fn, x), 40) for x in t["ops"]))
    if t["k"] == "call":
        args = [df.show(df.operand_expr(o.fn, a), 40) for a in t["args"][:2]]
        return "%s (%s)" % (o.what, "; ".join(args))
    return o.what


def run_scope(ck, roots, rule, label, floor, ignore_print=False):
    prog, cg = ck.prog, ck.cg
    scope = cg.closure(roots)
    obl, an = panics.analyse_scope(prog, cg, scope, libcalls=True)
    if ignore_print:
        obl = [o for o in obl if getattr(o, "libclass", None) != "print"]
    for cls, k in sorted(getattr(an, "lib_counts", {}).items()):
        ck.count("library calls in the %s closure classified %s" % (label, cls), k)
    ck.count("functions in the %s closure" % label, len(scope))
    n = 0
    by_ax = {}
    for o in obl:
        if o.kind == "alloc":
            continue
        n += 1
        inst = "%s in %s: %s" % (o.kind, o.fn.id, describe(o))
        if o.ok:
            if o.axiom:
                by_ax[o.axiom] = by_ax.get(o.axiom, 0) + 1
            ck.ok(rule, inst, o.detail, o.fn.where(o.term))
        else:
            ck.violate(rule, inst, "panic-capable site not discharged: %s" % o.detail, o.fn.where(o.term))
    ck.count("panic-capable sites in the %s closure" % label, n)
    for ax, k in sorted(by_ax.items()):
        ck.count("sites discharged by %s" % ax, k)
    ck.floor(rule, "panic-capable sites in the %s closure" % label, n, floor)
    return scope, obl, an


def run(ck):
    prog, cg = ck.prog, ck.cg
    pp = ck.anchor(A["parse_patch"])
    rs = ck.anchor(A["read_series"])
    if pp is None or rs is None:
        return
    scope, obl, an = run_scope(ck, [pp.id], "C11-R1", "parse_patch", 56)
    rs_scope = {f for f in cg.closure([rs.id])}
    scope2, obl2, an2 = run_scope(ck, [rs.id], "C11-R1", "read_series_file", 0)
    for ax, fid in getattr(an, "assumed", []):
        ck.info("C11-R1", "assumed summary %s for %s" % (ax, fid), panics.AXIOMS[ax])
    # ---- R4 termination -------------------------------------------------------------------------------
    r4_termination(ck, [(scope, an), (scope2 - scope, an2)])
    r5_names_the_applier_takes_for_granted(ck)
    r2b_growth_is_paid_for_by_input(ck, scope)
    # the apply stage slices the lines of a hunk by its context counts (`content[prefix_fuzz .. len - suffix_fuzz]`, fuzz <= context):
    # counts that are not the numbers of leading / trailing context lines can exceed the side's length and the slice panics (C01-R6)
    from . import c01 as _c01
    _c01.r6(ck, rule="C11-R7")
    r6_scan_stays_inside_the_file(ck)
    # ---- R2 allocations -------------------------------------------------------------------------------
    allocs = [o for o in obl + obl2 if o.kind == "alloc"]
    ck.count("allocation sites with a size argument", len(allocs))
    ck.floor("C11-R2", "sized allocation sites in the parser closure", len(allocs), 2)
    for o in allocs:
        inst = "alloc in %s: %s" % (o.fn.id, describe(o))
        ck.require(bool(o.ok), "C11-R2", inst,
                   "%s: a number taken from the patch text can size an allocation (capacity overflow / memory exhaustion)" % o.detail,
                   o.fn.where(o.term), ok_detail=o.detail)
    # ---- R3 recursion ----------------------------------------------------------------------------------
    comps = cg.sccs(scope | scope2)
    rec = [c for c in comps if len(c) > 1]
    selfrec = [f for f in (scope | scope2) if f in cg.callees(f)]
    ck.require(not rec and not selfrec, "C11-R3", "no recursion in the parser closure",
               "recursive functions: %s" % (rec + [[f] for f in selfrec]), pp.where(), ok_detail="%d functions, call graph acyclic" % len(scope | scope2))


# Loops whose termination the range engine cannot show today; each was read and is believed to terminate for the reason given.  They
# are reported as undecided (information), everything else in the parser closure must be proven.
UNDECIDED_LOOPS = {
    "libpatch::patch::unified::parser::parse_filepatch":
        "every iteration takes the remainder of parse_patch_line / parse_git_patch_line, which consume at least one line unless they "
        "answer EndOfPatch, and that arm returns; showing it needs facts conditional on the variant of the returned PatchLine",
    "libpatch::patch::unified::parser::parse_patch":
        "every iteration takes the remainder of parse_filepatch, which has consumed at least one metadata line or hunk header when it "
        "answers Ok; that rests on the extended_headers flag having been set by an earlier iteration (value-level argument)",
}


def r4_termination(ck, scopes):
    """C11-R4: every loop in the parser / series-reader closure makes progress: it draws from a finite std iterator, or the range
    engine proves a measure (length of the remaining input, an unsigned counter) strictly smaller at every back edge than at the
    loop head - or strictly larger and bounded by something the loop does not change."""
    from .. import progress
    prog, cg = ck.prog, ck.cg
    rule = "C11-R4"
    n = nproved = 0
    for scope, an in scopes:
        for fn, head, kind, ok, detail in progress.check_scope(prog, cg, scope, an):
            n += 1
            where = fn.where(fn.blocks[head]["term"])
            loops_here = sorted(h for h in __import__("rqverif.cfg", fromlist=["x"]).loops(fn))
            inst = "loop %d of %s makes progress" % (loops_here.index(head) + 1, fn.id)
            if ok:
                nproved += 1
                ck.ok(rule, inst, detail, where)
            elif fn.id in UNDECIDED_LOOPS:
                # not measurable by the engine: at least the shape of progress must be there - every path round the loop re-assigns
                # the remaining input from the result of a sub-parser that was given it
                v = progress.hands_on_remainder(fn, head, __import__("rqverif.cfg", fromlist=["x"]).loops(fn)[head])
                ck.require(v is not None, rule, inst + " (structurally)",
                           "on some path round this loop the remaining input is not replaced by the remainder a sub-parser returned for it: the "
                           "same input would be parsed again and again", where,
                           ok_detail="every path round the loop re-assigns `%s` from the result of a call that was given it; that the callee "
                                     "consumes something is assumed here: %s" % (v, UNDECIDED_LOOPS[fn.id]))
            else:
                ck.violate(rule, inst, "termination is not shown: %s - on some input the parser could spin forever instead of returning a patch "
                           "or an error" % detail[:400], where)
    ck.count("loops in the parser and series-reader closures", n)
    ck.floor(rule, "loops shown to make progress", nproved, 5)


def r2b_growth_is_paid_for_by_input(ck, scope, rule="C11-R2b"):
    """Memory in proportion to the input: in the parser, a loop that is not a walk over a finite iterator (its trip count may come from
    a number in the input, such as the line counts of a hunk header) grows a vector only on ways round the loop that also consume
    input - every `push` is paid for by at least one byte.  A way round that pushes without consuming (padding a hunk that ended early
    with assumed empty lines, up to the announced count) allocates what the header asks for."""
    from .. import progress, cfg as _cfg, patterns as pt
    prog = ck.prog
    n = ng = 0
    for fid in sorted(scope):
        fn = prog.fns.get(fid)
        if fn is None or fn.crate != "libpatch" or "unified::parser" not in fid:
            continue
        finite = {il["head"] for il in pt.iterator_loops(fn) if progress.finite_iterator_type(il["iter_ty"]) and
                  not il["iter_ty"].replace("&mut ", "").startswith(("core::ops::range::Range<", "core::ops::range::RangeInclusive<"))}
        for head, body in sorted(_cfg.loops(fn).items()):
            if head in finite:
                continue
            n += 1
            for bb, t in progress.unpaid_growth(fn, head, body):
                ng += 1
                ck.violate(rule, "growth in a loop of %s is paid for by input" % fn.id.split("::")[-1],
                           "%s can be reached on a way round the loop at %s on which the remaining input is not moved on: the vector grows "
                           "as often as the loop turns, and that is bounded by numbers read from the input, not by its size" % (
                               (callee_of(t).get("rpath") or "").split("::")[-1], fn.where(fn.blocks[head]["term"])), fn.where(t))
    ck.floor(rule, "loops of the parser that are not walks over finite iterators", n, 3)
    if not ng:
        ck.ok(rule, "growth in the parser's loops is paid for by input", "%d loops examined: every way round that pushes also moves the input on" % n)


def r5_names_the_applier_takes_for_granted(ck):
    """C11-R5: the apply stage unwraps file names of a parsed file patch in two situations - the new (old) name of a renaming patch,
    and "the other name" when one is absent.  Both are promises of the parser: (I1) a file patch has at least one real name,
    (I2) a renaming file patch has both.  Consumer side: every unwrap / expect of `old_filename()` / `new_filename()` outside libpatch's
    parser is covered by I1 or I2 (guarded by `is_rename()`, or made where the other name is known to be absent).  Producer side: in every
    function that builds a FilePatch through the builder, for all 36 valuations of (rename_from, rename_to, old name, new name in
    {absent, /dev/null, real}) the build is unreachable when no name is real, and with exactly one real name the value handed to
    `is_rename` is false - reachability under assumptions (pathconst), nothing is executed."""
    from .. import pathconst, patterns as pt, guards, cfg
    prog = ck.prog
    rule = "C11-R5"
    getters = ("FilePatch::<'a, Line>::old_filename", "FilePatch::<'a, Line>::new_filename")

    def getter_of(e):
        for x in df.walk(e):
            for g in getters:
                if df.is_call(x, g):
                    return g.split("::")[-1]
        return None
    # ---- consumers ----
    n = 0
    for fn in sorted(prog.fns.values(), key=lambda f: f.id):
        if fn.file.endswith("unified/parser.rs") or "/tests/" in fn.file:
            continue
        for bb, t in fn.calls():
            last = (callee_of(t).get("path") or "").split("::")[-1]
            if fn.blocks[bb]["cleanup"] or last not in ("unwrap", "expect") or "Option" not in (callee_of(t).get("path") or "") or not t["args"]:
                continue
            e = df.operand_expr(fn, t["args"][0])
            which = getter_of(e)
            if which is None or not (df.is_call(e, getters[0]) or df.is_call(e, getters[1])):
                continue
            n += 1
            inst = "%s().unwrap() in %s" % (which, fn.id)
            # I2: under is_rename()
            ok = None
            for g in guards.find_bool_guards(fn, lambda x: df.is_call(x, "FilePatch::<'a, Line>::is_rename")):
                if bb in cfg.dominated_by_edge(fn, g["true_edge"]):
                    ok = "inside `if is_rename()`: a renaming file patch has both names (I2)"
            # I1: where the other name is absent - the closure of unwrap_or_else / or_else on the other getter, or its None edge
            other = "new_filename" if which == "old_filename" else "old_filename"
            if ok is None and fn.kind == "Closure":
                par = prog.fns.get(fn.parent)
                for b2, t2 in (par.calls() if par else []):
                    l2 = (callee_of(t2).get("path") or "").split("::")[-1]
                    if l2 in ("unwrap_or_else", "or_else", "map_or_else") and len(t2["args"]) >= 2:
                        ce = df.operand_expr(par, t2["args"][1])
                        if isinstance(ce, tuple) and ce[:2] == ("closure", fn.id) and getter_of(df.operand_expr(par, t2["args"][0])) == other:
                            ok = "only evaluated when %s() is None: a file patch has at least one name (I1)" % other
            if ok is None:
                for sw in pt.discr_switches(fn, lambda x, rv: getter_of(x) == other and (df.is_call(x, getters[0]) or df.is_call(x, getters[1]))):
                    ne = sw["edges"].get("None")
                    if ne and bb in cfg.dominated_by_edge(fn, ne):
                        ok = "on the None edge of a match on %s(): a file patch has at least one name (I1)" % other
            ck.require(ok is not None, rule, inst,
                       "the name is unwrapped where neither `is_rename()` holds nor the other name is known to be absent: a parsed patch need not "
                       "have it (\"--- /dev/null\"), the tool would panic", fn.where(t), ok_detail=ok or "")
    ck.floor(rule, "unwraps of a file patch's names outside the parser", n, 3)
    # ---- producers ----
    builders = []
    for fn in sorted(prog.fns.values(), key=lambda f: f.id):
        if "/tests/" in fn.file or fn.kind == "Closure":
            continue
        bs = [(bb, t) for bb, t in fn.calls() if (callee_of(t).get("path") or "").endswith("FilePatchBuilder::<'a, Line>::build") and not fn.blocks[bb]["cleanup"]]
        if bs:
            builders.append((fn, bs))
    ck.floor(rule, "functions that build a FilePatch", len(builders), 1)
    for fn, bs in builders:
        def is_self_field(x, name):
            return isinstance(x, tuple) and x[0] == "field" and x[2] == name and isinstance(x[1], tuple) and x[1][0] == "param" and x[1][1] == 1
        bad1 = bad2 = None
        nval = 0
        for rf in (False, True):
            for rt in (False, True):
                for o in ("None", "DevNull", "Real"):
                    for nw in ("None", "DevNull", "Real"):
                        nval += 1
                        val = {"old_filename": o, "new_filename": nw}

                        def atom(x, rf=rf, rt=rt):
                            if is_self_field(x, "rename_from"):
                                return rf
                            if is_self_field(x, "rename_to"):
                                return rt
                            return None

                        def valuation(x, val=val):
                            strip = 0
                            while isinstance(x, tuple) and x and x[0] == "field" and x[2] == 0 and isinstance(x[1], tuple) and x[1][0] == "downcast":
                                x = x[1][1]
                                strip += 1
                            for side, v in val.items():
                                if is_self_field(x, side):
                                    nested = ("None",) if v == "None" else ("Some", v)
                                    return nested[strip:] or None
                            return None
                        envs = pathconst.reach_under(fn, atom, None, return_envs=True, valuation=valuation, prog=prog)
                        built = any(bb in envs for bb, t in bs)
                        real = (o == "Real") + (nw == "Real")
                        if built and real == 0 and bad1 is None:
                            bad1 = "old name %s, new name %s" % (o, nw)
                        if built and real == 1 and bad2 is None:
                            for bb, t in fn.calls():
                                if bb in envs and (callee_of(t).get("path") or "").endswith("FilePatchBuilder::<'a, Line>::is_rename") and len(t["args"]) == 2:
                                    v = pathconst._operand_value(fn, t["args"][1], envs[bb], atom)
                                    if v is not False:
                                        bad2 = "rename from: %s, rename to: %s, old name %s, new name %s -> is_rename(%s)" % (
                                            rf, rt, o, nw, "true" if v else "a value that is not known to be false")
        ck.require(bad1 is None, rule, "no file patch is built without a real name (I1, %s)" % fn.id.split("::")[-1],
                   "a FilePatch can be built with %s: the apply stage unwraps `the other name` and would panic" % bad1, fn.where(bs[0][1]),
                   ok_detail="%d valuations of the metadata" % nval)
        ck.require(bad2 is None, rule, "a renaming file patch is built only with both names real (I2, %s)" % fn.id.split("::")[-1],
                   "a FilePatch marked as a rename can be built with one name missing (%s): the apply stage unwraps the new name of a renaming "
                   "patch (apply_one_file_patch, the rename undo) and would panic" % bad2, fn.where(bs[0][1]),
                   ok_detail="%d valuations of the metadata" % nval)


def r6_scan_stays_inside_the_file(ck):
    """C11-R6: the number of positions the trial of a hunk looks at is bounded by the length of the file, not by a number from the
    patch.  Every integer range built in try_apply_hunk (the candidate positions of the scan) starts at -1 or later and ends at
    len(content) + 1 or earlier - engine D at the construction site.  The first guess itself comes from the hunk header and is not
    bounded by anything; a range that runs from or to it makes the tool walk up to 2^62 candidates."""
    from .. import ranges
    prog = ck.prog
    rule = "C11-R6"
    tah = ck.anchor("libpatch::patch::try_apply_hunk")
    if tah is None:
        return
    an = ranges.Analyzer(prog)
    sites = []

    def content_len(st_):
        cands = {y for v in list(st_.out) for y in st_.out.get(v, {}) if y[0] == "#" and y[1].endswith(".content")}
        cands |= {v for v in st_.out if v[0] == "#" and v[1].endswith(".content")}
        return sorted(cands)

    def judge(an_, fn, st_, lo_op, hi_op, node, what):
        if st_.dead:
            return
        lo = an_.canon(st_, an_.term_of(fn, lo_op, st_))
        hi = an_.canon(st_, an_.term_of(fn, hi_op, st_))
        ok_lo = lo is not None and an_.prove(st_, ranges.Z, 0, lo[0], lo[1], 1)
        ok_hi = False
        rel = "no relation to the length of the file"
        if hi is not None:
            for y in content_len(st_):
                if an_.prove(st_, hi[0], hi[1], y, 0, 1):
                    ok_hi = True
                    rel = an_.explain(st_, hi[0], y)
        sites.append((ok_lo, ok_hi, rel, node, what))

    def stmt_probe(an_, fn, bb, s, st_, out):
        rv = s["rv"]
        if fn.id == tah.id and not fn.blocks[bb]["cleanup"] and rv["k"] == "agg" and (rv.get("adt") or "") in (
                "core::ops::range::Range", "core::ops::range::RangeInclusive") and len(rv["ops"]) >= 2 and \
                any(ty in (s["lhs"].get("ty") or fn.local_ty(s["lhs"]["l"])) for ty in ("<isize>", "<usize>")):
            judge(an_, fn, st_, rv["ops"][0], rv["ops"][1], s, rv["adt"].split("::")[-1])

    def call_probe(an_, fn, bb, t, st_):
        if fn.id == tah.id and not fn.blocks[bb]["cleanup"] and (callee_of(t).get("path") or "").endswith("RangeInclusive::<Idx>::new") and \
                len(t["args"]) == 2 and (t["argtys"][0] in ("isize", "usize")):
            judge(an_, fn, st_, t["args"][0], t["args"][1], t, "RangeInclusive")
    an.stmt_probe = stmt_probe
    an.call_probe = call_probe
    an.analyze(tah)
    ck.floor(rule, "integer ranges built in try_apply_hunk", len(sites), 2)
    for ok_lo, ok_hi, rel, node, what in sites:
        ck.require(ok_lo and ok_hi, rule, "candidate positions lie between -1 and len(content) + 1 (%s)" % what,
                   "a range of candidate positions %s%s: its other end comes from the line number in the hunk header (plus the previous offset), "
                   "so a header like '@@ -4611686018427387903,1 ...' makes the scan walk that many positions although none of them can match" % (
                       "can start far below 0" if not ok_lo else "", ("%scan end far beyond the file (%s)" % (" and " if not ok_lo else "", rel)) if not ok_hi else ""),
                   tah.where(node), ok_detail="start >= -1 and end <= len(content) + 1 proven (%s)" % rel)


def run_thorough(ck):
    """Informational: the same enumeration over everything reachable from cmd::run."""
    prog, cg = ck.prog, ck.cg
    run_fn = ck.anchor(A["run"])
    if run_fn is None:
        return
    scope = cg.closure([run_fn.id])
    obl, an = panics.analyse_scope(prog, cg, scope)
    bad = [o for o in obl if not o.ok]
    ck.count("thorough: functions reachable from cmd::run", len(scope))
    ck.count("thorough: panic-capable sites reachable from cmd::run", len(obl))
    ck.count("thorough: of those not discharged (information only)", len(bad))
    per = {}
    for o in bad:
        per[o.fn.id] = per.get(o.fn.id, 0) + 1
    for fid, k in sorted(per.items(), key=lambda x: -x[1])[:40]:
        ck.info("C11-T", "undischarged sites in %s" % fid, "%d site(s); outside the parser closure these are reported for information" % k)
