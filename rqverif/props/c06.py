"""C06  parallel push equals single-threaded push under every schedule (DESIGN §4 C06)."""
from .. import callgraph, cfg, dataflow as df, guards, noninterf, patterns as pt
from ..common import A, calls_named
from ..facts import callee_of
from . import c04, c05

LEVEL = "other"
EXPLANATION = (
    "Static analysis does not enumerate schedules; it decides the conditions under which no schedule can matter: (R1) the only "
    "cross-thread value of the apply phase is an atomic that is only loaded and fetch_min-ed (commutative, idempotent) and starts "
    "at the series length; (R2) the closures handed to rayon capture only shared references to Sync state and Copy values; (R3) the "
    "agreed final patch is loaded after the apply-phase barrier and handed by value to every saving worker, and nothing reachable "
    "from the apply-phase closure writes the file system; (R4) a worker stops only when strictly past the earliest broken index, so "
    "every worker completes the failing patch; (R5) run-ahead work is undone through ModifiedFiles::rollback (renames included); "
    "(R6) the save phase is not started while a worker error is pending; (R7) no parallel region contains both directory removal "
    "and file/directory creation (workers own files but share directories); (R8) a worker only loads names of its own file patch "
    "and both names of a two-name file patch are registered together for scheduling. (R13) every file patch of a loaded patch is registered with the distributor and pushed onto a queue; (R14) no entry leaves a worker's file map before it is saved. Not decided: output equality as such and the "
    "correctness of the name distributor (C07)."
)
LEVEL_NOTE = "Undecided: equality of outputs; functional correctness of FilenameDistributor (C07); rayon's for_each barrier is trusted."

ALLOWED_CAPTURE = (
    "&rapidquilt::apply::ApplyConfig<", "&dyn rapidquilt::arena::Arena", "&libpatch::analysis::AnalysisSet",
    "&core::sync::atomic::Atomic<usize>", "&std::sync::poison::mutex::Mutex<", "&rapidquilt::apply::parallel::SharedState",
    "usize", "&&rapidquilt::apply::ApplyConfig<", "&&dyn rapidquilt::arena::Arena", "&&libpatch::analysis::AnalysisSet",
    "&&core::sync::atomic::Atomic<usize>", "&&std::sync::poison::mutex::Mutex<", "&&rapidquilt::apply::parallel::SharedState", "&usize",
)


def rayon_launches(ck, fn):
    """[(site, closure_fn, agg_stmt)] closures of fn that are handed to a rayon call."""
    prog, cg = ck.prog, ck.cg
    out = []
    for s in cg.out[fn.id]:
        if s.kind != "value" or s.term is None or not s.callee.startswith(fn.id + "::{closure"):
            continue
        rp = callee_of(s.term).get("rpath") or ""
        if not rp.startswith("rayon"):
            continue
        agg = None
        for bb, idx, st in fn.stmts():
            if st["k"] == "assign" and st["rv"]["k"] == "agg" and st["rv"].get("closure") == s.callee:
                agg = st
        out.append((s, prog.fns[s.callee], agg))
    return out


def norm_ty(t):
    import re
    t = re.sub(r"'\w+", "'_", t or "")
    return t.replace("std::borrow::Cow", "alloc::borrow::Cow")


def scheduling_key_type(ck, par, rule):
    """Two names are 'the same file' for the scheduler exactly when they are for the workers' file maps: the distributor is keyed by the
    very type that keys ModifiedFiles (same Eq / Hash - e.g. Path compares components, OsStr bytes)."""
    prog = ck.prog
    a = prog.adts.get("rapidquilt::apply::common::ModifiedFiles")
    mk = None
    if a:
        for f in a["variants"][0]["fields"]:
            if "HashMap<" in f["ty"]:
                inner = f["ty"][f["ty"].index("HashMap<") + len("HashMap<"):]
                from ..errflow import split_top
                mk = norm_ty(split_top(inner[:-1])[0])
    keys = set()
    for bb, t, c in calls_named(par, "FilenameDistributor::<T>::new") + calls_named(par, "FilenameDistributor::<T>::add"):
        for x in c.get("fnargs") or []:
            keys.add(norm_ty(x))
    ck.require(mk is not None and keys == {mk}, rule, "the scheduler and the file maps identify files by the same key type",
               "FilenameDistributor is keyed by %s, ModifiedFiles by %s: names that are one file for a worker (equal as %s) can be two files for the "
               "scheduler and land on different workers" % (sorted(keys), mk, mk), par.where(), ok_detail="both keyed by %s" % mk)
    # the dispatch lookup uses the same type again
    idx = [(bb, t) for bb, t in par.calls() if (callee_of(t).get("path") or "").endswith("Index::index") and "HashMap" in (t["argtys"][0] if t["argtys"] else "")]
    for bb, t in idx:
        kt = norm_ty(split_top_first(t["argtys"][0]))
        ck.require(kt == mk, rule, "the dispatch map is keyed by that type as well", "dispatch map key is %s" % kt, par.where(t))


def split_top_first(ty):
    from ..errflow import split_top
    i = ty.index("HashMap<") + len("HashMap<")
    return split_top(ty[i:-1])[0]


def related_names_registered(ck, par, adds, rule):
    """Path-sensitive part of 'both names are scheduled together': the related name handed to the distributor may be None only
    where the file patch has a single name (one of old_filename()/new_filename() is None) or the two names compared equal."""
    def name_opt(e):
        return isinstance(e, tuple) and (df.is_call(e, "::old_filename") or df.is_call(e, "::new_filename"))
    none_edges = []
    for sw in pt.discr_switches(par, lambda e, rv: df.mentions(e, name_opt)):
        if "None" in sw["edges"]:
            none_edges.append(sw["edges"]["None"])
    eq_edges = []
    for g in guards.find_bool_guards(par, lambda e: isinstance(e, tuple) and e[0] == "call" and (e[1].endswith("::eq") or e[1].endswith("::ne")) and len(e[2]) == 2):
        a, b = g["expr"][2]
        if df.mentions(a, lambda x: df.is_call(x, "::old_filename")) and df.mentions(b, lambda x: df.is_call(x, "::new_filename")) or \
                df.mentions(a, lambda x: df.is_call(x, "::new_filename")) and df.mentions(b, lambda x: df.is_call(x, "::old_filename")):
            eq_edges.append(g["true_edge"] if g["expr"][1].endswith("::eq") else g["false_edge"])
    n = 0
    for bb, t, c in adds:
        locs = df.operand_trace(par, t["args"][2])
        for l in sorted(locs):
            for dd in df.defs_of(par).all(l):
                if dd[0] != "stmt" or dd[3]["rv"]["k"] != "agg":
                    continue
                e = df.rvalue_expr(par, dd[3]["rv"])
                comps = e[3] if e[0] == "agg" and e[1] == "tuple" else (e,)
                last = comps[-1]
                if not (isinstance(last, tuple) and last[0] == "agg" and last[1].endswith("option::Option") and last[2] == "None"):
                    continue
                n += 1
                ok = any(dd[1] in cfg.dominated_by_edge(par, ed) for ed in none_edges + eq_edges)
                ck.require(ok, rule, "no related name only for single-named file patches",
                           "a file patch can be scheduled without a related name although both of its names are present and were not found "
                           "equal: the two names are not tied to one worker", par.where(dd[3]),
                           ok_detail="this `None` is only reached when one name is absent or old == new")
    ck.floor(rule, "scheduling arms without a related name", n, 3)


def r10_worker_error_weighed(ck, par):
    """The single-threaded run stops at the first patch that breaks; an error in a later patch is never reached.  A worker that ran
    ahead may meet such an error.  It may abort the push only if its patch is not past the earliest broken patch - so where the
    driver returns an apply worker's error (between the apply phase and the save phase) that return has to depend on a comparison
    with the earliest-broken index."""
    rule = "C06-R10"
    phases = [bb for bb, t in par.calls() if (callee_of(t).get("rpath") or "").endswith("ParallelIterator::for_each") and not par.blocks[bb]["cleanup"]]
    if not ck.require(len(phases) >= 2, rule, "apply phase and save phase found in the parallel driver", "%d parallel for_each calls" % len(phases), par.where()):
        return
    apply_bb, save_bb = phases[0], phases[-1]
    rets = []
    for bb, idx, s in par.stmts():
        if s["k"] == "assign" and s["lhs"]["l"] == 0 and "p" not in s["lhs"] and s["rv"]["k"] == "agg" and s["rv"].get("variant") == "Err" and \
                not par.blocks[bb]["cleanup"] and bb in cfg.reachable_from_after(par, apply_bb) and save_bb not in cfg.reachable(par, [bb]) and \
                not cfg.dominates(par, save_bb, bb):
            rets.append((bb, s))
    ck.floor(rule, "error returns between the apply phase and the save phase", len(rets), 1)
    cmp_guards = []
    for g in guards.find_bool_guards(par, lambda e: isinstance(e, tuple) and e[0] == "bin" and e[1] in ("Lt", "Le", "Gt", "Ge", "Eq", "Ne")):
        if df.mentions_deep(par, g["expr"], lambda x: df.is_call(x, "AtomicUsize::load")):
            cmp_guards.append(g)
    for bb, s in rets:
        weighed = any(bb in cfg.dominated_by_edge(par, g["true_edge"]) or bb in cfg.dominated_by_edge(par, g["false_edge"]) for g in cmp_guards)
        ck.require(weighed, rule, "an apply worker's error aborts the push only when its patch is not past the earliest broken patch",
                   "the driver returns the error of whichever apply worker failed, without comparing the index of its patch with the earliest "
                   "broken patch: a worker that ran ahead of a rejected patch and hit an error there (unreadable target, a directory, an unsafe "
                   "name) aborts the whole push - nothing saved, no rejects - while the single-threaded run stops at the rejected patch and never "
                   "reaches that error", par.where(s))


def stop_tests(prog, apply_worker):
    """Where the apply worker compares a patch index with the shared earliest-broken index in order to stop: a guard inside the loop
    whose one edge leaves it, or the predicate of a `take_while` over the iterator the loop draws from (evaluated before every item,
    like a test at the top of the loop).  Each record says whether the worker stops exactly when index > earliest."""
    out = []
    swap = {"Gt": "Lt", "Lt": "Gt", "Ge": "Le", "Le": "Ge"}
    for bb, t in apply_worker.terms():
        if t["k"] != "switch" or t["dty"] != "bool":
            continue
        e, neg = guards.switch_cond(apply_worker, bb)
        if not (isinstance(e, tuple) and e[0] == "bin" and e[1] in swap):
            continue
        a, b = e[2], e[3]
        la, lb = df.is_call(a, "::load"), df.is_call(b, "::load")
        if not (la or lb):
            continue
        op = swap[e[1]] if la else e[1]        # normalised to  index OP load
        f, tr = guards.bool_edges(apply_worker, bb)
        if neg:
            f, tr = tr, f
        loop = cfg.innermost_loop_of(apply_worker, bb)
        if not loop:
            out.append({"kind": "outside", "where": apply_worker.where(t), "good": False, "op": op, "detail": ""})
            continue
        exits_on_true = tr not in loop[1]
        exits_on_false = f not in loop[1]
        good = (op == "Gt" and exits_on_true and not exits_on_false) or (op == "Le" and exits_on_false and not exits_on_true)
        out.append({"kind": "guard in the loop", "where": apply_worker.where(t), "good": good, "op": op,
                    "detail": "exit on %s" % ("true" if exits_on_true else "false")})
    # take_while(|(index, _)| index <= earliest.load())
    loops_tw = [il for il in pt.iterator_loops(apply_worker) if "TakeWhile<" in il["iter_ty"]]
    for bb, t in apply_worker.calls():
        if not (callee_of(t).get("rpath") or "").endswith("::take_while") or len(t["args"]) != 2:
            continue
        ce = df.operand_expr(apply_worker, t["args"][1])
        cl = prog.fns.get(ce[1]) if isinstance(ce, tuple) and ce and ce[0] == "closure" else None
        if cl is None:
            continue
        rets = df.alternatives(cl, df.local_expr(cl, 0)) or []
        for r in rets:
            negd = False
            while isinstance(r, tuple) and r[0] == "un" and r[1] == "Not":
                negd, r = not negd, r[2]
            if not (isinstance(r, tuple) and r[0] == "bin" and r[1] in swap):
                continue
            la, lb = df.is_call(r[2], "::load"), df.is_call(r[3], "::load")
            if not (la or lb):
                continue
            op = swap[r[1]] if la else r[1]
            if negd:
                op = {"Gt": "Le", "Le": "Gt", "Lt": "Ge", "Ge": "Lt"}[op]
            # the predicate says "keep going": good iff it is  index <= earliest, and the worker loop iterates this adaptor
            good = op == "Le" and bool(loops_tw)
            out.append({"kind": "take_while predicate", "where": cl.where(), "good": good, "op": {"Le": "Gt", "Lt": "Ge", "Gt": "Le", "Ge": "Lt"}[op],
                        "detail": "take_while keeps items while index %s earliest" % op})
    return out


def run(ck):
    prog, cg = ck.prog, ck.cg
    par = ck.anchor(A["par"])
    apply_worker = ck.anchor(A["apply_worker"])
    save_worker = ck.anchor(A["save_worker"])
    apply_one = ck.anchor("apply_one_file_patch")
    if None in (par, apply_worker, save_worker, apply_one):
        return
    launches = rayon_launches(ck, par)
    ck.floor("C06-R2", "closures handed to rayon by the parallel driver", len(launches), 3)
    apply_l = [x for x in launches if apply_worker.id in cg.closure([x[1].id])]
    save_l = [x for x in launches if save_worker.id in cg.closure([x[1].id])]
    if not ck.require(len(apply_l) == 1 and len(save_l) == 1, "C06-R3", "one apply phase and one save phase",
                      "apply-phase launches: %d, save-phase launches: %d" % (len(apply_l), len(save_l)), par.where()):
        return
    apply_site, apply_cl, apply_agg = apply_l[0]
    save_site, save_cl, save_agg = save_l[0]

    # ---- R1 atomics -----------------------------------------------------------------------------------
    methods = {}
    for fn in prog.fns.values():
        if fn.crate != "rapidquilt":
            continue
        for bb, t in fn.calls():
            p = callee_of(t).get("rpath") or ""
            if "sync::atomic::Atomic::<usize>::" in p or "AtomicUsize::" in p:
                methods.setdefault(p.split("::")[-1], []).append((fn, t))
    ck.count("call sites on the shared AtomicUsize", sum(len(v) for v in methods.values()))
    # which atomic a call works on: the variable (or captured variable) it names.  The shared index is the one that is fetch_min'ed.
    def atom_name(fn, t):
        e = df.operand_expr(fn, t["args"][0]) if t["args"] else None
        # a captured variable: field k of the closure environment has a debug name
        for x in df.walk(e):
            if isinstance(x, tuple) and x and x[0] == "field" and isinstance(x[2], int) and isinstance(x[1], tuple) and x[1][:2] == ("param", 1) and fn.kind == "Closure":
                for d_ in fn.dbg:
                    ps = d_.get("pl", {}).get("p", [])
                    if d_.get("pl", {}).get("l") == 1 and any(isinstance(p_, dict) and p_.get("f") == x[2] and p_.get("closure") for p_ in ps):
                        return d_["name"]
        # the variable the atomic was created into (`let x = AtomicUsize::new(..)`, then `x.load(..)`)
        for x in df.walk(e):
            if df.is_call(x, "Atomic::<usize>::new") or df.is_call(x, "AtomicUsize::new"):
                for b2, t2 in fn.calls():
                    if (callee_of(t2).get("rpath") or "").endswith("::new") and "Atomic" in (callee_of(t2).get("rpath") or "") and "p" not in t2["dest"] and \
                            df.call_expr(fn, t2) == x and fn.local_name(t2["dest"]["l"]):
                        return fn.local_name(t2["dest"]["l"])
        names = [x[2] for x in df.walk(e) if isinstance(x, tuple) and x and ((x[0] in ("local", "param") and len(x) > 2 and x[2]) or
                                                                             (x[0] == "field" and isinstance(x[2], str)))]
        return names[-1] if names else None
    shared_names = {atom_name(fn, t) for fn, t in methods.get("fetch_min", [])} | {atom_name(fn, t) for fn, t in methods.get("load", [])}
    from .. import taint
    for m, sites in sorted(methods.items()):
        for fn, t in sites:
            good = m in ("new", "load", "fetch_min")
            detail = "commutative / read-only"
            if not good:
                nm = atom_name(fn, t)
                # another atomic (a counter for a progress line ...): fine as long as what is read from it is only displayed
                if nm is not None and nm not in shared_names and "p" not in t["dest"] and not taint.display_only(prog, [(fn, t["dest"]["l"])]):
                    good = True
                    detail = "a separate counter (`%s`) whose value is only printed" % nm
            ck.require(good, "C06-R1", "AtomicUsize::%s in %s" % (m, fn.id),
                       "the cross-thread index is updated with %s: the final value would depend on the schedule" % m, fn.where(t),
                       ok_detail=detail)
    ck.floor("C06-R1", "fetch_min sites", len(methods.get("fetch_min", [])), 1)
    ck.floor("C06-R1", "load sites", len(methods.get("load", [])), 2)
    other_counters = {atom_name(fn, t) for m, sites in methods.items() if m not in ("new", "load", "fetch_min") for fn, t in sites} - shared_names
    for fn, t in methods.get("new", []):
        dn = fn.local_name(t["dest"]["l"]) if "p" not in t["dest"] else None
        if dn is not None and dn in other_counters and dn not in shared_names:
            ck.ok("C06-R1", "initial value of the counter `%s`" % dn, "not the shared index (its value is only printed)", fn.where(t))
            continue
        e = df.operand_expr(fn, t["args"][0])
        good = df.is_call(e, "::len") and df.mentions(e, lambda x: isinstance(x, tuple) and x[0] == "field" and x[2] == "series_patches")
        ck.require(good, "C06-R1", "initial value of the shared index", "the earliest-broken index starts at %s, expected series_patches.len()" % df.show(e, 100),
                   fn.where(t), ok_detail=df.show(e, 80))

    # ---- R2 captures -------------------------------------------------------------------------------------------
    for site, cl, agg in launches:
        if agg is None:
            ck.violate("C06-R2", "captures of %s" % cl.id, "closure construction not found", site.where())
            continue
        tys = []
        for o in agg["rv"]["ops"]:
            if o.get("k") in ("copy", "move"):
                pl = o["pl"]
                tys.append(pl.get("ty") or par.local_ty(pl["l"]))
            else:
                tys.append(o.get("ty", "?"))
        def allowed(t, depth=0):
            if any(t == a or t.startswith(a) for a in ALLOWED_CAPTURE):
                return True
            # a shared reference to a bundle of such values (a context struct of the crate, no interior mutability of its own): every
            # field is an allowed capture, seen through the reference
            if depth < 2 and t.startswith("&") and not t.startswith("&mut "):
                inner = t.lstrip("&")
                adt = prog.adts.get(inner.split("<")[0])
                if adt is not None and adt["kind"] == "Struct" and inner.startswith("rapidquilt::"):
                    import re as _re
                    fts = [_re.sub(r"&'[a-z_]+ ", "&", f["ty"]) for f in adt["variants"][0]["fields"]]
                    # `&'a (dyn Trait + 'a)` is `&dyn Trait`
                    fts = [_re.sub(r"\(dyn ([^()+]+) \+ '[a-z_]+\)", r"dyn \1", ft) for ft in fts]
                    return bool(fts) and all(allowed(ft, depth + 1) or allowed("&" + ft, depth + 1) for ft in fts)
            return False
        badc = [t for t in tys if not allowed(t)]
        ck.require(not badc, "C06-R2", "captures of %s" % cl.id,
                   "closure run on several threads captures %s" % badc, par.where(agg), ok_detail="; ".join(tys))

    # ---- R3 barrier -----------------------------------------------------------------------------------------------
    loads = [(bb, t) for bb, t, c in calls_named(par, "atomic::Atomic::<usize>::load", "AtomicUsize::load")]
    ck.floor("C06-R3", "loads of the shared index in the driver", len(loads), 1)
    final_locals = set()
    for bb, t in loads:
        ck.require(cfg.dominates(par, apply_site.bb, bb) and bb != apply_site.bb, "C06-R3", "final patch loaded after the apply phase",
                   "the earliest-broken index is read before all apply workers returned", par.where(t))
        ck.require(cfg.dominates(par, bb, save_site.bb), "C06-R3", "final patch loaded before the save phase",
                   "the load does not dominate the save phase", par.where(t))
        final_locals.add(t["dest"]["l"])
    if save_agg is not None:
        caps = [o["pl"]["l"] for o in save_agg["rv"]["ops"] if o.get("k") in ("copy", "move") and "p" not in o["pl"]]
        # by value, or through a shared reference to the local that holds the loaded value (which nothing re-assigns)
        byref = set()
        for c_ in caps:
            one = df.defs_of(par).single(c_)
            if one and one[0] == "stmt" and one[3]["rv"]["k"] == "ref" and not one[3]["rv"].get("mut") and "p" not in one[3]["rv"]["pl"]:
                src = one[3]["rv"]["pl"]["l"]
                holders = {src}
                o2 = df.defs_of(par).single(src)
                if o2 and o2[0] == "stmt" and o2[3]["rv"]["k"] == "use" and o2[3]["rv"]["op"].get("k") in ("copy", "move") and "p" not in o2[3]["rv"]["op"]["pl"]:
                    holders.add(o2[3]["rv"]["op"]["pl"]["l"])
                if holders & final_locals and len(df.defs_of(par).all(src)) == 1 and src not in df.defs_of(par).mut_borrowed:
                    byref.add(c_)
        ck.require(bool(final_locals & set(caps)) or bool(byref), "C06-R3", "final patch handed by value to the save workers",
                   "the save closure does not capture the loaded final patch (by value or by shared reference)", par.where(save_agg))
        # and the closure forwards exactly that capture to save_files_worker
        for bb, t, c in calls_named(save_cl, A["save_worker"]):
            e = df.operand_expr(save_cl, t["args"][3])
            ck.require(isinstance(e, tuple) and e[0] == "field" and isinstance(e[1], tuple) and e[1][0] == "param", "C06-R3",
                       "save worker receives the captured final patch", "save_files_worker gets final_patch = %s" % df.show(e), save_cl.where(t))
    writers = cg.functions_with_effect(callgraph.fs_write_kind)
    apply_reach = cg.closure([apply_cl.id])
    w = sorted(apply_reach & {s.caller.id for s, _ in cg.fs_write_sites()})
    ck.require(not w, "C06-R3", "apply phase writes nothing", "file-system writes reachable from the apply-phase closure: %s" % w, apply_cl.where())

    # ---- R4 strict comparison ------------------------------------------------------------------------------------------
    found = 0
    for st in stop_tests(ck.prog, apply_worker):
        found += 1
        if st["kind"] == "outside":
            ck.violate("C06-R4", "stop test outside the worker loop", "comparison with the shared index is not inside the loop", st["where"])
            continue
        ck.require(st["good"], "C06-R4", "worker stops only when strictly past the earliest broken patch",
                   "the worker loop stops on `index %s earliest` (%s): file patches of the failing patch itself would be skipped "
                   "(incomplete rejects) or later patches applied" % (st["op"], st["detail"]), st["where"],
                   ok_detail="exit iff index > load(earliest) (%s)" % st["kind"])
    ck.floor("C06-R4", "stop tests in apply_worker", found, 1)

    # ---- R5 / R6 -------------------------------------------------------------------------------------------------------
    c04.r2_single_caller(ck, rule="C06-R5")
    c05.r4(ck, par, rule="C06-R6")
    # run-ahead patches are undone newest-first, and only forgotten once undone (what a worker applied past the failing patch must
    # leave no trace, whichever schedule let it get that far)
    r10_worker_error_weighed(ck, par)
    c04.r3_lifo(ck, rule="C06-R9")
    c04.r3b_pop_after_rollback(ck, rule="C06-R9")
    # the workers do what the single-threaded run does only if everything that names a file runs on one worker: the grouping (C07)
    from . import c07 as _c07
    from ..framework import RuleAlias as _RA
    _c07.run(_RA(ck, lambda r: "C06-R12"))
    # the undo re-inserts the hunk's own lines; that restores the file only because a hunk is placed solely where the file's lines
    # equal them byte for byte (the comparison of the trial, C02-R4) - run-ahead patches are undone exactly only if that holds
    from . import c02 as _c02
    from .c18 import ck_alias as _alias
    _c02.r4(_alias(ck, "C06-R11"))

    # ---- R7 conflicting effects in one parallel region ---------------------------------------------------------------------
    def region_label(cl):
        """Name a parallel region by the worker function its closure runs (closure numbers change with every edit)."""
        names = [s_.callee.split("::")[-1] for s_ in cg.out[cl.id] if s_.callee in prog.fns and "{closure" not in s_.callee and s_.kind == "call"]
        return "the workers running " + "/".join(sorted(set(names))) if names else "a rayon closure of " + cl.id.split("::{closure")[0].split("::")[-1]
    for site, cl, agg in launches:
        reach = cg.closure([cl.id])
        labs = {}
        for s, lab in cg.fs_write_sites():
            if s.caller.id in reach:
                # .pc metadata paths are per-patch directories that are only ever created
                labs.setdefault(lab, []).append(s)
        rm = labs.get("rmdir", [])
        mk = labs.get("mkdir", []) + labs.get("create", [])
        ck.require(not (rm and mk), "C06-R7", "no rmdir next to create among %s" % region_label(cl),
                   "directory removal (%s) and creation (%s) are both reachable from one parallel region: a worker can remove a directory "
                   "between another worker's create_dir_all and File::create" % (
                       sorted({s.caller.id for s in rm}), sorted({s.caller.id for s in mk})), site.where(),
                   ok_detail="effects: %s" % sorted(labs))

    # ---- R7b: a creation that tolerates a missing directory next to directory creation ----------------------------------
    def tolerant_creates(fid):
        """File::create sites in fid whose NotFound error is swallowed (the operation is skipped instead of failing)."""
        fn = prog.fns[fid]
        out = []
        for bb, t, c in calls_named(fn, "std::fs::File::create", "std::fs::File::create_new"):
            re = pt.result_edges(fn, bb)
            if not re or not re["err"]:
                continue
            err_region = set()
            for e in re["err"]:
                err_region |= cfg.reachable(fn, [e[1]])
            for g in guards.find_bool_guards(fn, lambda e: isinstance(e, tuple) and e[0] == "call" and "ErrorKind" in e[1] and e[1].endswith("::eq")):
                if g["bb"] not in err_region:
                    continue
                nf = False
                for a in g["expr"][2]:
                    pv = guards.promoted_value(fn, a)
                    if pv and pv[0] == "enum" and pv[2] == "NotFound":
                        nf = True
                if not nf:
                    continue
                tr = cfg.dominated_by_edge(fn, g["true_edge"])
                returns_err = any((s_["k"] == "assign" and s_["lhs"]["l"] == 0 and s_["rv"]["k"] == "agg" and s_["rv"].get("variant") == "Err")
                                  for b_ in tr for s_ in fn.blocks[b_]["stmts"]) or \
                    any(fn.blocks[b_]["term"]["k"] == "call" and fn.blocks[b_]["term"]["dest"]["l"] == 0 for b_ in tr)
                if not returns_err:
                    out.append((fn, bb, t))
        return out
    for site, cl, agg in launches:
        reach = cg.closure([cl.id])
        tol = [x for f in sorted(reach) for x in tolerant_creates(f)]
        mk = [s_ for s_, lab in cg.fs_write_sites() if s_.caller.id in reach and lab == "mkdir" and
              not df.mentions_deep(s_.caller, df.operand_expr(s_.caller, s_.term["args"][0]), lambda x: df.is_const(x, ".pc"))]
        for fn_, bb_, t_ in tol:
            ck.require(not mk, "C06-R7", "missing-directory-tolerant creation in %s next to directory creation among %s" % (
                fn_.id.split("::")[-1], region_label(cl)),
                "%s skips its output when the directory does not exist, while other workers of the same parallel region create directories "
                "(%s): whether the file is written depends on the schedule; the sequential driver writes all rejects before anything is saved" % (
                    fn_.id, sorted({s_.caller.id for s_ in mk})), fn_.where(t_),
                ok_detail="no directory creation in the same region")

    # ---- R14 what a worker did stays in its file map until it is saved (the single-threaded driver never drops an entry): C05-R6b ------
    from . import c05 as _c05
    _c05.r6b_no_entry_leaves_the_file_map(ck, rule="C06-R14")
    # ---- R13 every file patch is scheduled and queued --------------------------------------------------------------------------------
    r13_every_file_patch_is_queued(ck, par)

    # ---- R8 names --------------------------------------------------------------------------------------------------------------
    adds = calls_named(par, "FilenameDistributor::<T>::add")
    ck.floor("C06-R8", "FilenameDistributor::add calls", len(adds), 1)
    for bb, t, c in adds:
        def name_calls(op):
            locs = df.operand_trace(par, op)
            names = set()
            for l in locs:
                for dd in df.defs_of(par).all(l):
                    if dd[0] in ("call", "pcall"):
                        p = callee_of(dd[2]).get("rpath") or ""
                        if p.endswith("::old_filename"):
                            names.add("old")
                        if p.endswith("::new_filename"):
                            names.add("new")
            return names
        n1 = name_calls(t["args"][1])
        n2 = name_calls(t["args"][2])
        ck.require("old" in n1 and "new" in n1, "C06-R8", "first name registered for scheduling",
                   "the scheduled name derives only from %s" % sorted(n1), par.where(t), ok_detail="derives from %s" % sorted(n1))
        ck.require("new" in n2, "C06-R8", "second name of a two-name file patch registered with the first",
                   "the related name handed to the distributor never derives from new_filename(): a file patch whose old and new names "
                   "differ is scheduled by one name only, so two workers can own the same file", par.where(t), ok_detail="derives from %s" % sorted(n2))
    related_names_registered(ck, par, adds, "C06-R8")
    scheduling_key_type(ck, par, "C06-R8")
    # dispatch key
    idx = [(bb, t) for bb, t in par.calls() if (callee_of(t).get("path") or "").endswith("Index::index") and "HashMap" in (t["argtys"][0] if t["argtys"] else "")]
    ck.floor("C06-R8", "dispatch lookups in the thread map", len(idx), 1)
    for bb, t in idx:
        locs = df.operand_trace(par, t["args"][1])
        names = set()
        for l in locs:
            for dd in df.defs_of(par).all(l):
                if dd[0] == "call":
                    p = callee_of(dd[2]).get("rpath") or ""
                    if p.endswith("::old_filename") or p.endswith("::new_filename"):
                        names.add(p.split("::")[-1])
        ck.require(bool(names), "C06-R8", "dispatch key is a name of the file patch", "dispatch key does not derive from the file patch's names", par.where(t),
                   ok_detail=str(sorted(names)))
    # in apply_one_file_patch every loaded name derives from the file patch (same obligation as C15-R3d)
    gol = ck.anchor("ModifiedFiles::<'arena, 'config>::get_or_load")
    if gol is not None:
        for s in cg.sites_to(gol.id):
            e = df.operand_expr(s.caller, s.term["args"][1])
            names = [x for x in df.walk(e) if df.is_call(x, "::old_filename", "::new_filename")]
            ck.require(bool(names), "C06-R8", "worker loads only names of its own file patch (%s)" % s.caller.name,
                       "get_or_load is given %s" % df.show(e, 120), s.where())


def r13_every_file_patch_is_queued(ck, par, rule="C06-R13"):
    """The single-threaded driver hands every file patch of a patch to apply_one_file_patch (C13-R3).  The parallel driver first sorts
    them into per-thread queues: every file patch drawn from a loaded patch is registered with the distributor (first pass) and pushed
    onto a queue (second pass) - an iteration that goes on to the next one without doing so drops that file patch from the parallel
    run only (a `continue` for entries that "have nothing to apply": a mode-only entry still changes the mode)."""
    prog = ck.prog
    n_add = n_push = 0
    its = pt.iterations(par, prog)
    # the pass is the innermost walk around the call (the walk over the patches around it may skip a patch that failed to load)
    def innermost(bf_id, bb):
        c = [it for it in its if it["body_fn"].id == bf_id and bb in it["body"]]
        return min(c, key=lambda it: len(it["body"])) if c else None
    seen = set()
    for it in its:
        bf = it["body_fn"]
        adds = {bb for bb, t, c in calls_named(bf, "FilenameDistributor::<T>::add") if bb in it["body"] and innermost(bf.id, bb) is it}
        pushes = {bb for bb, t in bf.calls() if bb in it["body"] and (callee_of(t).get("rpath") or "").endswith("Vec::<T, A>::push") and
                  "FilePatch<" in (t["argtys"][0] if t["argtys"] else "") and innermost(bf.id, bb) is it}
        if adds:
            n_add += 1
            ck.require(pt.every_item_reaches(it, adds), rule, "every file patch of a loaded patch is registered with the distributor",
                       "an iteration over the file patches can go on to the next one without FilenameDistributor::add: that file patch's names "
                       "are not tied to a worker", it["where"], ok_detail="add() is on every path of an iteration")
        if pushes:
            n_push += 1
            ck.require(pt.every_item_reaches(it, pushes), rule, "every file patch of a loaded patch is put on a worker's queue",
                       "an iteration over the file patches can go on to the next one without pushing it onto a queue: the parallel run drops "
                       "that file patch (its mode change, its creation of an empty file ...) while the single-threaded run applies it",
                       it["where"], ok_detail="push onto a per-thread queue is on every path of an iteration")
    ck.floor(rule, "passes registering file patches", n_add, 1)
    ck.floor(rule, "passes queueing file patches", n_push, 1)
