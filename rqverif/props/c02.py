"""C02  hunk placement obeys offset / anchoring / fuzz rules (DESIGN §4 C02)."""
from .. import cfg, dataflow as df, guards, patterns as pt
from ..common import is_min_call, is_max_call, named_input, calls_named
from ..facts import callee_of

LEVEL = "other"
EXPLANATION = (
    "Decides three necessary conditions: (R1) lowest fuzz first — in normal mode the levels given to Hunk::view are the successive "
    "values of one inclusive range starting at the constant 0, drawn with Iterator::next (never reversed), bounded by "
    "min(limit, usable context), and the level loop is left exactly when try_apply_hunk reported Applied; (R2) anchored hunks never "
    "float — the position scan is only reachable when the view's position compared equal to Middle and the mode is Normal; (R3) fuzz "
    "never trims a changed line — HunkView::new derives prefix_fuzz/suffix_fuzz by saturating_sub from the hunk's own "
    "prefix_context/suffix_context (so each is bounded by it) and remove_content/add_content slice only [prefix_fuzz .. len - suffix_fuzz]. "
    "(R4) the position scan — the loop tests exactly the drawn candidate against the same needle/haystack as the direct probe, the first "
    "hit is recorded and ends the loop, exhaustion is the only other exit; the candidate sequence, read off the MIR as an iterator term "
    "(Range / RangeInclusive / rev / interleave / chain over expected line, file length, hunk length and constants <= 2), is decided in a "
    "finite-order model (engine H): every position of [0, len - hunk_len] other than the expected line occurs, in strictly increasing "
    "(distance, backward-after-forward) order; and the first guesses are, as integer terms, stated line (Start), stated line + previous "
    "offset (Middle), len - hunk_len (End). matches() answers true only by comparing haystack[at .. at + needle.len()] with the needle and "
    "answers false without comparing only under a condition that excludes every admissible position. Not decided: interplay of fuzz with repeated content beyond the order of levels."
)
LEVEL_NOTE = "Undecided: slice equality itself (core); arithmetic overflow of stated line + offset (C11)."


def level_loop(ck, am, rule):
    """The loop over fuzz levels in apply_modify, or None."""
    loops = [il for il in pt.iterator_loops(am) if "RangeInclusive<usize>" in il["iter_ty"]]
    if not ck.require(len(loops) == 1, rule, "one loop over fuzz levels in apply_modify",
                      "found %d loops over a RangeInclusive<usize> (types: %s)" % (
                          len(loops), [il["iter_ty"] for il in pt.iterator_loops(am)]), am.where()):
        return None
    return loops[0]


def level_range_by_mode(am, il):
    """{"Normal": [(lo, hi, term)], "Rollback": [...]}: the bounds of the range the level loop iterates, per apply mode - whether the
    range is built inside the arms of the match on the mode, or once afterwards from bounds the arms computed (as a pair or as two
    locals)."""
    from .c04 import rollback_regions
    region, normal, sws = rollback_regions(am)
    rng_locals = df.operand_trace(am, il["next_term"]["args"][0])
    news = [(bb, t) for bb, t in am.calls() if (callee_of(t).get("rpath") or "").endswith("RangeInclusive::<Idx>::new") and "p" not in t["dest"] and t["dest"]["l"] in rng_locals]
    out = {"Normal": [], "Rollback": [], "other": []}
    mode_of = lambda b: "Normal" if b in normal else "Rollback" if b in region else None

    def field_by_mode(tl, f, res):
        for dd in df.defs_through_copies(am, tl):
            m = mode_of(dd[1])
            if m is None or dd[0] != "stmt":
                return False
            rv = dd[3]["rv"]
            if not (rv["k"] == "agg" and rv.get("ak") == "tuple" and f < len(rv["ops"])):
                return False
            res.setdefault(m, []).append(df.operand_expr(am, rv["ops"][f]))
        return True

    def per_mode(op):
        """{mode: [expr]} for an operand whose value was decided in the arms of the match on the mode, else None."""
        if op.get("k") not in ("copy", "move"):
            return None
        pl = op["pl"]
        ps = pl.get("p", [])
        res = {}
        if len(ps) == 1 and isinstance(ps[0], dict) and "f" in ps[0]:
            return res if field_by_mode(pl["l"], ps[0]["f"], res) and res else None
        if ps:
            return None
        for dd in df.defs_through_copies(am, pl["l"]):
            if dd[0] != "stmt":
                return None
            rv = dd[3]["rv"]
            if rv["k"] == "use" and rv["op"].get("k") in ("copy", "move") and len(rv["op"]["pl"].get("p", [])) == 1 and \
                    isinstance(rv["op"]["pl"]["p"][0], dict) and "f" in rv["op"]["pl"]["p"][0]:
                if not field_by_mode(rv["op"]["pl"]["l"], rv["op"]["pl"]["p"][0]["f"], res):
                    return None
                continue
            m = mode_of(dd[1])
            if m is None:
                return None
            res.setdefault(m, []).append(df.rvalue_expr(am, rv))
        return res if res else None
    for bb, t in news:
        m = mode_of(bb)
        if m is not None:
            out[m].append((df.operand_expr(am, t["args"][0]), df.operand_expr(am, t["args"][1]), t))
            continue
        lo, hi = per_mode(t["args"][0]), per_mode(t["args"][1])
        if lo and hi and set(lo) == set(hi):
            for m in lo:
                for a, b in zip(lo[m], hi[m]):
                    out[m].append((a, b, t))
        else:
            out["other"].append((df.operand_expr(am, t["args"][0]), df.operand_expr(am, t["args"][1]), t))
    return out


def r1(ck, rule="C02-R1"):
    prog = ck.prog
    am = ck.anchor("FilePatch::<'a, &'a [u8]>::apply_modify")
    if am is None:
        return
    il = level_loop(ck, am, rule)
    if il is None:
        return
    ity = il["iter_ty"]
    fwd = il["callee"]["path"].endswith("Iterator::next") and "Rev<" not in ity and "StepBy" not in ity and "Skip<" not in ity
    ck.require(fwd, rule, "levels drawn in increasing order", "the level iterator is %s driven by %s" % (ity, il["callee"]["path"]), am.where(il["next_term"]),
               ok_detail="%s via Iterator::next" % ity)
    # the range: on the Normal edge  RangeInclusive::new(0, min(limit, max_useable_fuzz))
    by_mode = level_range_by_mode(am, il)
    norm = by_mode["Normal"]
    if ck.require(len(norm) == 1 and not by_mode["other"], rule, "level range built once in normal mode",
                  "normal-mode range constructions: %d (%d not attributable to a mode)" % (len(norm), len(by_mode["other"])), am.where()):
        lo, hi, t = norm[0]
        ck.require(lo == ("const", 0, "usize"), rule, "levels start at 0", "the level range starts at %s" % df.show(lo), am.where(t))
        good = is_min_call(hi) and any(isinstance(a, tuple) and a[0] == "param" and a[2] == "fuzz" for a in hi[2]) and \
            any(df.is_call(a, "max_useable_fuzz") for a in hi[2])
        ck.require(good, rule, "levels end at min(limit, usable context)", "the level range ends at %s" % df.show(hi, 120), am.where(t), ok_detail=df.show(hi, 120))
    # view() gets the drawn level; try_apply_hunk gets that view
    views = [(bb, t) for bb, t, c in calls_named(am, "Hunk::<'a, Line>::view") if bb in il["body"]]
    ck.floor(rule, "Hunk::view calls in the level loop", len(views), 1)
    for bb, t in views:
        lvl = df.operand_expr(am, t["args"][2])
        good = isinstance(lvl, tuple) and lvl[0] == "field" and lvl[2] == 0 and isinstance(lvl[1], tuple) and lvl[1][0] == "downcast" and \
            lvl[1][2] == "Some" and df.is_call(lvl[1][1], "::next")
        ck.require(good, rule, "the view is built at the level just drawn", "Hunk::view is given level %s" % df.show(lvl, 100), am.where(t), ok_detail=df.show(lvl, 100))
    tah = [(bb, t) for bb, t, c in calls_named(am, "libpatch::patch::try_apply_hunk") if bb in il["body"]]
    ck.floor(rule, "try_apply_hunk calls in the level loop", len(tah), 1)
    # exits: exhaustion, or the Applied edge of the value just returned
    applied_edges = []
    for bb, t in tah:
        # the report is moved into a named local; follow one move
        res = t["dest"]["l"]
        cands = {res}
        for b2, i2, s2 in am.stmts():
            if s2["k"] == "assign" and "p" not in s2["lhs"] and s2["rv"]["k"] == "use" and s2["rv"]["op"].get("k") == "move" and \
                    "p" not in s2["rv"]["op"]["pl"] and s2["rv"]["op"]["pl"]["l"] == res and b2 in il["body"]:
                cands.add(s2["lhs"]["l"])
        for l in cands:
            for sw in pt.switches_on_local(am, l):
                if sw["bb"] in il["body"] and "Applied" in sw["edges"] and cfg.dominates(am, bb, sw["bb"]):
                    applied_edges.append(sw["edges"]["Applied"])
    if not ck.require(len(applied_edges) >= 1, rule, "result of each trial is inspected", "no test of the trial's report for Applied inside the level loop", am.where()):
        return
    applied_region = guards.region_of_edges(am, applied_edges)
    exits = [e for e in il["exit_edges"] if not am.blocks[e[1]]["cleanup"]]
    bad = [e for e in exits if e != il["none_edge"] and e[0] not in applied_region and e not in applied_edges]
    succ_exit = [e for e in exits if e[0] in applied_region or e in applied_edges]
    ck.require(not bad, rule, "trials continue until success or exhaustion", "the level loop can be left through %s without a success" % bad, am.where())
    ck.require(bool(succ_exit), rule, "first success ends the trials",
               "after an Applied report the level loop is not left: a higher fuzz level would overwrite the success", am.where(),
               ok_detail="exit edges %s" % succ_exit)
    # nothing on the Applied path loops back
    back = [e for e in cfg.back_edges(am) if e[1] == il["head"] and e[0] in applied_region]
    ck.require(not back, rule, "no further level after success", "an Applied path continues with the next level via %s" % back, am.where())


MATCHES = "libpatch::patch::try_apply_hunk::matches"


def scan_sites(ck, tah):
    """Where try_apply_hunk looks for another position: a loop over candidates that calls matches(), or the same thing spelled
    `candidates.find(|&c| matches(needle, haystack, c))` (first hit wins, None when exhausted - exactly the loop with `break`)."""
    prog = ck.prog
    out = []
    for bb, t, c in calls_named(tah, MATCHES):
        if cfg.innermost_loop_of(tah, bb):
            out.append({"kind": "loop", "bb": bb, "term": t})
    for bb, t in tah.calls():
        if tah.blocks[bb]["cleanup"] or not (callee_of(t).get("path") or "").endswith("Iterator::find") or len(t["args"]) != 2:
            continue
        ce = df.operand_expr(tah, t["args"][1])
        cl = prog.fns.get(ce[1]) if isinstance(ce, tuple) and ce and ce[0] == "closure" else None
        if cl is None:
            continue
        ms = [(b2, t2) for b2, t2, c2 in calls_named(cl, MATCHES)]
        if ms:
            out.append({"kind": "find", "bb": bb, "term": t, "closure": cl, "caps": ce[2], "mcalls": ms})
    return out


def captured(e, caps):
    """An expression of a closure body in terms of its creator: field k of the environment parameter is the k-th captured value."""
    if not isinstance(e, tuple) or not e:
        return e
    if e[0] == "field" and isinstance(e[2], int) and isinstance(e[1], tuple) and e[1][:2] == ("param", 1) and e[2] < len(caps):
        return caps[e[2]]
    return tuple(captured(x, caps) if isinstance(x, tuple) and x and isinstance(x[0], str) else
                 (tuple(captured(y, caps) for y in x) if isinstance(x, tuple) else x) for x in e)


def r2(ck, rule="C02-R2"):
    tah = ck.anchor("libpatch::patch::try_apply_hunk")
    if tah is None:
        return
    scans = [(sc["bb"], sc["term"]) for sc in scan_sites(ck, tah)]
    ck.floor(rule, "position scans in try_apply_hunk", len(scans), 1)

    def position_param_ok(a):
        """`a` is a parameter of try_apply_hunk that, at every call site, is position() of the very view passed as hunk_view."""
        if not (isinstance(a, tuple) and a[0] == "param"):
            return False
        sites = [s_ for s_ in ck.cg.sites_to(tah.id) if s_.term is not None and s_.kind == "call"]
        if not sites:
            return False
        for s_ in sites:
            pe = df.operand_expr(s_.caller, s_.term["args"][a[1] - 1])
            ve = df.operand_expr(s_.caller, s_.term["args"][0])
            if not (df.is_call(pe, "::position") and pe[2][0] == ve):
                return False
        return True

    def is_pos_cmp(e):
        if not (isinstance(e, tuple) and e[0] == "call" and (e[1].endswith("::eq") or e[1].endswith("::ne"))):
            return False
        has_pos = any(df.is_call(a, "::position") or position_param_ok(a) for a in e[2])
        has_mid = False
        for a in e[2]:
            pv = guards.promoted_value(tah, a)
            if pv and pv[0] == "enum" and pv[2] == "Middle":
                has_mid = True
        return has_pos and has_mid
    gs = guards.find_bool_guards(tah, is_pos_cmp)
    from .c04 import rollback_regions
    region, normal, sws = rollback_regions(tah)
    for bb, t in scans:
        ok = False
        for g in gs:
            edge = g["true_edge"] if g["expr"][1].endswith("::eq") else g["false_edge"]
            if bb in cfg.dominated_by_edge(tah, edge):
                ok = True
        ck.require(ok, rule, "the scan is only entered for Middle hunks",
                   "the position scan is not dominated by position() == Middle: a start/end anchored hunk could be applied elsewhere", tah.where(t))
        # not reachable in rollback mode: apply_mode is a path constant (also when the test goes through a flag computed from it)
        from .. import pathconst
        r = pathconst.reach_under(tah, lambda e: None, lambda e, adt: "Rollback" if (adt or "").endswith("ApplyMode") else None)
        ck.require(bool(sws) and bb not in r, rule, "the scan is never entered in rollback mode",
                   "the position scan is reachable with apply_mode = Rollback", tah.where(t))
    # the first guess for anchored hunks: Start -> stated line, End -> len - hunk_len, Middle -> stated + last offset
    psw = pt.discr_switches(tah, lambda e, rv: (rv.get("adt") or "").endswith("HunkPosition"))
    ck.floor(rule, "matches on HunkPosition in try_apply_hunk", len(psw), 1)
    tl = [l for l, nm in tah.names.items() if nm == "target_line"]
    for sw in psw:
        for var, edge in sw["edges"].items():
            reg = cfg.dominated_by_edge(tah, edge)
            for l in tl:
                for dd in df.defs_through_copies(tah, l):
                    if dd[1] in reg:
                        e = df.rvalue_expr(tah, dd[3]["rv"]) if dd[0] == "stmt" else df.call_expr(tah, dd[2])
                        uses_off = df.mentions(e, lambda x: named_input(x, "last_hunk_offset"))
                        if var in ("Start", "End"):
                            ck.require(not uses_off, rule, "%s-anchored first guess ignores the previous offset" % var,
                                       "target line for a %s hunk is %s" % (var, df.show(e, 100)), tah.where(dd[3]) if dd[0] == "stmt" else tah.where())
                        if var == "Middle":
                            ck.require(uses_off and df.mentions(e, lambda x: df.is_call(x, "remove_target_line")), rule,
                                       "Middle first guess = stated line + previous offset", "target line for a Middle hunk is %s" % df.show(e, 100),
                                       tah.where(dd[3]) if dd[0] == "stmt" else tah.where())


def engine_bounds_at_construction(ck, new, agg_stmt, fields):
    """{field: True} for prefix_fuzz / suffix_fuzz when the range engine proves, at the statement that builds the HunkView, that the
    value stored is at most the hunk's prefix_context / suffix_context (closures called on the way are summarised first)."""
    from .. import ranges
    prog = ck.prog
    an = ranges.Analyzer(prog)
    for cl in prog.closures_of(new):
        try:
            an.summaries[cl.id] = an.summarize(cl)
        except Exception:
            an.summaries[cl.id] = None
    out = {}

    def probe(an_, fn, bb, st, state, obligations):
        if st is not agg_stmt or state.dead:
            return
        hop = st["rv"]["ops"][fields.index("hunk")]
        if hop.get("k") not in ("copy", "move"):
            return
        H = an_.cpath(fn, hop["pl"], state)
        for fz, ctx in (("prefix_fuzz", "prefix_context"), ("suffix_fuzz", "suffix_context")):
            t = an_.canon(state, an_.term_of(fn, st["rv"]["ops"][fields.index(fz)], state))
            if t is None:
                continue
            cv = ("v", "%s.%s" % (H, ctx))
            an_.bound_type(state, cv, "usize")
            out[fz] = bool(an_.prove(state, t[0], t[1], cv, 0, 0))
    an.stmt_probe = probe
    try:
        an.analyze(new)
    except Exception:
        return {}
    return out


def r3(ck, rule="C02-R3"):
    prog = ck.prog
    # the one place where a HunkView value is put together (HunkView::new today; Hunk::view would do as well)
    sites = []
    for fn_ in prog.fns.values():
        if fn_.crate != "libpatch" or fn_.impl_trait:      # (derived Clone / Debug impls copy, they do not compute)
            continue
        for bb, idx, s in fn_.stmts():
            if s["k"] == "assign" and s["rv"]["k"] == "agg" and (s["rv"].get("adt") or "").endswith("patch::HunkView") and not fn_.blocks[bb]["cleanup"]:
                sites.append((fn_, bb, s))
    if not ck.require(len(sites) == 1, rule, "HunkView built in one place", "%d constructions: %s" % (len(sites), sorted({f.id for f, b, s in sites})),
                      sites[0][0].where() if sites else None):
        return
    new = sites[0][0]
    aggs = [(sites[0][1], sites[0][2])]
    bb, s = aggs[0]
    fields = s["rv"]["fields"]
    proven = engine_bounds_at_construction(ck, new, s, fields)
    for fz, ctx in (("prefix_fuzz", "prefix_context"), ("suffix_fuzz", "suffix_context")):
        e = df.operand_expr(new, s["rv"]["ops"][fields.index(fz)])
        good = df.is_call(e, "<impl usize>::saturating_sub") and isinstance(e[2][0], tuple) and e[2][0][0] == "field" and e[2][0][2] == ctx \
            and isinstance(e[2][0][1], tuple) and e[2][0][1][0] == "param"
        good = good or proven.get(fz, False)      # whatever the spelling: the range engine shows fuzz part <= context of that hunk
        ck.require(good, rule, "%s <= %s" % (fz, ctx),
                   "%s is computed as %s: it is not bounded by the hunk's %s, so fuzz could trim a changed line" % (fz, df.show(e, 120), ctx),
                   new.where(s), ok_detail="%s = %s.saturating_sub(..) (contract: result <= first operand)" % (fz, ctx))
    # the fuzz level itself is recorded unchanged
    e = df.operand_expr(new, s["rv"]["ops"][fields.index("fuzz")])
    ck.require(isinstance(e, tuple) and e[0] == "param" and e[2] == "fuzz", rule, "the view records the level it was built for", "HunkView.fuzz = %s" % df.show(e), new.where(s))
    # remaining = max(p, s).saturating_sub(fuzz): trimming is driven by the level
    for fz in ("prefix_fuzz", "suffix_fuzz"):
        e = df.operand_expr(new, s["rv"]["ops"][fields.index(fz)])
        if df.is_call(e, "saturating_sub"):
            rem = e[2][1]
            good = df.is_call(rem, "saturating_sub") and is_max_call(rem[2][0], ck.prog) and isinstance(rem[2][1], tuple) and rem[2][1][0] == "param" and rem[2][1][2] == "fuzz"
            ck.require(good, rule, "%s trims down to max(prefix,suffix) - level" % fz, "remaining context is %s" % df.show(rem, 120), new.where(s))
    for nm, part in (("remove_content", "remove_part"), ("add_content", "add_part")):
        fn = ck.anchor("HunkView::<'a, 'hunk, Line>::%s" % nm)
        if fn is None:
            continue
        idx = [(b2, t) for b2, t in fn.calls() if (callee_of(t).get("path") or "").endswith("Index::index")]
        if not ck.require(len(idx) == 1, rule, "%s slices once" % nm, "%d index operations" % len(idx), fn.where()):
            continue
        b2, t = idx[0]
        r = df.operand_expr(fn, t["args"][1])
        base = df.operand_expr(fn, t["args"][0])
        good = isinstance(r, tuple) and r[0] == "agg" and r[1].endswith("ops::range::Range")
        if good:
            lo, hi = r[3]
            lo_ok = isinstance(lo, tuple) and lo[0] == "field" and lo[2] == "prefix_fuzz"
            hi_e = hi[1] if isinstance(hi, tuple) and hi[0] == "field" and hi[2] == 0 else hi   # (SubWithOverflow(..)).0
            hi_ok = isinstance(hi_e, tuple) and hi_e[0] == "bin" and hi_e[1].startswith("Sub") and df.is_call(hi_e[2], "::len") and \
                isinstance(hi_e[3], tuple) and hi_e[3][0] == "field" and hi_e[3][2] == "suffix_fuzz"
            from .. import sides
            side_ok = all(sorted(sides.part_read(prog, fn, d_)) == [w_] for d_, w_ in
                          (("Forward", part.split("_")[0]), ("Revert", "add" if part.startswith("remove") else "remove")))
            base_ok = (df.mentions(base, lambda x: df.is_call(x, "::" + part)) or side_ok) and \
                (df.mentions(base, lambda x: isinstance(x, tuple) and x[0] == "field" and x[2] == "content") or
                 df.mentions_deep(fn, base, lambda x: isinstance(x, tuple) and x[0] == "field" and x[2] == "content"))
            good = lo_ok and hi_ok and base_ok
        ck.require(good, rule, "%s = content[prefix_fuzz .. len - suffix_fuzz]" % nm, "%s slices %s with %s" % (nm, df.show(base, 80), df.show(r, 160)), fn.where(t),
                   ok_detail=df.show(r, 160))


def r4(ck, rule="C02-R4"):
    """The candidate sequence of the position scan: complete over the admissible positions and ordered nearest-first, forward
    winning ties — decided on the iterator *term* with engine H (finite-order model), plus the loop discipline around it."""
    from .. import seqmodel
    tah = ck.anchor("libpatch::patch::try_apply_hunk")
    if tah is None:
        return
    mcalls = [(bb, t) for bb, t, c in calls_named(tah, "libpatch::patch::try_apply_hunk::matches")]
    probes = [(bb, t) for bb, t in mcalls if not cfg.innermost_loop_of(tah, bb)]
    loops = [il for il in pt.iterator_loops(tah) if any(bb in il["body"] for bb, t in mcalls)]
    finds = [sc for sc in scan_sites(ck, tah) if sc["kind"] == "find"]
    if not ck.require(len(probes) == 1 and len(loops) + len(finds) == 1, rule, "one direct probe and one scan loop in try_apply_hunk",
                      "%d direct matches() probes, %d loops that call matches(), %d find() scans" % (len(probes), len(loops), len(finds)), tah.where()):
        return
    pbb, probe = probes[0]
    if not ck.require(len(probe["args"]) == 3, rule, "matches(needle, haystack, position)",
                      "matches() takes %d arguments: the comparison depends on something besides the hunk's lines, the file's lines and the "
                      "position" % len(probe["args"]), tah.where(probe)):
        return
    needle, hay, T = (df.operand_expr(tah, a) for a in probe["args"])
    if finds:
        r4_find_form(ck, rule, tah, finds[0], needle, hay, T, pbb)
        return
    il = loops[0]
    scan = [(bb, t) for bb, t in mcalls if bb in il["body"]]
    if not ck.require(len(scan) == 1, rule, "one matches() call in the scan loop", "%d calls" % len(scan), tah.where()):
        return
    sbb, st_ = scan[0]
    sn, sh, item = (df.operand_expr(tah, a) for a in st_["args"])
    ck.require(sn == needle and sh == hay, rule, "the scan compares the same lines against the same file as the direct probe",
               "scan: matches(%s, %s, _)  probe: matches(%s, %s, _)" % (df.show(sn, 60), df.show(sh, 60), df.show(needle, 60), df.show(hay, 60)), tah.where(st_))
    is_item = isinstance(item, tuple) and item[0] == "field" and item[2] == 0 and isinstance(item[1], tuple) and item[1][0] == "downcast" and \
        item[1][2] == "Some" and df.is_call(item[1][1], "Iterator>::next")
    ck.require(is_item, rule, "each drawn candidate is the position tested", "matches() in the loop is given %s, not the drawn candidate" % df.show(item, 100),
               tah.where(st_))
    # ---- loop discipline: first match wins, exhaustion is the only other way out ------------------------------------------
    be = guards.bool_edges(tah, sbb) if tah.blocks[sbb]["term"]["k"] == "switch" else None
    nxt = tah.blocks[sbb]["term"].get("target")
    sw_bb = nxt if nxt is not None else None
    be = guards.bool_edges(tah, sw_bb) if sw_bb is not None else None
    cond = guards.switch_cond(tah, sw_bb) if sw_bb is not None else None
    okc = bool(be and cond and df.is_call(cond[0], "try_apply_hunk::matches"))
    if ck.require(okc, rule, "the scan branches on the result of matches()", "no boolean branch on matches() right after the call", tah.where(st_)):
        f_edge, t_edge = be
        if cond[1]:
            f_edge, t_edge = t_edge, f_edge
        treg = cfg.dominated_by_edge(tah, (sw_bb, t_edge))
        ck.require(il["head"] not in cfg.reachable(tah, [t_edge]) or not (cfg.reachable(tah, [t_edge]) & {il["head"]}), rule,
                   "the first matching candidate ends the scan", "after a match the loop draws further candidates (a later, farther match could win)",
                   tah.where(st_))
        # the hit is recorded as the drawn candidate
        d = df.defs_of(tah)
        rec_ok = False
        for bb2, idx2, s2 in tah.stmts():
            if bb2 in treg and s2["k"] == "assign" and "p" not in s2["lhs"] and tah.names.get(s2["lhs"]["l"]):
                e2 = df.rvalue_expr(tah, s2["rv"])
                if isinstance(e2, tuple) and e2[0] == "agg" and e2[2] == "Some" and e2[3] and e2[3][0] == item:
                    rec_ok = True
        ck.require(rec_ok, rule, "a hit records the candidate that matched", "no `Some(candidate)` recorded on the matching branch", tah.where(st_))
        exits = set(il["exit_edges"])
        other = [e for e in exits if e != il["none_edge"] and e[0] not in treg and e[0] != sw_bb]
        ck.require(not other, rule, "the scan ends only on a match or on exhaustion", "the loop can also be left through %s" % other, tah.where(st_))
        ck.require(il["head"] in cfg.reachable(tah, [f_edge]), rule, "a non-matching candidate continues the scan",
                   "after a failed comparison the loop is not continued", tah.where(st_))
    # ---- T is stable between the probe and the scan --------------------------------------------------------------------------
    if isinstance(T, tuple) and T[0] == "local":
        between = cfg.reachable(tah, [pbb]) & {b for b in range(len(tah.blocks)) if il["head"] in cfg.reachable(tah, [b])}
        redefs = [dd for dd in df.defs_of(tah).all(T[1]) if dd[1] in between and dd[1] != pbb]
        ck.require(not redefs, rule, "the expected line is not changed between the direct probe and the scan",
                   "the expected line is reassigned between the probe and the scan", tah.where())
    # ---- the iterator term ----------------------------------------------------------------------------------------------------
    it = df.operand_expr(tah, il["next_term"]["args"][0])
    if isinstance(it, tuple) and it[0] == "local":
        full = [dd for dd in df.defs_of(tah).all(it[1]) if dd[0] in ("stmt", "call")]
        if len(full) == 1:
            it = df.rvalue_expr(tah, full[0][3]["rv"]) if full[0][0] == "stmt" else df.call_expr(tah, full[0][2])
    ctx = r4_sequence(ck, rule, tah, it, needle, hay, T, tah.where(il["next_term"]))
    if not ctx:
        return
    r4_matches_contract(ck, rule, tah, T, needle, ctx)


def r4_find_form(ck, rule, tah, sc, needle, hay, T, pbb):
    """The scan as `candidates.find(|&c| matches(needle, haystack, c))`."""
    cl, t = sc["closure"], sc["term"]
    if not ck.require(len(sc["mcalls"]) == 1, rule, "one matches() call in the scan", "%d calls in the find() predicate" % len(sc["mcalls"]), cl.where()):
        return
    b2, t2 = sc["mcalls"][0]
    sn, sh, item = (captured(df.operand_expr(cl, a), sc["caps"]) for a in t2["args"])
    ck.require(sn == needle and sh == hay, rule, "the scan compares the same lines against the same file as the direct probe",
               "scan: matches(%s, %s, _)  probe: matches(%s, %s, _)" % (df.show(sn, 60), df.show(sh, 60), df.show(needle, 60), df.show(hay, 60)), cl.where(t2))
    ck.require(isinstance(item, tuple) and item[:2] == ("param", 2), rule, "each drawn candidate is the position tested",
               "matches() in the predicate is given %s, not the candidate" % df.show(item, 100), cl.where(t2))
    # the predicate is the comparison, nothing else: find() then returns the first candidate that matches, None when exhausted
    ret = df.local_expr(cl, 0)
    ck.require(df.is_call(ret, "try_apply_hunk::matches") and len(df.defs_of(cl).all(0)) == 1, rule, "the first matching candidate ends the scan",
               "the find() predicate returns %s, not the result of matches()" % df.show(ret, 100), cl.where())
    fe = df.call_expr(tah, t)
    rec_ok = False
    for bb3, i3, s3 in tah.stmts():
        if s3["k"] == "assign" and "p" not in s3["lhs"] and tah.names.get(s3["lhs"]["l"]):
            e3 = df.rvalue_expr(tah, s3["rv"])
            if isinstance(e3, tuple) and e3[0] == "field" and e3[2] == 0 and isinstance(e3[1], tuple) and e3[1][0] == "downcast" and e3[1][2] == "Some" and \
                    df.mentions(e3[1][1], lambda x: x == fe):
                rec_ok = True
    ck.require(rec_ok, rule, "a hit records the candidate that matched", "the payload of find()'s result is not what becomes the position", tah.where(t))
    if isinstance(T, tuple) and T[0] == "local":
        between = cfg.reachable(tah, [pbb]) & {b for b in range(len(tah.blocks)) if sc["bb"] in cfg.reachable(tah, [b])}
        redefs = [dd for dd in df.defs_of(tah).all(T[1]) if dd[1] in between and dd[1] != pbb]
        ck.require(not redefs, rule, "the expected line is not changed between the direct probe and the scan",
                   "the expected line is reassigned between the probe and the scan", tah.where())
    it = df.operand_expr(tah, t["args"][0])
    ctx = r4_sequence(ck, rule, tah, it, needle, hay, T, tah.where(t))
    if not ctx:
        return
    r4_matches_contract(ck, rule, tah, T, needle, ctx)


def r4_sequence(ck, rule, tah, it, needle, hay, T, where_it):
    from .. import seqmodel

    view = ("param", 1, tah.local_name(1)) if hasattr(tah, "local_name") else None
    sn_ = seqmodel.strip

    def fpath(x, *names):
        """x == view.<names...> ?"""
        for nm in reversed(names):
            if not (isinstance(x, tuple) and x[0] == "field" and x[2] == nm):
                return False
            x = x[1]
        return isinstance(x, tuple) and x[:2] == ("param", 1)
    INTS = [("T", lambda x: x == T), ("pf", lambda x: fpath(x, "prefix_fuzz")), ("sf", lambda x: fpath(x, "suffix_fuzz"))]
    SEQS = [("n", lambda x: sn_(x) == sn_(hay)), ("Lrem", lambda x: fpath(sn_(x), "hunk", "remove", "content")),
            ("Ladd", lambda x: fpath(sn_(x), "hunk", "add", "content"))]
    ENUMS = [("dir", lambda x: fpath(x, "direction"))]

    def envs(free, width, extra_len=(), grid=None):
        import itertools as _it
        if grid is not None:     # affine terms with at most one min/max: a small grid of distinct values decides equality
            base = (dict(zip(list(free) + ["n"], vals)) for vals in _it.product(*([grid] * len(free) + [(0, 3)])))
        else:
            base = seqmodel.valuations(list(free), ["n"] + list(extra_len), width)
        for env in base:
            for d in ("Forward", "Revert"):
                for lr in range(0, 4):
                    for la in range(0, 4):
                        for pf in range(0, 2):
                            for sf in range(0, 2):
                                if pf + sf <= min(lr, la):
                                    e2 = dict(env)
                                    e2.update(dir=d, Lrem=lr, Ladd=la, pf=pf, sf=sf)
                                    yield e2
    m = seqmodel.Model(INTS, prog=ck.prog, seqsyms=SEQS, enumsyms=ENUMS)
    bad = None
    nval = 0
    try:
        for env in envs(["T"], 8 if ck.tier == "thorough" else 5):
            seq = m.S(it, env)
            nval += 1
            n, r, t = env["n"], m.L(needle, env), env["T"]
            side = "with direction %s, %d/%d lines on the hunk's old/new side, %d+%d trimmed, " % (env["dir"], env["Lrem"], env["Ladd"], env["pf"], env["sf"])
            adm = range(0, n - r + 1)
            have = set(seq)
            miss = [p for p in adm if p != t and p not in have]
            if miss:
                bad = ("coverage", side + "with %d lines in the file, %d lines to match and expected line %d the admissible position %d is never probed "
                       "(probed: %s)" % (n, r, t, miss[0], [t] + seq))
                break
            keys = [(abs(p - t), 0 if p > t else 1) for p in seq if p in adm and p != t]
            if any(k2 <= k1 for k1, k2 in zip(keys, keys[1:])):
                bad = ("order", side + "with %d lines in the file, %d lines to match and expected line %d the candidates are probed in the order %s: "
                       "not nearest-first with forward winning ties" % (n, r, t, [p for p in seq if p in adm]))
                break
    except seqmodel.Unsupported as ex:
        ck.violate(rule, "scan sequence is a recognised iterator term", "cannot model the candidate sequence (%s): anchor lost, the rule would be vacuous" % ex,
                   where_it)
        return False
    if not ck.require({"T"} <= m.used, rule, "the candidate sequence depends on the expected line",
                      "the iterator term mentions none of expected line / file length / hunk length", where_it):
        return False
    if m.max_const > 2:
        ck.violate(rule, "constants in the candidate sequence are within the model's window", "constant %d exceeds the small-model window" % m.max_const,
                   where_it)
        return False
    inst = "candidates cover every admissible position, nearest first, forward before backward"
    if bad:
        ck.violate(rule, inst, "%s: %s" % bad, where_it)
    else:
        ck.ok(rule, inst, "iterator term %s decided over %d valuations of (expected line, file length, hunk length): every position in "
              "[0, len - hunk_len] other than the expected line occurs, in strictly increasing (distance, backward) order" % (df.show(it, 200), nval),
              where_it)
    return {"INTS": INTS, "SEQS": SEQS, "ENUMS": ENUMS, "envs": envs, "fpath": fpath}


def r4_matches_contract(ck, rule, tah, T, needle, ctx):
    from .. import seqmodel
    INTS, SEQS, ENUMS, envs, fpath = ctx["INTS"], ctx["SEQS"], ctx["ENUMS"], ctx["envs"], ctx["fpath"]
    # ---- matches(): true only by comparing haystack[at .. at + len(needle)] with needle, false without comparing only when inadmissible ----
    mfn = ck.anchor("libpatch::patch::try_apply_hunk::matches")
    if mfn is not None:
        def is_len_param(x, idx):
            x = seqmodel.strip(x)
            return df.is_call(x, "::len") and len(x[2]) == 1 and seqmodel.strip(x[2][0])[:2] == ("param", idx)
        mm = seqmodel.Model([("A", lambda x: isinstance(x, tuple) and x[:2] == ("param", 3)), ("r", lambda x: is_len_param(x, 1)),
                             ("n", lambda x: is_len_param(x, 2))])
        gl = guards.find_bool_guards(mfn, lambda e: True)
        ncmp = nfalse = 0
        for dd in df.defs_of(mfn).all(0):
            e = df.rvalue_expr(mfn, dd[3]["rv"]) if dd[0] == "stmt" else df.call_expr(mfn, dd[2])
            where = mfn.where(dd[3]) if dd[0] == "stmt" else mfn.where(dd[2])
            if e == ("const", 0, "bool"):
                nfalse += 1
                # edges taken only for inadmissible positions; the `false` return must be unreachable once they are removed
                excl = set()
                try:
                    for g in gl:
                        for tv, edge in ((True, g["true_edge"]), (False, g["false_edge"])):
                            try:
                                if all(mm.boolval(g["expr"], env) != tv for env in seqmodel.valuations(["A"], ["n", "r"], 4)
                                       if 0 <= env["A"] <= env["n"] - env["r"]):
                                    excl.add(edge)
                            except seqmodel.Unsupported:
                                pass
                    # haystack.get(lo..hi) is None exactly when not lo <= hi <= len(haystack)
                    for sw in pt.discr_switches(mfn, lambda ex, rv: True):
                        g_ = sw["expr"]
                        if df.is_call(g_, "<impl [T]>::get") and len(g_[2]) == 2 and seqmodel.strip(g_[2][0])[:2] == ("param", 2) and \
                                isinstance(g_[2][1], tuple) and g_[2][1][0] == "agg" and g_[2][1][1].endswith("ops::range::Range") and sw["edges"].get("None"):
                            lo_, hi_ = g_[2][1][3]
                            try:
                                if all(mm.val(lo_, env) <= mm.val(hi_, env) <= env["n"] for env in seqmodel.valuations(["A"], ["n", "r"], 4)
                                       if 0 <= env["A"] <= env["n"] - env["r"]):
                                    excl.add(sw["edges"]["None"])
                            except seqmodel.Unsupported:
                                pass
                    good = bool(excl) and dd[1] not in cfg.reachable(mfn, 0, disabled=excl)
                except seqmodel.Unsupported as ex:
                    good = False
                ck.require(good, rule, "matches() answers false without comparing only for inadmissible positions",
                           "a `false` return of matches() is not guarded by a condition that excludes every position in [0, len - needle_len]", where)
            elif (df.is_call(e, "::eq") or df.is_call(e, "<impl [T]>::starts_with")) and len(e[2]) == 2:
                ncmp += 1
                a, b = e[2]
                good = False
                if isinstance(a, tuple) and a[0] == "field" and a[2] == 0 and isinstance(a[1], tuple) and a[1][0] == "downcast" and a[1][2] == "Some" and \
                        df.is_call(a[1][1], "<impl [T]>::get"):
                    a = a[1][1]        # the window handed out by haystack.get(at .. at + needle.len())
                if (df.is_call(a, "Index<I> for [T]>::index") or df.is_call(a, "<impl [T]>::get")) and seqmodel.strip(b)[:2] == ("param", 1) and seqmodel.strip(a[2][0])[:2] == ("param", 2):
                    rg = a[2][1]
                    try:
                        if df.is_call(e, "::eq"):       # haystack[at .. at + needle.len()] == needle
                            good = isinstance(rg, tuple) and rg[0] == "agg" and rg[1].endswith("ops::range::Range") and \
                                all(mm.val(rg[3][0], env) == env["A"] and mm.val(rg[3][1], env) == env["A"] + env["r"]
                                    for env in seqmodel.valuations(["A"], ["n", "r"], 3) if env["A"] >= 0)
                        else:                             # haystack[at ..].starts_with(needle)
                            good = isinstance(rg, tuple) and rg[0] == "agg" and rg[1].endswith("ops::range::RangeFrom") and \
                                all(mm.val(rg[3][0], env) == env["A"] for env in seqmodel.valuations(["A"], ["n", "r"], 3) if env["A"] >= 0)
                    except seqmodel.Unsupported:
                        good = False
                ck.require(good, rule, "matches() compares haystack[at .. at + needle.len()] with the needle",
                           "matches() returns %s" % df.show(e, 160), where, ok_detail=df.show(e, 160))
            else:
                ck.violate(rule, "matches() result is a comparison or a guarded false", "matches() can return %s" % df.show(e, 120), where)
        ck.floor(rule, "comparison returns in matches()", ncmp, 1)

    # ---- first guesses as integer terms -----------------------------------------------------------------------------------------
    psw = pt.discr_switches(tah, lambda e, rv: (rv.get("adt") or "").endswith("HunkPosition"))
    if isinstance(T, tuple) and T[0] == "local" and psw:
        stated = lambda v: v["Srem"] if v["dir"] == "Forward" else v["Sadd"]
        want = {"Start": lambda v, r: stated(v), "Middle": lambda v, r: stated(v) + v["O"], "End": lambda v, r: v["n"] - r}
        m2 = seqmodel.Model(INTS + [("O", lambda x: named_input(x, "last_hunk_offset")),
                                    ("Srem", lambda x: fpath(x, "hunk", "remove", "target_line")),
                                    ("Sadd", lambda x: fpath(x, "hunk", "add", "target_line"))],
                            prog=ck.prog, seqsyms=SEQS, enumsyms=ENUMS)
        for sw in psw:
            for var, edge in sw["edges"].items():
                if var not in want:
                    continue
                reg = cfg.dominated_by_edge(tah, edge)
                ds = [dd for dd in df.defs_through_copies(tah, T[1]) if dd[1] in reg and dd[0] in ("stmt", "call")]
                if not ck.require(len(ds) == 1, rule, "one first guess for %s hunks" % var, "%d assignments of the expected line on the %s arm" % (len(ds), var),
                                  tah.where()):
                    continue
                dd = ds[0]
                e = df.rvalue_expr(tah, dd[3]["rv"]) if dd[0] == "stmt" else df.call_expr(tah, dd[2])
                wrong = None
                try:
                    for env in envs(["Srem", "Sadd", "O"], 2, grid=(-1, 0, 2)):
                        env["T"] = 0
                        if m2.V(e, env) != want[var](env, m2.L(needle, env)):
                            wrong = {k: env[k] for k in ("dir", "Srem", "Sadd", "O", "n", "Lrem", "Ladd", "pf", "sf")}
                            break
                except seqmodel.Unsupported as ex:
                    ck.violate(rule, "first guess for %s hunks is a recognised term" % var, "cannot model %s (%s)" % (df.show(e, 100), ex),
                               tah.where(dd[3]) if dd[0] == "stmt" else tah.where())
                    continue
                desc = {"Start": "the stated line of the side being removed", "Middle": "stated line of the side being removed + previous offset",
                        "End": "file length - length of the lines to match"}[var]
                ck.require(wrong is None, rule, "first guess for %s hunks = %s" % (var, desc),
                           "the expected line of a %s hunk is %s, which differs from %s e.g. for %s" % (var, df.show(e, 120), desc, wrong),
                           tah.where(dd[3]) if dd[0] == "stmt" else tah.where(), ok_detail=df.show(e, 120))


def r5_no_match_verdicts(ck, rule="C02-R5"):
    """A hunk may be reported Failed(NoMatchingLines) only when no admissible position can match: its old side is longer than the
    file, or the direct probe failed AND (the hunk is anchored / this is a rollback - no other position is admissible - or the scan
    ran out of candidates).  A verdict reached after the failed probe by any other route gives up without having looked."""
    from .. import pathconst
    tah = ck.anchor("libpatch::patch::try_apply_hunk")
    if tah is None:
        return
    verdicts = []
    for bb, idx, s in tah.stmts():
        if s["k"] == "assign" and s["rv"]["k"] == "agg" and (s["rv"].get("adt") or "").endswith("HunkApplyReport") and s["rv"].get("variant") == "Failed" and \
                not tah.blocks[bb]["cleanup"]:
            e = df.operand_expr(tah, s["rv"]["ops"][0])
            if isinstance(e, tuple) and e[0] == "agg" and e[2] == "NoMatchingLines":
                verdicts.append((bb, s))
    ck.floor(rule, "NoMatchingLines verdicts in try_apply_hunk", len(verdicts), 2)
    probes = [(bb, t) for bb, t, c in calls_named(tah, MATCHES) if not cfg.innermost_loop_of(tah, bb)]
    if not ck.require(len(probes) == 1, rule, "one direct probe in try_apply_hunk", "%d direct probes" % len(probes), tah.where()):
        return
    pbb, pt_ = probes[0]
    # edges on which the direct probe has failed
    failed_edges = []
    for g in guards.find_bool_guards(tah, lambda x: df.is_call(x, "try_apply_hunk::matches")):
        if g["bb"] == tah.blocks[pbb]["term"].get("target") or cfg.dominates(tah, pbb, g["bb"]) and not cfg.innermost_loop_of(tah, g["bb"]):
            failed_edges.append(g["false_edge"])
    after_fail = set()
    for e_ in failed_edges:
        after_fail |= cfg.dominated_by_edge(tah, e_)
    # where no other position is admissible: rollback mode, or a hunk that is not Middle
    normal_only = pathconst.reach_under(tah, lambda e: None, lambda e, adt: "Normal" if (adt or "").endswith("ApplyMode") else None)
    rollback_only = pathconst.reach_under(tah, lambda e: None, lambda e, adt: "Rollback" if (adt or "").endswith("ApplyMode") else None)
    anchored = set()
    for g in guards.find_bool_guards(tah, lambda x: isinstance(x, tuple) and x[0] == "call" and x[1].split("::")[-1] in ("eq", "ne") and
                                     any(df.is_call(a, "::position") or (isinstance(a, tuple) and a[0] == "param") for a in x[2])):
        pv = [guards.promoted_value(tah, a) for a in g["expr"][2]]
        if any(p_ and p_[0] == "enum" and p_[2] == "Middle" for p_ in pv):
            edge = g["false_edge"] if g["expr"][1].endswith("::eq") else g["true_edge"]
            anchored |= cfg.dominated_by_edge(tah, edge)
    # what a floating hunk (Middle) in normal mode can reach - whether the two tests are nested, merged with || or go through flags
    def middle_atom(e):
        if isinstance(e, tuple) and e and e[0] == "call" and e[1].split("::")[-1] in ("eq", "ne") and len(e[2]) == 2:
            pv = [guards.promoted_value(tah, a) for a in e[2]]
            if any(p_ and p_[0] == "enum" and p_[2] == "Middle" for p_ in pv) and \
                    any(df.is_call(a, "::position") or (isinstance(a, tuple) and a[0] == "param") for a in e[2]):
                return e[1].endswith("::eq")
        return None
    floating = pathconst.reach_under(tah, middle_atom, lambda e, adt: "Normal" if (adt or "").endswith("ApplyMode") else None)
    # where the scan has run out
    exhausted = set()
    for sc in scan_sites(ck, tah):
        if sc["kind"] == "loop":
            for il in pt.iterator_loops(tah):
                if sc["bb"] in il["body"] and il["none_edge"]:
                    exhausted |= cfg.dominated_by_edge(tah, il["none_edge"])
        else:
            fe = df.call_expr(tah, sc["term"])
            for sw in pt.discr_switches(tah, lambda x, rv: x == fe):
                if sw["edges"].get("None"):
                    exhausted |= cfg.dominated_by_edge(tah, sw["edges"]["None"])
    # ... also when the scan records its hit in an Option that starts as None: the None arm of a later match on it is "ran out"
    for sw in pt.discr_switches(tah, lambda x, rv: True):
        if sw.get("adt") != "core::option::Option" or not sw["edges"].get("None") or "place" not in sw or sw["place"].get("p"):
            continue
        l = sw["place"]["l"]
        ds = [dd for dd in df.defs_through_copies(tah, l) if dd[0] == "stmt"]
        if len(ds) < 2 or len(ds) != len(df.defs_through_copies(tah, l)):
            continue
        nones = [dd for dd in ds if dd[3]["rv"]["k"] == "agg" and dd[3]["rv"].get("variant") == "None"]
        somes = [dd for dd in ds if dd[3]["rv"]["k"] == "agg" and dd[3]["rv"].get("variant") == "Some"]
        scan_loops = [il for il in pt.iterator_loops(tah) if any(sc["kind"] == "loop" and sc["bb"] in il["body"] for sc in scan_sites(ck, tah))]
        # a hit is recorded on the way out of the scan (inside it, or on the `break` path: below the loop head, not behind its exhaustion)
        in_scan = lambda b_: any(cfg.dominates(tah, il["head"], b_) and b_ != il["head"] and
                                 not (il["none_edge"] and b_ in cfg.dominated_by_edge(tah, il["none_edge"])) for il in scan_loops)
        if nones and somes and len(nones) + len(somes) == len(ds) and all(cfg.innermost_loop_of(tah, dd[1]) is None and not in_scan(dd[1]) for dd in nones) and \
                all(in_scan(dd[1]) for dd in somes):
            exhausted |= cfg.dominated_by_edge(tah, sw["edges"]["None"])
    for bb, s in verdicts:
        if bb not in after_fail:
            # before / independent of the probe: must rest on a comparison of the two lengths
            lens = [g for g in guards.find_bool_guards(tah, lambda x: isinstance(x, tuple) and x[0] == "bin" and x[1] in ("Gt", "Lt", "Ge", "Le"))
                    if df.mentions(g["expr"], lambda y: df.is_call(y, "::len")) and
                    (bb in cfg.dominated_by_edge(tah, g["true_edge"]) or bb in cfg.dominated_by_edge(tah, g["false_edge"]))]
            ck.require(bool(lens), rule, "a NoMatchingLines verdict without a probe rests on the hunk being longer than the file",
                       "try_apply_hunk reports NoMatchingLines here without having probed any position and without comparing the lengths",
                       tah.where(s), ok_detail="guarded by a length comparison")
            continue
        only_rb = bb in rollback_only and bb not in normal_only
        ok = only_rb or bb in anchored or bb in exhausted or bb not in floating
        ck.require(ok, rule, "after the direct probe failed, NoMatchingLines is only reported when no other position is admissible or all were tried",
                   "try_apply_hunk gives up with NoMatchingLines after the direct probe although the hunk may float (Middle, normal mode) and the "
                   "scan over the other positions has not run out: a position that matches would be missed", tah.where(s),
                   ok_detail="rollback" if only_rb else "anchored hunk" if bb in anchored else "scan exhausted")


def run(ck):
    r1(ck)
    r2(ck)
    r5_no_match_verdicts(ck)
    r3(ck)
    from . import c01
    c01.r6(ck, rule="C02-R3")      # the context counts anchoring and trimming rest on are counted from the line markers
    r4(ck)
    r6_offset_bookkeeping(ck)
    # R7: a hunk is tried with the view of the level being tried (drawn from the level range, or the recorded one on the way back): a
    # test made on a view of another level (e.g. "longer than the file" on the untrimmed hunk, before the loop) gives up on a hunk
    # that matches once trimmed - C20-R1 recorded here
    from . import c20 as _c20
    from ..framework import RuleAlias
    _c20.r1(RuleAlias(ck, lambda r: "C02-R7" if r == "C20-R1" else None))


def r6_offset_bookkeeping(ck, rule="C02-R6"):
    """"As a first guess, it takes the line number mentioned for the hunk, plus or minus any offset used in applying the previous
    hunk": the offset a hunk is recorded with is its position minus the line its header states for the side that is matched, and the
    value handed to the next trial is that offset of the hunk just applied - not a sum over the earlier ones, not the other side's."""
    prog = ck.prog
    tah = ck.anchor("libpatch::patch::try_apply_hunk")
    am = ck.anchor("FilePatch::<'a, &'a [u8]>::apply_modify")
    if tah is None or am is None:
        return
    n = 0
    for bb, idx, s in tah.stmts():
        rv = s["rv"] if s["k"] == "assign" else None
        if rv is None or rv["k"] != "agg" or rv.get("variant") != "Applied" or "offset" not in (rv.get("fields") or []) or tah.blocks[bb]["cleanup"]:
            continue
        n += 1
        e = df.operand_expr(tah, rv["ops"][rv["fields"].index("offset")])
        line = df.operand_expr(tah, rv["ops"][rv["fields"].index("line")]) if "line" in rv["fields"] else None
        while isinstance(e, tuple) and e and e[0] == "field" and e[2] == 0 and isinstance(e[1], tuple) and e[1][0] == "bin":
            e = e[1]
        ok = isinstance(e, tuple) and e[0] == "bin" and e[1].startswith("Sub") and e[2] == line and df.is_call(e[3], "::remove_target_line") and \
            not df.mentions(e, lambda x: df.is_call(x, "::add_target_line"))
        ck.require(ok, rule, "recorded offset = position - line stated for the side being matched",
                   "a hunk is recorded with offset %s: the next hunk's first guess (stated line + this offset) starts from a wrong place" % df.show(e, 120),
                   tah.where(s), ok_detail=df.show(e, 100))
    ck.floor(rule, "Applied reports built in try_apply_hunk", n, 1)
    offs = [l for l, nm in am.names.items() if nm == "last_hunk_offset"]
    m = 0
    for l in offs:
        for dd in df.defs_of(am).all(l):
            if dd[0] != "stmt" or not cfg.innermost_loop_of(am, dd[1]):
                continue
            m += 1
            rv = dd[3]["rv"]
            e = df.rvalue_expr(am, rv)
            ok = rv["k"] == "use" and isinstance(e, tuple) and e[0] == "field" and e[2] == "offset" and isinstance(e[1], tuple) and e[1][0] == "downcast" and e[1][2] == "Applied"
            ck.require(ok, rule, "the offset handed to the next trial is the offset of the hunk just applied",
                       "last_hunk_offset is set to %s" % df.show(e, 120), am.where(dd[3]), ok_detail=df.show(e, 80))
    ck.floor(rule, "updates of the previous offset in apply_modify", m, 1)
