"""C04  undoing an application restores content, existence and permissions (DESIGN §4 C04)."""
from .. import cfg, dataflow as df, guards, patterns as pt
from ..common import A, calls_named
from ..facts import callee_of

LEVEL = "other"
EXPLANATION = (
    "Decides: (R1) every field of ModifiedFile that an application can change (other than `content`, which the inverse hunk "
    "operation restores) has a counterpart in FilePatchApplyReport that is recorded from the pre-application value on the "
    "normal path and copied back into the file on the rollback path; (R2) the aborting rollback API (the FilePatch method that "
    "panics when the inverse application fails) is only called from ModifiedFiles::rollback, which also undoes a rename "
    "(move_out + move_in on the is_rename path); (R3) every loop that rolls back through that API draws its PatchStatus in LIFO "
    "order (last+pop, or a reversed slice iterator); (R4) rollback replays what was recorded: recorded line, recorded fuzz level, "
    "opposite direction, and the direction named by the caller is the one recorded in the replayed report; (R5) 'never aborts' for "
    "stacks of hunks: the line handed on as frozen after a hunk is the end of its whole matched range, so that no later hunk changes a "
    "line the undo of this hunk will re-match (reported today as known finding G24). (R8) the state of a file (content, deleted, permissions) is only written inside the application that records the previous values, and in move_in / move_out. Not decided: exact content restoration."
)
LEVEL_NOTE = "Undecided: content equality after undo; abort on a hunk that changed a line of the previous hunk's trailing context."

MODIFIED_FILE = "libpatch::modified_file::ModifiedFile"
REPORT = "libpatch::patch::FilePatchApplyReport"
APPLY_MODE = "libpatch::patch::ApplyMode"


def field_writes(fn, adt):
    """[(field, bb, kind, stmt)] writes to fields of `adt` in fn: direct assignments and &mut borrows of the field."""
    out = []
    for bb, idx, s in fn.stmts():
        if s["k"] != "assign":
            continue
        lhs = s["lhs"]
        for p in lhs.get("p", []):
            if isinstance(p, dict) and p.get("adt") == adt and "name" in p:
                out.append((p["name"], bb, "assign", s))
                break
        rv = s["rv"]
        if rv["k"] in ("ref", "rawptr") and rv.get("mut"):
            for p in rv["pl"].get("p", []):
                if isinstance(p, dict) and p.get("adt") == adt and "name" in p:
                    out.append((p["name"], bb, "mutborrow", s))
                    break
    return out


def rollback_regions(fn):
    """(region blocks, payload exprs) for switches on the discriminant of an ApplyMode value: the Rollback side."""
    region = set()
    normal = set()
    sws = pt.discr_switches(fn, lambda e, rv: rv.get("adt") == APPLY_MODE)
    for sw in sws:
        if "Rollback" in sw["edges"]:
            region |= cfg.dominated_by_edge(fn, sw["edges"]["Rollback"])
        if "Normal" in sw["edges"]:
            normal |= cfg.dominated_by_edge(fn, sw["edges"]["Normal"])
    return region, normal, sws


def apply_closure(ck):
    prog, cg = ck.prog, ck.cg
    ai = ck.anchor("FilePatch::<'a, &'a [u8]>::apply_internal")
    if ai is None:
        return None, set()
    cl = {f for f in cg.closure([ai.id]) if prog.fns[f].crate == "libpatch" and "::analysis::" not in f}
    return ai, cl


def is_rollback_payload_field(x):
    """("field", (...("downcast", _, "Rollback")...), G)  ->  G"""
    if not (isinstance(x, tuple) and x and x[0] == "field" and isinstance(x[2], str)):
        return None
    if df.mentions(x[1], lambda y: isinstance(y, tuple) and y and y[0] == "downcast" and y[2] == "Rollback"):
        return x[2]
    return None


def r1_rollback_always_replays(ck, ai, rule="C04-R1"):
    """The restores of R1 live in apply_internal.  They only happen if every undo goes through it: each function that builds
    ApplyMode::Rollback hands it to apply_internal on every path that returns (no shortcut for 'nothing was applied' - a patch whose
    hunks were all rejected may still have changed the mode or the existence of the file)."""
    prog = ck.prog
    ctors, aborting = discover_rollback_api(ck)
    n = 0
    for fid in sorted(ctors):
        fn = prog.fns[fid]
        calls = {bb for bb, t in fn.calls() if (callee_of(t).get("rpath") or "") == ai.id and not fn.blocks[bb]["cleanup"]}
        n += 1
        if not ck.require(bool(calls), rule, "%s undoes through apply_internal" % fn.name, "%s builds ApplyMode::Rollback but never calls apply_internal" % fid, fn.where()):
            continue
        skipping = [b for b in cfg.exits(fn) if b in cfg.reachable(fn, 0, blocked=calls)]
        ck.require(not skipping, rule, "every undo through %s replays the patch in rollback mode" % fn.name,
                   "%s can return without calling apply_internal: on that path neither the mode nor the existence of the file is restored from "
                   "the report (only the lines would have been)" % fid, fn.where(fn.blocks[skipping[0]]["term"]) if skipping else fn.where(),
                   ok_detail="no return without the rollback-mode call of apply_internal")
    ck.floor(rule, "functions that start an undo", n, 1)


def r1_fields_restored(ck, rule="C04-R1"):
    prog = ck.prog
    ai, cl = apply_closure(ck)
    if ai is None:
        return
    r1_rollback_always_replays(ck, ai, rule)
    ck.count("functions in the apply_internal closure", len(cl))
    written = {}
    for fid in sorted(cl):
        fn = prog.fns[fid]
        for (field, bb, kind, s) in field_writes(fn, MODIFIED_FILE):
            written.setdefault(field, []).append((fn, bb, kind, s))
    ck.count("ModifiedFile fields written by an application", len(written))
    ck.floor(rule, "ModifiedFile fields written by an application", len(written), 3)
    report_fields = {f["name"] for v in prog.adts.get(REPORT, {}).get("variants", []) for f in v["fields"]}
    if not report_fields:
        ck.violate(rule, "anchor:" + REPORT, "reason=anchor FilePatchApplyReport not found")
        return
    for field in sorted(written):
        sites = written[field]
        where = sites[0][0].where(sites[0][3])
        if field == "content":
            ck.ok(rule, "ModifiedFile.content", "restored by the inverse hunk operation (reasoned exemption); %d write sites" % len(sites), where)
            continue
        # (b) restore on the rollback path, from a field G of the previous report
        restores = []
        for fid in sorted(cl):
            fn = prog.fns[fid]
            region, normal, sws = rollback_regions(fn)
            if not region:
                continue
            for (f2, bb, kind, s) in field_writes(fn, MODIFIED_FILE):
                if f2 != field or kind != "assign" or bb not in region:
                    continue
                e = df.rvalue_expr(fn, s["rv"])
                gs = [g for g in (is_rollback_payload_field(x) for x in df.walk(e)) if g in report_fields]
                for g in gs:
                    restores.append((fn, bb, s, g))
        if not restores:
            writers = sorted({"%s (%s)" % (fn.name or fn.id, fn.where(s)) for fn, bb, kind, s in sites})
            ck.violate(rule, "ModifiedFile.%s" % field,
                       "field `%s` is changed by an application (%s) but no rollback path copies it back from the apply report: "
                       "undo cannot restore it" % (field, ", ".join(writers)), where)
            continue
        # on every rollback-mode path the restore must happen, and nothing may overwrite the field afterwards
        for rfn in {r[0].id: r[0] for r in restores}.values():
            region, normal, sws = rollback_regions(rfn)
            normal_edges = {sw["edges"]["Normal"] for sw in sws if "Normal" in sw["edges"]}
            rbbs = {bb for f2, bb, s, g in restores if f2.id == rfn.id}
            missing = [b for b in cfg.exits(rfn) if b in cfg.reachable(rfn, 0, disabled=normal_edges, blocked=rbbs)]
            if 0 in rbbs:
                missing = []
            ck.require(not missing, rule, "ModifiedFile.%s restored on every rollback path of %s" % (field, rfn.name),
                       "in rollback mode %s can return without copying `%s` back from the apply report (some path skips the restore): "
                       "undo leaves whatever the inverse application computed" % (rfn.name, field), rfn.where(),
                       ok_detail="every rollback-mode path to the return crosses the restore")
            after = set()
            for rb in rbbs:
                after |= cfg.reachable_from_after(rfn, rb, disabled=normal_edges)
            late = [(f, b2, kind, s2) for (f, b2, kind, s2) in field_writes(rfn, MODIFIED_FILE) if f == field and b2 in after and b2 not in rbbs]
            ck.require(not late, rule, "ModifiedFile.%s not overwritten after its restore in %s" % (field, rfn.name),
                       "`%s` is written again after it was restored from the report: %s" % (field, [rfn.where(s2) for _, _, _, s2 in late]), rfn.where())
        ok_any = False
        msgs = []
        for fn, bb, s, g in restores:
            # (a) report.G recorded on the normal path from the pre-application value of `field`
            region, normal, sws = rollback_regions(fn)
            rec = []
            for bb2, idx2, s2 in fn.stmts():
                if s2["k"] != "assign":
                    continue
                pr = [p for p in s2["lhs"].get("p", []) if isinstance(p, dict) and p.get("adt") == REPORT and p.get("name") == g]
                if not pr:
                    continue
                rec.append((bb2, s2))
            if not rec:
                msgs.append("report field `%s` is read on rollback in %s but never recorded there" % (g, fn.name))
                continue
            for bb2, s2 in rec:
                ok, why = recorded_from_pre_value(ck, fn, s2, field, normal, cl)
                if ok:
                    ok_any = True
                    ck.ok(rule, "ModifiedFile.%s <-> FilePatchApplyReport.%s" % (field, g),
                          "recorded from the pre-application value on the normal path (%s), copied back on the rollback path (%s)" % (
                              fn.where(s2), fn.where(s)), fn.where(s))
                else:
                    msgs.append(why)
        if not ok_any:
            ck.violate(rule, "ModifiedFile.%s" % field,
                       "field `%s` is copied back on rollback but the recorded value is not its pre-application value: %s" % (field, "; ".join(msgs)), where)


def recorded_from_pre_value(ck, fn, rec_stmt, field, normal_region, closure):
    """The value stored into report.G on the normal path derives from modified_file.<field> read before any write."""
    prog, cg = ck.prog, ck.cg
    rv = rec_stmt["rv"]
    cands = []     # (expr, block where the value is produced)
    if rv["k"] == "use" and rv["op"].get("k") in ("copy", "move") and "p" not in rv["op"]["pl"]:
        l = rv["op"]["pl"]["l"]
        alld = []
        top = df.defs_of(fn).all(l)
        for dd0 in top:
            if not (dd0[1] in normal_region or len(top) == 1):
                continue
            # (through plain copies: the result slot of a helper that was inlined, a value saved before the application)
            if dd0[0] == "stmt" and dd0[3]["rv"]["k"] == "use" and dd0[3]["rv"]["op"].get("k") in ("copy", "move") and "p" not in dd0[3]["rv"]["op"]["pl"] and \
                    dd0[3]["rv"]["op"]["pl"]["l"] > fn.arg_count:
                sub = df.defs_through_copies(fn, dd0[3]["rv"]["op"]["pl"]["l"])
                # (the slot is also filled on the way back - the Rollback arm of a `match apply_mode` folded into a helper: not the
                # recording this rule is about)
                rb_region = rollback_regions(fn)[0]
                kept = [d_ for d_ in sub if d_[1] in normal_region or d_[1] not in rb_region]
                alld.extend((kept or sub) if sub else [dd0])
            else:
                alld.append(dd0)
        for dd in alld:
            if True:
                if dd[0] == "stmt":
                    cands.append((df.rvalue_expr(fn, dd[3]["rv"]), dd[1], dd[3]))
                elif dd[0] == "call":
                    cands.append((df.call_expr(fn, dd[2]), dd[1], dd[2]))
    else:
        cands.append((df.rvalue_expr(fn, rv), None, rec_stmt))
    if not cands:
        return False, "no definition of the recorded value on the normal path"
    # write sites of `field` inside fn: direct writes + calls to functions that write it
    writer_fns = set()
    for fid in closure:
        if any(f == field for f, _, _, _ in field_writes(prog.fns[fid], MODIFIED_FILE)):
            writer_fns.add(fid)
    write_bbs = set()
    for f, bb, kind, s in field_writes(fn, MODIFIED_FILE):
        if f == field:
            write_bbs.add(bb)
    for s in cg.out[fn.id]:
        if s.term is not None and (s.callee in writer_fns or writer_fns & cg.closure([s.callee])):
            if s.callee != fn.id:
                write_bbs.add(s.bb)
    for e, bb, st in cands:
        reads = [x for x in df.walk(e) if isinstance(x, tuple) and x and x[0] == "field" and x[2] == field]
        if not reads:
            return False, "recorded value %s does not derive from ModifiedFile.%s" % (df.show(e, 100), field)
        # where is the field actually read?  find the statement(s) reading it
        read_bbs = set()
        for rb, ri, rs in fn.stmts():
            if rs["k"] != "assign":
                continue
            r2 = rs["rv"]
            pls = []
            if r2["k"] in ("use", "cast") and r2["op"].get("k") in ("copy", "move"):
                pls.append(r2["op"]["pl"])
            if r2["k"] in ("ref", "rawptr"):
                pls.append(r2["pl"])
            for pl in pls:
                if any(isinstance(p, dict) and p.get("adt") == MODIFIED_FILE and p.get("name") == field for p in pl.get("p", [])):
                    read_bbs.add(rb)
        for rb in read_bbs:
            for wb in write_bbs:
                if wb == rb:
                    continue
                if rb in cfg.reachable_from_after(fn, wb) and (bb is None or cfg.dominates(fn, rb, bb) or rb == bb):
                    # this read may see a value already changed by the application
                    if rb in relevant_reads(fn, e, field, rb):
                        return False, "ModifiedFile.%s is read at bb%d after the application may already have changed it (write at bb%d)" % (field, rb, wb)
    return True, ""


def relevant_reads(fn, e, field, rb):
    # conservative: every read block counts
    return {rb}


def discover_rollback_api(ck):
    """(constructors, aborting): functions that build ApplyMode::Rollback, and those that reach one and can panic."""
    prog, cg = ck.prog, ck.cg
    ctors = set()
    for fn in prog.fns.values():
        if fn.crate != "libpatch":
            continue
        for bb, idx, s in fn.stmts():
            if s["k"] == "assign" and s["rv"]["k"] == "agg" and s["rv"].get("adt") == APPLY_MODE and s["rv"].get("variant") == "Rollback":
                ctors.add(fn.id)
    aborting = set()
    for fn in prog.fns.values():
        if fn.crate != "libpatch" or fn.kind == "Closure":
            continue
        reach = cg.closure([fn.id])
        if not (reach & ctors):
            continue
        # limited to direct users: the function itself or a callee at distance 1 builds the mode
        direct = fn.id in ctors or any(c in ctors for c in cg.callees(fn.id))
        if not direct:
            continue
        panics = [t for bb, t in fn.calls() if not fn.blocks[bb]["cleanup"] and
                  (callee_of(t).get("rpath") or "").startswith(("std::panicking::begin_panic", "core::panicking::panic_fmt",
                                                                 "core::panicking::panic", "std::rt::begin_panic"))]
        # assert!(hunks.len() == reports.len()) style precondition checks are not "the rollback failed" aborts:
        # keep only panics whose reachability depends on the result of the inverse application
        dep = []
        for t in panics:
            dep.append(t)
        if dep and fn.id not in ctors:
            aborting.add(fn.id)
        elif dep and fn.id in ctors:
            # a constructor with a panic: aborting only if the panic is dominated by a test of the result report
            for bb, t in fn.calls():
                if t in dep:
                    for gbb, gt in fn.terms():
                        if gt["k"] == "switch" and gt["dty"] == "bool":
                            e, neg = guards.switch_cond(fn, gbb)
                            if df.mentions(e, lambda x: df.is_call(x, "FilePatchApplyReport::failed", "FilePatchApplyReport::ok")):
                                f, tr = guards.bool_edges(fn, gbb)
                                if bb in cfg.dominated_by_edge(fn, (gbb, tr)) or bb in cfg.dominated_by_edge(fn, (gbb, f)):
                                    aborting.add(fn.id)
    return ctors, aborting


def r2_single_caller(ck, rule="C04-R2"):
    prog, cg = ck.prog, ck.cg
    ctors, aborting = discover_rollback_api(ck)
    ck.count("functions constructing ApplyMode::Rollback", len(ctors))
    if not ck.require(len(aborting) >= 1, rule, "aborting rollback API located",
                      "reason=anchor no FilePatch method that panics on a failed inverse application was found (constructors: %s)" % sorted(ctors)):
        return
    mfr = ck.anchor("ModifiedFiles::<'arena, 'config>::rollback")
    if mfr is None:
        return
    ncallers = 0
    for api in sorted(aborting):
        for s in cg.sites_to(api):
            if s.caller.id in aborting or s.caller.id in ctors:
                continue
            ncallers += 1
            ck.require(s.caller.id == mfr.id, rule, "%s -> aborting rollback" % s.caller.id,
                       "%s calls the aborting rollback API %s directly: a rename is not undone by it, and it aborts the process when the "
                       "file is not in the state the report was made for" % (s.caller.id, api), s.where(),
                       ok_detail="the one caller that also undoes a rename")
    ck.floor(rule, "callers of the aborting rollback API", ncallers, 1)
    # ModifiedFiles::rollback undoes the rename: under is_rename = true every path crosses move_out and move_in
    g = [x for x in guards.find_bool_guards(mfr, lambda e: df.is_call(e, "::is_rename"))]
    if not ck.require(len(g) >= 1, rule, "ModifiedFiles::rollback tests is_rename", "no branch on is_rename() in ModifiedFiles::rollback", mfr.where()):
        return
    mo = {bb for bb, t, c in calls_named(mfr, "ModifiedFile::<'arena>::move_out")}
    mi = {bb for bb, t, c in calls_named(mfr, "ModifiedFile::<'arena>::move_in")}
    for gg in g:
        tgt = gg["true_edge"][1]
        for name, blocks in (("move_out", mo), ("move_in", mi)):
            r = cfg.reachable(mfr, [tgt], blocked=blocks)
            ok = bool(blocks) and not [b for b in cfg.exits(mfr) if b in r]
            ck.require(ok, rule, "rename undone through %s" % name,
                       "on the is_rename path ModifiedFiles::rollback can return without calling %s" % name, mfr.where())
    # the rollback API call itself precedes the un-rename and is unconditional
    for api in sorted(aborting):
        bbs = [s.bb for s in cg.sites_to(api) if s.caller.id == mfr.id]
        for b in bbs:
            ck.require(all(cfg.dominates(mfr, b, gg["bb"]) for gg in g), rule, "content rolled back before the rename is undone",
                       "the rollback call does not dominate the is_rename test", mfr.where())


ORDER_PRESERVING = ("Enumerate", "Map", "Filter", "FilterMap", "Inspect", "Copied", "Cloned", "Take", "Skip", "TakeWhile", "SkipWhile", "Peekable",
                    "MapWhile", "Fuse")
LIFO_BASES = ("core::slice::iter::Iter<", "core::slice::iter::IterMut<", "alloc::vec::drain::Drain<", "alloc::vec::into_iter::IntoIter<")


def lifo_iterator_type(ity):
    """True when the iterator type yields the elements of a slice / vector from the back: order-preserving adaptors around exactly one
    Rev (Rev<Enumerate<slice::Iter>> numbers the elements first and walks them backwards; Enumerate<Rev<..>> walks backwards as well)."""
    t = ity
    revs = 0
    while True:
        t = t.strip()
        while t.startswith("&mut ") or t.startswith("&"):
            t = t[5:] if t.startswith("&mut ") else t[1:]
        if any(t.startswith(b) for b in LIFO_BASES):
            return revs % 2 == 1
        lt = t.find("<")
        if lt < 0:
            return False
        name = t[:lt].split("::")[-1]
        if name == "Rev":
            revs += 1
        elif name not in ORDER_PRESERVING:
            return False
        t = t[lt + 1:]


def r3_lifo(ck, rule="C04-R3"):
    prog, cg = ck.prog, ck.cg
    ctors, aborting = discover_rollback_api(ck)
    reach_abort = set()
    for a in aborting:
        reach_abort |= cg.reaches(a)
    n = 0
    for fid in sorted(reach_abort):
        fn = prog.fns[fid]
        if fn.crate != "rapidquilt":
            continue
        loops = cfg.loops(fn)
        if not loops:
            continue
        sites = [s for s in cg.out[fid] if s.term is not None and s.callee in reach_abort]
        for s in sites:
            inl = [(h, body) for h, body in loops.items() if s.bb in body]
            if not inl:
                continue
            h, body = min(inl, key=lambda x: len(x[1]))
            n += 1
            inst = "loop at %s calling %s" % (fn.id, prog.fns[s.callee].name or s.callee)
            # accepted shapes
            ok = False
            detail = ""
            for il in pt.iterator_loops(fn):
                if il["head"] == h:
                    ity = il["iter_ty"]
                    if lifo_iterator_type(ity) and "PatchStatus" in ity and il["callee"]["path"].endswith("Iterator::next"):
                        ok = True
                        detail = "reversed slice iterator (%s)" % ity
                    else:
                        detail = "iterator type %s" % ity
            for wl in pt.while_let_pop_loops(fn):
                if wl["head"] == h:
                    # the rolled-back element is the one obtained from last(), and pop follows on the loop path
                    a = df.operand_expr(fn, s.term["args"][1]) if len(s.term["args"]) > 1 else None
                    from_last = a is not None and df.mentions_deep(fn, a, lambda x: df.is_call(x, "::last"))
                    from_pop = a is not None and df.mentions_deep(fn, a, lambda x: df.is_call(x, "::pop", "::pop_if"))
                    pop_after = any(pb in cfg.reachable_from_after(fn, s.bb) for pb in wl["pop_bbs"])
                    if from_last and pop_after:
                        ok = True
                        detail = "while let Some(x) = v.last() { rollback(x); v.pop() }"
                    elif from_pop:
                        ok = True
                        detail = "the element taken with v.pop() is the one rolled back"
                    else:
                        detail = "last/pop loop, but the rolled-back element is %s" % (df.show(a) if a else "?")
            ck.require(ok, rule, inst, "rollback loop does not undo in LIFO order: %s" % detail, s.where(), ok_detail=detail)
    ck.floor(rule, "rollback loops", n, 3)


def _popped_something(fn, pb):
    """Where control goes after the pop at pb when an element was really taken: the `Some` side when the result is matched at once
    (`while let Some(x) = v.pop_if(..)`: on the None side nothing left the stack), every successor otherwise."""
    t = fn.blocks[pb]["term"]
    succ = [sx for sx in fn.succs(pb) if not fn.blocks[sx]["cleanup"]]
    nb = t.get("target")
    if nb is None or "p" in t["dest"]:
        return succ
    blk = fn.blocks[nb]
    t2 = blk["term"]
    if t2["k"] != "switch":
        return succ
    d = t2["discr"]
    dl = d.get("pl", {}).get("l") if d.get("k") in ("copy", "move") else None
    is_discr = any(s_["k"] == "assign" and s_["lhs"]["l"] == dl and "p" not in s_["lhs"] and s_["rv"]["k"] == "discr" and
                   s_["rv"]["pl"]["l"] == t["dest"]["l"] and not s_["rv"]["pl"].get("p") for s_ in blk["stmts"])
    if not is_discr:
        return succ
    some = [b for v, b in t2["targets"] if int(v) == 1]
    if not some and all(int(v) == 0 for v, b in t2["targets"]):
        some = [t2["otherwise"]]
    return some or succ


def r3b_pop_after_rollback(ck, rule="C04-R3"):
    """An applied file patch is only forgotten (popped from the stack) after it was rolled back in the same iteration."""
    prog, cg = ck.prog, ck.cg
    ctors, aborting = discover_rollback_api(ck)
    reach_abort = set()
    for a in aborting:
        reach_abort |= cg.reaches(a)
    n = 0
    for fid in sorted(reach_abort):
        fn = prog.fns[fid]
        if fn.crate != "rapidquilt":
            continue
        for wl in pt.while_let_pop_loops(fn):
            # only stacks of PatchStatus
            pops = [b for b in wl["pop_bbs"] if "PatchStatus" in (fn.blocks[b]["term"]["argtys"][0] if fn.blocks[b]["term"]["argtys"] else "")]
            if not pops:
                continue
            rb = {s.bb for s in cg.out[fid] if s.term is not None and s.callee in reach_abort and s.bb in wl["body"]}
            back = {(t, wl["head"]) for t in fn.preds()[wl["head"]] if t in wl["body"]}
            for pb in pops:
                n += 1
                r = cfg.reachable(fn, [wl["head"]], disabled=back, blocked=rb)
                if rb and pb in r:
                    # pop first, then roll back what was popped: fine when no path from the pop to the next iteration or to a return
                    # avoids the rollback of that very element
                    rb_pop = {s.bb for s in cg.out[fid] if s.term is not None and s.callee in reach_abort and s.bb in wl["body"] and
                              len(s.term["args"]) > 1 and df.mentions_deep(fn, df.operand_expr(fn, s.term["args"][1]), lambda x: df.is_call(x, "::pop", "::pop_if"))}
                    after = cfg.reachable(fn, _popped_something(fn, pb), blocked=rb_pop)
                    if rb_pop and wl["head"] not in after and not [b for b in cfg.exits(fn) if b in after]:
                        ck.ok(rule, "pop only after rollback in %s" % fn.id, "the popped element is rolled back on every path that goes on",
                              fn.where(fn.blocks[pb]["term"]))
                        continue
                ck.require(bool(rb) and pb not in r, rule, "pop only after rollback in %s" % fn.id,
                           "a file patch can be popped from the applied stack without having been rolled back in that iteration: its changes "
                           "stay in the in-memory files and are saved", fn.where(fn.blocks[pb]["term"]),
                           ok_detail="every path from the loop head to this pop crosses the rollback call")
        # the same stack emptied through drain(..): every drained element must be rolled back in its iteration
        for il in pt.iterator_loops(fn):
            if not ("Drain<" in il["iter_ty"] and "PatchStatus" in il["iter_ty"]):
                continue
            n += 1
            rb = {s.bb for s in cg.out[fid] if s.term is not None and s.callee in reach_abort and s.bb in il["body"]}
            r = cfg.reachable(fn, [il["some_edge"][1]], blocked=rb)
            ck.require(bool(rb) and il["head"] not in r, rule, "drained only with rollback in %s" % fn.id,
                       "a file patch drained from the applied stack can reach the next iteration without having been rolled back",
                       fn.where(il["next_term"]), ok_detail="every iteration of the drain loop crosses the rollback call")
    ck.floor(rule, "pops of applied file patches", n, 3)


def r4_replay(ck, rule="C04-R4"):
    prog, cg = ck.prog, ck.cg
    tah = ck.anchor("libpatch::patch::try_apply_hunk")
    am = ck.anchor("FilePatch::<'a, &'a [u8]>::apply_modify")
    ctors, aborting = discover_rollback_api(ck)
    if tah is None or am is None:
        return
    # (a) try_apply_hunk: on the Rollback edge target_line := recorded rollback_line
    region, normal, sws = rollback_regions(tah)
    ck.require(bool(region), rule, "try_apply_hunk distinguishes rollback mode", "no branch on ApplyMode in try_apply_hunk", tah.where())
    tl = [l for l, nm in tah.names.items() if nm == "target_line"]
    found = False
    for l in tl:
        for dd in df.defs_through_copies(tah, l):
            if dd[1] in region and dd[0] == "stmt":
                e = df.rvalue_expr(tah, dd[3]["rv"])
                good = isinstance(e, tuple) and e[0] == "field" and e[2] == "rollback_line" and \
                    df.mentions(e, lambda x: isinstance(x, tuple) and x[0] == "downcast" and x[2] == "Applied") and \
                    df.mentions(e, lambda x: df.is_call(x, "FilePatchApplyReport::hunk_reports")) and \
                    df.mentions(e, lambda x: isinstance(x, tuple) and x[0] == "downcast" and x[2] == "Rollback")
                ck.require(good, rule, "rollback target line = recorded rollback_line",
                           "in rollback mode the hunk is placed at %s" % df.show(e), tah.where(dd[3]), ok_detail=df.show(e, 160))
                found = True
    ck.require(found, rule, "rollback target line assigned in try_apply_hunk", "no assignment of target_line on the Rollback edge", tah.where())
    # the position scan is never entered in rollback mode: second `matches` call is in the Normal-only part
    from . import c02
    from .. import pathconst
    mcalls = calls_named(tah, "libpatch::patch::try_apply_hunk::matches")
    scans = c02.scan_sites(ck, tah)
    ck.floor(rule, "direct probe and position scan in try_apply_hunk", len([1 for bb, t, c in mcalls if not cfg.innermost_loop_of(tah, bb)]) + len(scans), 2)
    inloop = [(sc["bb"], sc["term"]) for sc in scans]
    for bb, t in inloop:
        # apply_mode is a path constant of the call; the test may go through a flag computed from it
        r = pathconst.reach_under(tah, lambda e: None, lambda e, adt: "Rollback" if (adt or "").endswith("ApplyMode") else None)
        ck.require(bool(sws) and bb not in r, rule, "rollback never searches for another position",
                   "the position scan is reachable in rollback mode", tah.where(t))
    # (b) apply_modify: fuzz levels in rollback mode are exactly the recorded level
    region, normal, sws = rollback_regions(am)
    found = False
    il = c02.level_loop(ck, am, rule)
    if il is not None:
        for lo, hi, t in c02.level_range_by_mode(am, il)["Rollback"]:
            good = lo == hi and isinstance(lo, tuple) and lo[0] == "field" and lo[2] == "fuzz" and \
                df.mentions(lo, lambda x: isinstance(x, tuple) and x[0] == "downcast" and x[2] == "Applied")
            ck.require(good, rule, "rollback fuzz level = recorded per-hunk level",
                       "in rollback mode the fuzz levels tried are %s ..= %s" % (df.show(lo, 80), df.show(hi, 80)), am.where(t),
                       ok_detail="%s ..= %s" % (df.show(lo, 80), df.show(hi, 80)))
            found = True
    ck.require(found, rule, "rollback fuzz levels assigned in apply_modify", "no assignment of the fuzz range on the Rollback edge", am.where())
    # (c) the constructors pass the opposite direction and ApplyMode::Rollback(report param)
    for fid in sorted(ctors):
        fn = prog.fns[fid]
        for bb, t, c in calls_named(fn, "FilePatch::<'a, &'a [u8]>::apply_internal"):
            d = df.operand_expr(fn, t["args"][2])
            good = df.is_call(d, "PatchDirection::opposite") and isinstance(d[2][0], tuple) and d[2][0][0] == "param"
            ck.require(good, rule, "rollback applies the opposite direction (%s)" % fn.name,
                       "rollback passes direction %s" % df.show(d), fn.where(t), ok_detail=df.show(d))
            m = df.operand_expr(fn, t["args"][4])
            good = isinstance(m, tuple) and m[0] == "agg" and m[2] == "Rollback" and isinstance(m[3][0], tuple) and m[3][0][0] == "param"
            ck.require(good, rule, "rollback replays the caller's report (%s)" % fn.name, "mode passed is %s" % df.show(m), fn.where(t))


def r4_direction(ck, rule="C04-R4"):
    """(d) whoever undoes an application for real (the aborting rollback API) names the direction the application was made with:
    the direction argument is the `direction()` recorded in the very report that is replayed, never a constant."""
    prog, cg = ck.prog, ck.cg
    ctors, aborting = discover_rollback_api(ck)
    n = 0
    for a in sorted(aborting):
        for s in cg.sites_to(a):
            if s.term is None or s.caller.id in ctors or s.caller.id in aborting:
                continue
            fn, t = s.caller, s.term
            if len(t["args"]) < 4:
                continue
            n += 1
            d = df.operand_expr(fn, t["args"][2])
            rep = df.operand_expr(fn, t["args"][3])
            good = df.is_call(d, "FilePatchApplyReport::direction") and len(d[2]) == 1 and d[2][0] == rep
            ck.require(good, rule, "rollback in %s is given the recorded direction" % fn.name,
                       "the direction passed to %s is %s, not the direction recorded in the report being replayed (%s): undoing a patch that "
                       "was applied reversed (series entry with -R) applies it once more instead" % (a.split("::")[-1], df.show(d, 80), df.show(rep, 80)),
                       fn.where(t), ok_detail="direction = %s" % df.show(d, 100))
    ck.floor(rule, "real (aborting) rollback call sites", n, 1)


def r4_rollback_line(ck, rule="C04-R4"):
    """(e) the position an undo starts from (`rollback_line`) is where the hunk's lines were actually put: the value stored through the
    `ref mut rollback_line` binding of the Applied report equals the start of the range that very splice replaces."""
    am = ck.anchor("FilePatch::<'a, &'a [u8]>::apply_modify")
    if am is None:
        return
    spl = [(bb, t) for bb, t in am.calls() if (callee_of(t).get("rpath") or "").endswith("Vec::<T, A>::splice") and not am.blocks[bb]["cleanup"]]
    stores = []
    for bb, idx, s in am.stmts():
        if s["k"] != "assign" or s["lhs"].get("p") != ["deref"]:
            continue
        full = [dd for dd in df.defs_of(am).all(s["lhs"]["l"]) if dd[0] in ("stmt", "call")]
        one = full[0] if len(full) == 1 else None
        if one and one[0] == "stmt" and one[3]["rv"]["k"] == "ref" and one[3]["rv"].get("mut"):
            names = [p_.get("name") for p_ in one[3]["rv"]["pl"].get("p", []) if isinstance(p_, dict)]
            if "rollback_line" in names:
                stores.append((bb, s))
                continue
        # the `&mut rollback_line` binding may travel through a tuple of bindings before it is written through
        # (which place the reference points to: its one whole-local definition; the stores through it do not re-point it)
        whole = [dd for dd in df.defs_of(am).all(s["lhs"]["l"]) if dd[0] == "stmt"]
        others = [dd for dd in df.defs_of(am).all(s["lhs"]["l"]) if dd[0] != "stmt" and not (dd[0] == "pstmt" and dd[3]["lhs"].get("p", [None])[0] == "deref")]
        e = df.rvalue_expr(am, whole[0][3]["rv"]) if len(whole) == 1 and not others else None
        if isinstance(e, tuple) and e[0] == "field" and e[2] == "rollback_line" and isinstance(e[1], tuple) and e[1][0] == "downcast" and e[1][2] == "Applied" \
                and am.local_ty(s["lhs"]["l"]).startswith("&mut "):
            stores.append((bb, s))
    if not ck.require(len(spl) == 1 and len(stores) == 1, rule, "apply_modify records one rollback line per splice",
                      "%d splices on the content, %d stores into Applied.rollback_line" % (len(spl), len(stores)), am.where()):
        return
    (sbb, st), (rbb, rs) = spl[0], stores[0]
    rng = df.operand_expr(am, st["args"][1])
    start = rng[3][0] if isinstance(rng, tuple) and rng[0] == "agg" and len(rng) > 3 and rng[3] else None
    while isinstance(start, tuple) and start and start[0] == "cast":
        start = start[1]
    val = df.rvalue_expr(am, rs["rv"])
    while isinstance(val, tuple) and val and val[0] == "cast":
        val = val[1]
    same_iter = cfg.innermost_loop_of(am, sbb) == cfg.innermost_loop_of(am, rbb)
    ck.require(start is not None and val == start and same_iter, rule, "rollback_line = start of the range the hunk was spliced into",
               "Applied.rollback_line is set to %s while the lines go to %s" % (df.show(val, 100), df.show(start, 100) if start else "?"), am.where(rs),
               ok_detail=df.show(val, 120))


def r5_context_stays_intact(ck, rule="C04-R5"):
    """Undoing a hunk re-matches its whole new side, context included, in the fully patched file.  That can only succeed for every
    stack of hunks if no later hunk of the file patch may change a line inside this hunk's matched range: the line handed on as
    'frozen' has to be the end of the matched range, not the end of its changed part."""
    from .. import seqmodel
    am = ck.anchor("FilePatch::<'a, &'a [u8]>::apply_modify")
    if am is None:
        return
    fl_ = [l for l, nm in am.names.items() if nm == "last_frozen_line"]
    if not ck.require(len(fl_) == 1, rule, "frozen line variable in apply_modify", "found %d" % len(fl_), am.where()):
        return
    ins_ = [dd for dd in df.defs_of(am).all(fl_[0]) if dd[0] == "stmt" and cfg.innermost_loop_of(am, dd[1])]
    if not ck.require(len(ins_) == 1, rule, "one update of the frozen line per applied hunk", "%d updates" % len(ins_), am.where()):
        return
    e = df.rvalue_expr(am, ins_[0][3]["rv"])
    hv = [x for x in df.walk(e) if df.is_call(x, "Hunk::<'a, Line>::view")]
    good = False
    if hv:
        W = hv[0]
        m = seqmodel.Model([("line", lambda x: isinstance(x, tuple) and x[0] == "field" and x[2] == "line" and isinstance(x[1], tuple) and x[1][0] == "downcast" and x[1][2] == "Applied"),
                            ("sfx", lambda x: df.is_call(x, "::suffix_context") and x[2][0] == W)],
                           seqsyms=[("r", lambda x: df.is_call(x, "::remove_content") and x[2][0] == W)])
        try:
            good = all(m.val(e, env) >= env["line"] + env["r"] for env in seqmodel.valuations(["line"], ["r", "sfx"], 3) if env["sfx"] <= env["r"])
        except seqmodel.Unsupported:
            good = False
    ck.require(good, rule, "later hunks may not change lines inside an applied hunk's matched range",
               "the frozen line handed to the next hunk is %s: it ends before the trailing context of the hunk just applied, so a later hunk may change "
               "a line there; undoing the earlier hunk then no longer finds its new side and the rollback aborts ('This is a bug')" % df.show(e, 160),
               am.where(ins_[0][3]), ok_detail=df.show(e, 160))


def run(ck):
    r1_fields_restored(ck)
    r2_single_caller(ck)
    r3_lifo(ck)
    r3b_pop_after_rollback(ck)
    r4_replay(ck)
    r4_direction(ck)
    r4_rollback_line(ck)
    r5_context_stays_intact(ck)
    r7_every_hunk_is_visited(ck)
    r8_who_writes_the_file_state(ck)


def r8_who_writes_the_file_state(ck, rule="C04-R8"):
    """What an undo puts back is what the application recorded before it changed it (R1) - so the state of a file (content, deleted,
    permissions) may only change where that record is kept: inside FilePatch::apply_internal and what it calls, and in ModifiedFile's
    own move_in / move_out (the rename, undone by ModifiedFiles::rollback).  A store from anywhere else (the driver flipping `deleted`
    before calling apply, a "fix-up" after it) is invisible to the undo: rolling the patch back does not restore it."""
    prog, cg = ck.prog, ck.cg
    MF = "libpatch::modified_file::ModifiedFile"
    ai = ck.anchor("FilePatch::<'a, &'a [u8]>::apply_internal")
    if ai is None:
        return
    family = cg.closure([ai.id])
    STATE = ("content", "deleted", "permissions")
    n = 0
    for fn in sorted(prog.fns.values(), key=lambda f: f.id):
        wrote = {}
        for bb, idx, st in fn.stmts():
            if st["k"] != "assign" or fn.blocks[bb]["cleanup"]:
                continue
            pls = [st["lhs"]] if "p" in st["lhs"] else []
            if st["rv"]["k"] in ("ref", "rawptr") and st["rv"].get("mut"):
                pls.append(st["rv"]["pl"])
            for pl in pls:
                for pr in pl.get("p", []):
                    if isinstance(pr, dict) and pr.get("adt") == MF and pr.get("name") in STATE:
                        wrote.setdefault(pr["name"], st)
        if not wrote:
            continue
        n += 1
        own = fn.id.startswith(MF + "::<") or fn.id.startswith(MF + "::") or ("<" + MF) in fn.id.split(" as ")[0]
        if fn.id in family:
            ck.ok(rule, "%s writes %s" % (fn.id.split("::")[-1], sorted(wrote)), "inside the application that records what it changes", fn.where())
        elif own and fn.id.split("::")[-1] in ("move_in", "move_out"):
            ck.ok(rule, "%s writes %s" % (fn.id.split("::")[-1], sorted(wrote)), "the rename primitive, undone by ModifiedFiles::rollback", fn.where())
        elif own:
            callers = [c for c in cg.callers(fn.id) if c not in family and not (c.startswith(MF) or ("<" + MF) in c.split(" as ")[0])]
            ck.require(not callers, rule, "%s writes %s" % (fn.id.split("::")[-1], sorted(wrote)),
                       "%s changes the state of a file (%s) and is called from %s, outside the application that records what it changes: an undo "
                       "does not put it back" % (fn.id, sorted(wrote), callers), fn.where(), ok_detail="only called from the application")
        else:
            st = list(wrote.values())[0]
            ck.violate(rule, "%s writes %s" % (fn.id.split("::")[-1], sorted(wrote)),
                       "%s stores into ModifiedFile.%s outside FilePatch::apply_internal (which records the previous value for the undo) and "
                       "outside move_in / move_out: rolling the patch back does not restore it" % (fn.id, " / ".join(sorted(wrote))), fn.where(st))
    ck.floor(rule, "functions writing the state of a file", n, 5)


def r7_every_hunk_is_visited(ck, rule="C04-R7"):
    """Applying and undoing a file patch both walk all of its hunks: the loops of apply_modify that draw from the hunks (the trial loop
    and the splice loop) are left only when the hunks run out.  An early exit leaves the later hunks without a report - when undoing,
    hunks that were applied stay applied."""
    prog = ck.prog
    am = ck.anchor("FilePatch::<'a, &'a [u8]>::apply_modify")
    if am is None:
        return
    n = 0
    for il in pt.iterator_loops(am):
        if "Hunk<" not in il["iter_ty"]:
            continue
        n += 1
        extra = [e for e in il["exit_edges"] if e != il["none_edge"] and not am.blocks[e[1]]["cleanup"]]
        # a `?` / return of an error is not a way of going on without the later hunks
        extra = [e for e in extra if not ((am.blocks[e[0]]["term"]["k"] == "call") and (callee_of(am.blocks[e[0]]["term"]).get("path") or "").endswith("from_residual"))]
        ck.require(not extra, rule, "a loop over the hunks of apply_modify ends only when the hunks run out",
                   "the loop over %s can be left early through %s: the hunks behind that point are neither tried nor undone" % (
                       il["iter_ty"].split("::")[-1][:50], extra), am.where(il["next_term"]), ok_detail="only exit: iterator exhausted")
    ck.floor(rule, "loops over the hunks in apply_modify", n, 2)
