"""C07  file names related through any patch are handled by the same worker (DESIGN §4 C07, §8.8)."""
from .. import cfg, dataflow as df, guards, panics, patterns as pt
from ..facts import callee_of

LEVEL = "other"
EXPLANATION = (
    "Decides that the distributor is a disjoint-set forest of the shape the classical correctness argument needs, and that the thread "
    "index is a function of the tree root: (R1) the parent vector and the name->node map are written only by methods of the "
    "distributor; (R2) every mutation of the parent vector is one of three recognised stores - a registration (push of the value that "
    "was just inserted into the map as the vector's current length, on the branch where the two are equal: a fresh node that is its own "
    "parent), a link (parent[r1] = r2 where r1 and r2 are both results of the root function, with no mutation in between), or the "
    "flattening store of build (parent[i] = parent[parent[i]] in an ascending pass over all nodes); (R3) the root function returns r only "
    "on the equal-edge of a comparison parent[r] == r of that very value; (R4) engine D proves value <= index at every link store, so a "
    "parent never has a higher index than its child and one ascending pass resolves every node to its root (alternatively build may "
    "call the root function); (R5) build maps every node to parent[node] % thread_count after the pass (or root(node) % thread_count) and "
    "returns that map; both names of a call of add reach the registration code. From R2+R3 the parent vector is at all times a forest "
    "whose trees are exactly the connected components of the relation graph (each link joins two roots; nothing else changes a parent), "
    "hence related names have the same root and, by R4+R5, the same thread index. Not decided: that the dispatch uses this map for "
    "every load and save (C06-R8), hashing/equality of the names themselves (std HashMap)."
)
LEVEL_NOTE = "Shape of a union-find is decided, its functional correctness follows by the classical argument recorded in DESIGN §8.8; other correct algorithms (relabel-all, union by size with path compression) would be reported as an unrecognised store."
ASSUMPTIONS = ["std HashMap::entry/or_insert semantics", "Vec::len / push semantics"]

ADT = "rapidquilt::apply::parallel::FilenameDistributor"


def fields_by_type(prog):
    a = prog.adts.get(ADT)
    if not a:
        return None
    fs = a["variants"][0]["fields"]
    parent = [f["name"] for f in fs if f["ty"].startswith("alloc::vec::Vec<usize")]
    mp = [f["name"] for f in fs if "HashMap<" in f["ty"] and ", usize," in f["ty"]]
    tc = [f["name"] for f in fs if f["ty"] == "usize"]
    if len(parent) == 1 and len(mp) == 1 and len(tc) == 1:
        return parent[0], mp[0], tc[0]
    return None


def is_field_of_self(e, field, fn=None):
    if isinstance(e, tuple) and e[0] == "field" and e[2] == field and isinstance(e[1], tuple) and e[1][0] == "param" and e[1][1] == 1:
        return True
    # `let FilenameDistributor { parent, .. } = self;` in a consuming method: the local is the field, moved out once
    if fn is not None and isinstance(e, tuple) and e and e[0] == "local":
        ds = df.defs_of(fn).all(e[1])
        if len(ds) == 1 and ds[0][0] == "stmt" and ds[0][3]["rv"]["k"] == "use" and ds[0][3]["rv"]["op"].get("k") == "move":
            pl = ds[0][3]["rv"]["op"]["pl"]
            ps = pl.get("p", [])
            return pl["l"] == 1 and fn.local_ty(1).startswith(ADT) and len(ps) == 1 and isinstance(ps[0], dict) and ps[0].get("name") == field
    return False


def def_call(fn, op):
    """(bb, term) of the call whose result operand `op` carries through plain copies/moves, else None."""
    seen = set()
    while op.get("k") in ("copy", "move") and all(x == "deref" for x in op["pl"].get("p", [])) and op["pl"]["l"] not in seen:
        l = op["pl"]["l"]
        seen.add(l)
        one = df.defs_of(fn).single(l)
        if one is None:
            return None
        if one[0] == "call":
            return one[1], one[2]
        rv = one[3]["rv"]
        if rv["k"] == "ref" and all(x == "deref" for x in rv["pl"].get("p", [])):
            op = {"k": "copy", "pl": rv["pl"]}
            continue
        if rv["k"] != "use":
            return None
        op = rv["op"]
    return None


def mut_sites(fn, field):
    """Calls in fn that receive `&mut self.<field>` (directly or through a re-borrow)."""
    out = []
    for bb, t in fn.calls():
        if fn.blocks[bb]["cleanup"]:
            continue
        for i, (a, ty) in enumerate(zip(t["args"], t["argtys"])):
            if ty.startswith("&mut ") and a.get("k") in ("copy", "move"):
                e = df.operand_expr(fn, a)
                if is_field_of_self(e, field, fn):
                    out.append((bb, t, i))
    return out


def writes_field_anywhere(prog, field):
    """Function ids that take &mut of, or assign to, a place through field `field` of the ADT."""
    out = set()
    for fn in prog.fns.values():
        for bb, idx, s in fn.stmts():
            if s["k"] != "assign":
                continue
            pls = []
            if s["rv"]["k"] in ("ref", "rawptr") and s["rv"].get("mut"):
                pls.append(s["rv"]["pl"])
            if "p" in s["lhs"]:
                pls.append(s["lhs"])
            for pl in pls:
                for p in pl.get("p", []):
                    if isinstance(p, dict) and p.get("adt") == ADT and p.get("name") == field:
                        out.add(fn.id)
    return out


def root_function_ok(ck, fn, parent, rule):
    """Every value returned is one for which parent[value] == value was just established."""
    n = 0
    for dd in df.defs_of(fn).all(0):
        if fn.blocks[dd[1]]["cleanup"]:
            continue
        n += 1
        where = fn.where(dd[3]) if dd[0] == "stmt" else fn.where(dd[2])
        if dd[0] != "stmt" or dd[3]["rv"]["k"] != "use" or dd[3]["rv"]["op"].get("k") not in ("copy", "move") or "p" in dd[3]["rv"]["op"]["pl"]:
            ck.violate(rule, "root function returns a checked node", "%s returns something other than a node variable" % fn.id, where)
            continue
        rl = dd[3]["rv"]["op"]["pl"]["l"]
        good = False
        for g in guards.find_bool_guards(fn, lambda e: isinstance(e, tuple) and e[0] == "bin" and e[1] in ("Ne", "Eq")):
            a, b = g["expr"][2], g["expr"][3]
            for x, y in ((a, b), (b, a)):
                is_elem = df.is_call(x, "Index<I>>::index") and len(x[2]) == 2 and is_field_of_self(x[2][0], parent) and x[2][1] == y
                is_node = isinstance(y, tuple) and y[0] in ("local", "param") and y[1] == rl
                if not (is_elem and is_node):
                    continue
                edge = g["false_edge"] if g["expr"][1] == "Ne" else g["true_edge"]
                reg = cfg.dominated_by_edge(fn, edge)
                if dd[1] not in reg:
                    continue
                # the node variable is not re-assigned between the test and the return
                redef = [d2 for d2 in df.defs_of(fn).all(rl) if d2[1] in reg and d2[1] in cfg.reachable(fn, [edge[1]]) and
                         dd[1] in cfg.reachable(fn, [d2[1]]) and d2[1] != dd[1]]
                if not redef and not mut_sites(fn, parent):
                    good = True
        ck.require(good, rule, "root function returns a checked node",
                   "%s can return a node r without having just seen parent[r] == r (not a tree root)" % fn.id, where,
                   ok_detail="returned on the equal edge of parent[r] == r, r unchanged since")
    return n


def run(ck):
    prog, cg = ck.prog, ck.cg
    fl = fields_by_type(prog)
    if not ck.require(fl is not None, "C07-R1", "distributor has one parent vector, one name map and one thread count",
                      "struct FilenameDistributor no longer has exactly one Vec<usize>, one HashMap<_, usize> and one usize field"):
        return
    parent, mp, tc = fl
    methods = {fid: fn for fid, fn in prog.fns.items() if fid.startswith(ADT + "::<")}
    add = ck.anchor("FilenameDistributor::<T>::add")
    build = ck.anchor("FilenameDistributor::<T>::build")
    if add is None or build is None:
        return
    # ---- R1 who writes --------------------------------------------------------------------------------------------------
    for field in (parent, mp):
        ws = writes_field_anywhere(prog, field)
        outside = sorted(w for w in ws if w not in methods)
        ck.require(not outside and ws, "C07-R1", "only the distributor's methods write `%s`" % field,
                   "written by %s" % (outside or "nobody (anchor lost)"), ok_detail="written by %s" % sorted(x.split("::")[-1] for x in ws))
    # ---- R3 root functions ---------------------------------------------------------------------------------------------------
    roots = {}
    for fid, fn in methods.items():
        if fn.arg_count == 2 and fn.local_ty(0) == "usize" and fn.local_ty(2) == "usize" and fn.id not in (add.id, build.id):
            roots[fid] = fn
    nret = 0
    for fid, fn in sorted(roots.items()):
        nret += root_function_ok(ck, fn, parent, "C07-R3")

    def is_root_call(e):
        return isinstance(e, tuple) and e[0] == "call" and e[1] in roots

    # ---- R2 classification of every mutation of the parent vector ----------------------------------------------------------------
    obl, an = None, None
    nreg = nlink = nflat = 0
    all_sites = []
    for fid, fn in sorted(methods.items()):
        for bb, t, i in mut_sites(fn, parent):
            all_sites.append((fn, bb, t))
    for fn, bb, t in all_sites:
        rp = callee_of(t).get("rpath") or ""
        inst = "%s in %s" % (rp.split("::")[-1], fn.id.split("::")[-1])
        others = [b2 for f2, b2, t2 in all_sites if f2.id == fn.id and b2 != bb]
        if rp.endswith("Vec::<T, A>::push"):
            v = df.operand_expr(fn, t["args"][1])
            is_len = lambda e: df.is_call(e, "::len") and is_field_of_self(e[2][0], parent, fn)
            # (a) v = *or_insert(entry(self.map, name), len(self.parent)), pushed on the branch where v == that length
            shape_a = df.is_call(v, "Entry::<'a, K, V, A>::or_insert") and len(v[2]) == 2 and df.is_call(v[2][0], "::entry") and \
                is_field_of_self(v[2][0][2][0], mp, fn) and is_len(v[2][1])
            ok, why = False, "not the registration idiom"
            len_site = None
            if shape_a:
                ln = v[2][1]
                oi = def_call(fn, t["args"][1])
                len_site = def_call(fn, oi[1]["args"][1]) if oi else None
                for g in guards.find_bool_guards(fn, lambda e: isinstance(e, tuple) and e[0] == "bin" and e[1] in ("Eq", "Ne")):
                    a, b = g["expr"][2], g["expr"][3]
                    if (a == v and b == ln) or (a == ln and b == v):
                        edge = g["true_edge"] if g["expr"][1] == "Eq" else g["false_edge"]
                        if bb in cfg.dominated_by_edge(fn, edge):
                            ok = True
                if not ok:
                    why = "the push is not on the branch where the looked-up value equals the length"
            elif is_len(v):
                # (b) v = len(self.parent), pushed where the same value was inserted into the name map for a vacant name
                len_site = def_call(fn, t["args"][1])
                for b2, t2 in fn.calls():
                    r2 = callee_of(t2).get("rpath") or ""
                    if fn.blocks[b2]["cleanup"]:
                        continue
                    if r2.endswith("VacantEntry::<'a, K, V, A>::insert") and len(t2["args"]) == 2:
                        ent = df.operand_expr(fn, t2["args"][0])
                        onmap = df.mentions(ent, lambda x: df.is_call(x, "::entry") and is_field_of_self(x[2][0], mp, fn))
                        val_op = t2["args"][1]
                    elif r2.endswith("HashMap::<K, V, S, A>::insert") and len(t2["args"]) == 3:
                        onmap = is_field_of_self(df.operand_expr(fn, t2["args"][0]), mp, fn)
                        val_op = t2["args"][2]
                    else:
                        continue
                    if onmap and len_site and def_call(fn, val_op) and def_call(fn, val_op)[0] == len_site[0] and \
                            (cfg.dominates(fn, b2, bb) or cfg.dominates(fn, bb, b2)):
                        ok = True
                if not ok:
                    why = "the pushed length is not the value inserted into the name map for the new name"
            if ok:
                # the length read is still the length: no other mutation of the vector between reading it and this push
                stale = len_site is None or [o for o in others if o in cfg.reachable_from_after(fn, len_site[0]) and bb in cfg.reachable_from_after(fn, o)]
                if stale:
                    ok, why = False, "the parent vector is modified between reading its length and pushing that value"
            nreg += 1 if ok else 0
            ck.require(ok, "C07-R2", "registration: " + inst,
                       "push onto the parent vector of %s: %s (a fresh node must be pushed as len(parent) = the value stored in the name map, "
                       "so that it is its own parent)" % (df.show(v, 120), why), fn.where(t),
                       ok_detail="fresh node = len(parent) = value stored in the name map; it is its own parent")
        elif rp.endswith("IndexMut<I>>::index_mut"):
            idx = df.operand_expr(fn, t["args"][1])
            # the store through the returned reference
            dest = t["dest"]["l"]
            stores = [(b2, s) for b2, i2, s in fn.stmts() if s["k"] == "assign" and s["lhs"]["l"] == dest and s["lhs"].get("p") == ["deref"]]
            if not ck.require(len(stores) == 1, "C07-R2", "store: " + inst, "%d stores through the element reference" % len(stores), fn.where(t)):
                continue
            sb, ss = stores[0]
            val = df.rvalue_expr(fn, ss["rv"])
            ia, va = df.alternatives(fn, idx), df.alternatives(fn, val)
            # `parent[a.max(b)] = a.min(b)`: one of the two operands, whichever
            from ..common import is_min_call, is_max_call
            for _ in range(2):
                ia = [y for x in ia for y in (x[2] if (is_min_call(x) or is_max_call(x)) else [x])]
                va = [y for x in va for y in (x[2] if (is_min_call(x) or is_max_call(x)) else [x])]
            if ia and va and all(is_root_call(x) for x in ia) and all(is_root_call(x) for x in va):
                # no mutation between the two root calls and the store
                rcalls = [b2 for b2, t2 in fn.calls() if (callee_of(t2).get("rpath") or "") in roots and bb in cfg.reachable(fn, [b2])]
                stale = [o for o in others if any(o in cfg.reachable_from_after(fn, rb) for rb in rcalls) and bb in cfg.reachable_from_after(fn, o)]
                nlink += 1
                ck.require(not stale, "C07-R2", "link: " + inst,
                           "parent vector is modified between finding the roots and linking them (the values may no longer be roots)", fn.where(t),
                           ok_detail="parent[%s] = %s: both are results of the root function" % (df.show(idx, 60), df.show(val, 60)))
            elif fn.id == build.id and df.is_call(val, "Index<I>>::index") and is_field_of_self(val[2][0], parent, fn) and \
                    df.is_call(val[2][1], "Index<I>>::index") and is_field_of_self(val[2][1][2][0], parent, fn) and val[2][1][2][1] == idx:
                # parent[i] = parent[parent[i]] inside an ascending pass over 0..len
                loops = [il for il in pt.iterator_loops(fn) if bb in il["body"]]
                asc = False
                for il in loops:
                    if "Range<usize>" in il["iter_ty"] and "Rev<" not in il["iter_ty"] and il["callee"]["path"].endswith("Iterator::next"):
                        it = df.operand_expr(fn, il["next_term"]["args"][0])
                        if isinstance(it, tuple) and it[0] == "local":
                            full = [dd for dd in df.defs_of(fn).all(it[1]) if dd[0] in ("stmt", "call")]
                            if len(full) == 1:
                                it = df.rvalue_expr(fn, full[0][3]["rv"]) if full[0][0] == "stmt" else df.call_expr(fn, full[0][2])
                        while df.is_call(it, "IntoIterator>::into_iter") or df.is_call(it, "IntoIterator::into_iter"):
                            it = it[2][0]
                        item_ok = isinstance(idx, tuple) and idx[0] == "field" and idx[2] == 0 and isinstance(idx[1], tuple) and idx[1][0] == "downcast"
                        if isinstance(it, tuple) and it[0] == "agg" and it[1].endswith("ops::range::Range") and it[3][0] == ("const", 0, "usize") and \
                                df.is_call(it[3][1], "::len") and is_field_of_self(it[3][1][2][0], parent, fn) and item_ok:
                            asc = True
                nflat += 1
                ck.require(asc, "C07-R2", "flatten: " + inst,
                           "parent[i] = parent[parent[i]] is not inside an ascending pass `for i in 0..parent.len()`", fn.where(t),
                           ok_detail="parent[i] = parent[parent[i]] for i ascending over 0..len")
            else:
                ck.violate("C07-R2", "store: " + inst,
                           "parent[%s] = %s is neither a link of two tree roots (both obtained from the root function) nor build's flattening store: "
                           "linking nodes that are not roots cuts off what was linked to them before" % (df.show(idx, 80), df.show(val, 80)), fn.where(t))
        else:
            ck.violate("C07-R2", "mutation: " + inst, "unrecognised mutation of the parent vector through %s" % rp, fn.where(t))
    ck.floor("C07-R2", "registrations of fresh nodes", nreg, 2)
    ck.floor("C07-R2", "links of two roots", nlink, 1)
    ck.floor("C07-R3", "returns of the root function", nret, 1)

    # both names of add() reach a registration
    names = []
    for bb, t in add.calls():
        if (callee_of(t).get("rpath") or "").endswith("::entry") and is_field_of_self(df.operand_expr(add, t["args"][0]), mp, add):
            names.append(df.operand_expr(add, t["args"][1]))
    p2 = [e for e in names if isinstance(e, tuple) and e[0] == "param" and e[1] == 2]
    p3 = [e for e in names if df.mentions(e, lambda x: isinstance(x, tuple) and x[0] == "param" and x[1] == 3)]
    ck.require(bool(p2) and bool(p3), "C07-R5", "both names given to add() are looked up / registered",
               "names looked up in the map: %s" % [df.show(e, 60) for e in names], add.where())

    # ---- R4 ordered forest (engine D) ------------------------------------------------------------------------------------------------
    scope = set(methods)
    obl, an = panics.analyse_scope(prog, cg, scope)
    n4 = 0
    for o in obl:
        if o.fn.id not in methods or o.kind != "index" or not (callee_of(o.term).get("rpath") or "").endswith("index_mut"):
            continue
        fn, t = o.fn, o.term
        if fn.id == build.id:
            continue
        st = getattr(o, "state", None)
        dest = t["dest"]["l"]
        stores = [(b2, s) for b2, i2, s in fn.stmts() if s["k"] == "assign" and s["lhs"]["l"] == dest and s["lhs"].get("p") == ["deref"]]
        if st is None or len(stores) != 1:
            continue
        rv = stores[0][1]["rv"]
        n4 += 1
        okv = False
        rel = "value not a tracked variable"
        if rv["k"] == "use" and rv["op"].get("k") in ("copy", "move") and "p" not in rv["op"]["pl"] and getattr(o, "index_term", None):
            v = ("v", "L%d" % rv["op"]["pl"]["l"])
            x, cx = o.index_term
            okv = an.prove(st, v, 0, x, cx, 0)
            rel = an.explain(st, v, x)
        ck.require(okv, "C07-R4", "link keeps parents at or below their children in %s" % fn.id.split("::")[-1],
                   "at parent[i] = v engine D cannot prove v <= i (%s): build's single ascending pass would not resolve every node to its root" % rel,
                   fn.where(t), ok_detail="v <= i proven (%s)" % rel)
    flat_build = nflat >= 1
    if flat_build:
        ck.floor("C07-R4", "link stores proven ordered", n4, max(1, nlink))

    # ---- R5 build: thread = parent[node] % thread_count (after flattening) or root(node) % thread_count ------------------------------------
    vm = [il for il in pt.iterator_loops(build) if "ValuesMut" in il["iter_ty"] or "IterMut" in il["iter_ty"]]
    if ck.require(len(vm) == 1, "C07-R5", "build rewrites every map value in one loop", "%d loops over the map's values" % len(vm), build.where()):
        il = vm[0]
        sts = [(bb, s) for bb, i2, s in build.stmts() if bb in il["body"] and s["k"] == "assign" and s["lhs"].get("p") == ["deref"]]
        good = False
        shown = ""
        for bb, s in sts:
            e = df.rvalue_expr(build, s["rv"])
            shown = df.show(e, 120)
            if isinstance(e, tuple) and e[0] == "bin" and e[1] == "Rem" and is_field_of_self(e[3], tc, build):
                x = e[2]
                node = df.place_expr(build, {"l": s["lhs"]["l"], "p": ["deref"]}) if hasattr(df, "place_expr") else None
                via_parent = df.is_call(x, "Index<I>>::index") and is_field_of_self(x[2][0], parent, build) and flat_build
                via_root = is_root_call(x)
                if via_parent or via_root:
                    good = True
                    # the flattening pass is complete before the first value is rewritten
                    if via_parent:
                        flat_loops = [l2 for l2 in pt.iterator_loops(build) if "Range<usize>" in l2["iter_ty"]]
                        done = any(l2["none_edge"] and il["head"] in cfg.dominated_by_edge(build, l2["none_edge"]) for l2 in flat_loops)
                        ck.require(done, "C07-R5", "values are rewritten only after the flattening pass finished",
                                   "the value loop is not dominated by the exhaustion of the flattening pass", build.where(il["next_term"]))
        ck.require(good, "C07-R5", "thread index = tree root % thread_count",
                   "build stores %s into the map: not parent[node] %% thread_count after flattening, nor root(node) %% thread_count" % shown, build.where(),
                   ok_detail=shown)
    r0 = [df.rvalue_expr(build, dd[3]["rv"]) for dd in df.defs_of(build).all(0) if dd[0] == "stmt" and not build.blocks[dd[1]]["cleanup"]]
    ck.require(len(r0) == 1 and is_field_of_self(r0[0], mp, build), "C07-R5", "build returns the rewritten name map",
               "build returns %s" % [df.show(e, 80) for e in r0], build.where())

    # the caller hands over every relation: a related name is omitted only for single-named file patches (shared with C06-R8)
    from . import c06
    from ..common import A, calls_named
    par = ck.anchor(A["par"])
    if par is not None:
        adds = calls_named(par, "FilenameDistributor::<T>::add")
        ck.floor("C07-R5", "FilenameDistributor::add calls in the parallel driver", len(adds), 1)
        c06.related_names_registered(ck, par, adds, "C07-R5")
        r6_every_usable_name_is_scheduled(ck, par)
        # "the same name" must mean to the grouping what it means to the workers' file maps (shared with C06-R8)
        c06.scheduling_key_type(ck, par, "C07-R7")


def r6_every_usable_name_is_scheduled(ck, par, rule="C07-R6"):
    """The grouping can only tie together names it is told about.  Every name of a file patch the apply stage can end up patching
    (the accessors of FilePatch that hand out a path and are used on the way from apply_one_file_patch to the file map) must be one the
    scheduling code of the parallel driver reads as well."""
    prog, cg = ck.prog, ck.cg
    from ..facts import callee_of

    def path_getters(fn_ids):
        out = {}
        for fid in fn_ids:
            f = prog.fns.get(fid)
            if f is None:
                continue
            for bb, t in f.calls():
                rp = callee_of(t).get("rpath") or ""
                g = prog.fns.get(rp)
                if f.blocks[bb]["cleanup"] or g is None or "FilePatch::<" not in rp or g.arg_count != 1:
                    continue
                rty = g.local_ty(0)
                if "std::path::Path" in rty and rty.startswith("core::option::Option<"):
                    # the accessor stands for the field it hands out
                    flds = [nm for b2, nm in df.adt_field_uses(g, "libpatch::patch::FilePatch") if nm in path_fields]
                    out.setdefault(flds[0] if len(set(flds)) == 1 else rp.split("::")[-1], f.where(t))
            # an accessor the rules do not know is folded into its caller: the field is then read directly
            for b2, nm in df.adt_field_uses(f, "libpatch::patch::FilePatch"):
                if nm in path_fields:
                    out.setdefault(nm, f.where(f.blocks[b2]["term"]))
        return out
    adt = prog.adts.get("libpatch::patch::FilePatch")
    path_fields = {fl["name"] for fl in adt["variants"][0]["fields"] if "std::path::Path" in fl["ty"]} if adt else set()
    ck.floor(rule, "path-valued fields of FilePatch", len(path_fields), 2)
    ao = ck.anchor("apply_one_file_patch")
    if ao is None:
        return
    apply_scope = {f for f in cg.closure([ao.id]) if f.startswith("rapidquilt::apply::common") or f.startswith("<rapidquilt::apply::common")}
    apply_scope |= {c.id for f in list(apply_scope) if f in prog.fns for c in prog.closures_of(prog.fns[f])}
    used = path_getters(apply_scope)
    sched_scope = {par.id} | {c.id for c in prog.closures_of(par)}
    told = path_getters(sched_scope)
    ck.floor(rule, "name accessors of a file patch used when applying it", len(used), 2)
    missing = sorted(set(used) - set(told))
    ck.require(not missing, rule, "every name the apply stage can patch under is read by the scheduling code",
               "apply_one_file_patch (or what it calls) uses %s of a file patch, the scheduling code of the parallel driver reads only %s: a file "
               "patch that ends up patching under such a name is queued on the worker of its other names, and another patch naming that file "
               "can run on a different worker" % (", ".join("%s()" % m for m in missing), sorted(told)),
               used[missing[0]] if missing else par.where(), ok_detail="applying uses %s; scheduling reads %s" % (sorted(used), sorted(told)))
