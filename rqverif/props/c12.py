"""C12  write-then-parse preserves a parsed patch (DESIGN §4 C12)."""
from .. import cfg, dataflow as df, guards, patterns as pt
from ..common import calls_named
from ..facts import callee_of

LEVEL = "other"
EXPLANATION = (
    "Decides the agreement of the two sibling tables and the writer's structure: (R1) every line-start keyword the writer can emit "
    "(first literal piece of each write!/writeln! template and each write_all literal in the header writers) is a literal the "
    "parser recognises with strip_prefix, the inner pieces of the hunk header and index templates start with the parser's literals, "
    "and the line markers '+', '-', ' ' are the ones parse_hunk_line matches; (R2) git-only keywords are written after the "
    "'diff --git' separator that switches the parser into the state that knows them; (R3) writer and parser use the same constant "
    "for the no-newline marker and for /dev/null; (R4) the hunk writer's loop ends only when both sides are exhausted; (R6) the walk itself: the closest-match helper is "
    "given the unwritten remainders of the two sides, every pair it returns was compared equal on its own parameters (or is the "
    "full remaining length of both), and '-' / '+' are written in front of lines of the remove / add side; (R7) the line numbers of a hunk header survive write-then-parse: the writer's integer "
    "term composed with the parser's is the identity for every header diff(1) writes, empty sides included. (R11) the two object names of an index line are stored together, as they stand. Not decided: "
    "structural equality parse(write(p)) = p (e.g. start lines of empty sides are written as 0) and the byte-level fixed point."
)
LEVEL_NOTE = "Undecided: value-level round trip (line numbers of empty sides, exact interleaving chosen by find_closest_match)."

WRITER_FILE = "src/libpatch/patch/unified/writer.rs"
PARSER_FILE = "src/libpatch/patch/unified/parser.rs"
SEPARATORS = ("\n", " ")


def run(ck):
    prog = ck.prog
    hdr = ck.anchor("libpatch::patch::unified::writer::write_file_patch_header_to")
    hh = ck.anchor("UnifiedPatchHunkHeaderWriter>::write_header_to")
    hw = ck.anchor("Hunk<'a, &'a [u8]> as libpatch::patch::unified::writer::UnifiedPatchHunkWriter>::write_to")
    phl = ck.anchor("libpatch::patch::unified::parser::parse_hunk_line")
    pgm = ck.anchor("libpatch::patch::unified::parser::parse_git_metadata_line")
    pml = ck.anchor("libpatch::patch::unified::parser::parse_metadata_line")
    phh = ck.anchor("libpatch::patch::unified::parser::parse_hunk_header")
    if None in (hdr, hh, hw, phl, pgm, pml, phh):
        return
    lits = prog.literals

    def in_fn(l, fn):
        # the function's own source range, or that of a helper the inliner folded into it
        return (l["file"] == fn.file and fn.lo <= l["line"] <= fn.hi) or \
            any(l["file"] == f_ and lo <= l["line"] <= hi for f_, lo, hi in fn.absorbed_spans)

    parser_prefixes = {}
    for l in lits:
        if l["file"] == PARSER_FILE and l["kind"] == "bytes" and l.get("callee") in ("strip_prefix", "starts_with"):
            owner = prog.fn_at(l["file"], l["line"])
            parser_prefixes.setdefault(l["val"], []).append(owner.id if owner else "?")
    ck.count("parser prefix literals", len(parser_prefixes))
    ck.floor("C12-R1", "parser prefix literals", len(parser_prefixes), 15)

    # ---- R1 --------------------------------------------------------------------------------------------
    keywords = []      # (text, line, kind)
    # a keyword handed to write_all directly, or to a helper of the header writer that was folded into it (and writes it there)
    writer_callees = {"write_all"} | {a.split("::")[-1] for f_ in (hdr, hh) for a in f_.raw.get("absorbed", [])}
    for l in lits:
        if not (in_fn(l, hdr) or in_fn(l, hh)):
            continue
        if l["kind"] == "fmt":
            pieces = l["pieces"]
            if pieces and "lit" in pieces[0]:
                keywords.append((pieces[0]["lit"], l["line"], "template", pieces))
        elif l["kind"] == "bytes" and l.get("callee") in writer_callees:
            if l["val"] not in SEPARATORS:
                keywords.append((l["val"], l["line"], "write_all", None))
    ck.count("writer line-start keywords", len(keywords))
    # a mode is read back as an octal number (parse_mode): it has to be written as one
    nmode = 0
    for text, line, kind, pieces in keywords:
        if kind != "template" or not text.rstrip().endswith("mode"):
            continue
        phs = [p_ for p_ in pieces if p_.get("ph")]
        nmode += 1
        ck.require(len(phs) == 1 and phs[0].get("trait") == "Octal" and phs[0].get("width", -1) == -1 and phs[0].get("plain", True), "C12-R5",
                   "the mode after %r is written in octal" % text,
                   "the mode is formatted with %s: the parser reads the digits as an octal number (or refuses them), the mode does not "
                   "survive" % [(p_.get("trait"), p_.get("width")) for p_ in phs], "%s:%d" % (WRITER_FILE, line), ok_detail="{:o}")
    ck.floor("C12-R5", "mode lines in the header writer", nmode, 4)
    ck.floor("C12-R1", "writer line-start keywords", len(keywords), 12)
    for text, line, kind, pieces in keywords:
        ok = text in parser_prefixes
        ck.require(ok, "C12-R1", "writer keyword %r" % text,
                   "the writer emits %r at the start of a line but the parser recognises no such prefix (closest: %s): the written patch loses "
                   "this metadata when parsed back" % (text, closest(text, parser_prefixes)), "%s:%d" % (WRITER_FILE, line),
                   ok_detail="recognised in %s" % sorted(set(x.split("::")[-1] for x in parser_prefixes.get(text, []))))
        if pieces:
            # inner literal pieces (between placeholders) must start with a parser literal, when the parser has one for that position
            inner = [p["lit"] for p in pieces[1:] if "lit" in p and p["lit"].strip("\n") not in ("", " ", ",")]
            for ip in inner:
                ipc = ip.rstrip("\n")
                okp = any(ipc.startswith(pp) for pp in parser_prefixes if pp.strip()) or ipc in parser_prefixes
                ck.require(okp, "C12-R1", "inner piece %r of the %r template" % (ip, text),
                           "the template piece %r matches no literal the parser expects at that position" % ip, "%s:%d" % (WRITER_FILE, line))
    # line markers
    line_writers = {"write_line"} | {a.split("::")[-1] for a in hw.raw.get("absorbed", [])}
    wmarks = sorted({l["val"] for l in lits if in_fn(l, hw) and l["kind"] == "byte" and l.get("callee") in line_writers})
    pmarks = sorted({l["val"] for l in lits if in_fn(l, phl) and l["kind"] == "byte"})
    ck.require(bool(wmarks) and all(m in pmarks for m in wmarks) and len(wmarks) == 3, "C12-R1", "hunk line markers",
               "writer markers %s, parser markers %s" % (wmarks, pmarks), hw.where(), ok_detail="writer %s within parser %s" % (wmarks, pmarks))

    # ---- R2 --------------------------------------------------------------------------------------------
    git_only = {p for p, owners in parser_prefixes.items() if all(o == pgm.id for o in owners)}
    def write_blocks(fn, line):
        return [bb for bb, t in fn.calls() if not fn.blocks[bb]["cleanup"] and (t.get("sp") or [None])[0] == line and
                ((callee_of(t).get("path") or "").endswith("Write::write_fmt") or (callee_of(t).get("path") or "").endswith("Write::write_all"))]
    sep = [(text, line) for text, line, kind, pieces in keywords if text == "diff --git "]
    if ck.require(len(sep) == 1, "C12-R2", "the writer emits the git separator once", "separator writes: %s" % sep, hdr.where()):
        sep_bbs = write_blocks(hdr, sep[0][1])
        n = 0
        for text, line, kind, pieces in keywords:
            if text not in git_only:
                continue
            n += 1
            bbs = write_blocks(hdr, line)
            ok = bool(bbs) and bool(sep_bbs) and all(any(cfg.dominates(hdr, sb, b) and sb != b for sb in sep_bbs) for b in bbs)
            ck.require(ok, "C12-R2", "git keyword %r written after the separator" % text,
                       "%r is only recognised after 'diff --git' but its write is not dominated by the separator's write" % text,
                       "%s:%d" % (WRITER_FILE, line))
        ck.floor("C12-R2", "git-only keywords in the writer", n, 6)

    def write_blocks(fn, line):
        return [bb for bb, t in fn.calls() if not fn.blocks[bb]["cleanup"] and (t.get("sp") or [None])[0] == line and
                ((callee_of(t).get("path") or "").endswith("Write::write_fmt") or (callee_of(t).get("path") or "").endswith("Write::write_all"))]

    # ---- R5: every piece of metadata the patch carries is written (on all paths where it is present) -----------------
    brk = set()
    for sw in pt.discr_switches(hdr, lambda e, rv: (rv.get("adt") or "").endswith("ControlFlow")):
        if "Break" in sw["edges"]:
            brk.add(sw["edges"]["Break"])
    writes = [(bb, t) for bb, t in hdr.calls() if not hdr.blocks[bb]["cleanup"] and
              ((callee_of(t).get("path") or "").endswith("Write::write_fmt") or (callee_of(t).get("path") or "").endswith("Write::write_all"))]

    def written_when_present(accessors, label, both=False):
        dests = []
        for acc in accessors:
            cs = calls_named(hdr, "FilePatch::<'a, Line>::%s" % acc)
            if not cs:
                ck.violate("C12-R5", "anchor:%s() in the header writer" % acc, "the header writer never reads %s" % acc, hdr.where())
                return
            dests.append({t["dest"]["l"] for bb, t, c in cs})
        alld = set().union(*dests)
        none_edges = set()
        nsw = 0
        for sw in pt.discr_switches(hdr, lambda e, rv: True):
            if (sw.get("adt") or "") != "core::option::Option":
                continue
            if not (df.place_trace(hdr, sw["place"]) & alld):
                continue
            nsw += 1
            if "None" in sw["edges"]:
                none_edges.add(sw["edges"]["None"])
        wbbs = {bb for bb, t in writes if any(df.operand_trace(hdr, a) & alld for a in t["args"])}
        r = cfg.reachable(hdr, 0, disabled=none_edges | brk, blocked=wbbs)
        leaks = [b for b in cfg.exits(hdr) if b in r]
        ck.require(nsw >= 1 and bool(wbbs) and not leaks, "C12-R5", "%s written whenever present" % label,
                   "with %s present the header writer can return without writing it: the written patch loses it when parsed back" % label,
                   hdr.where(), ok_detail="every path on which it is Some crosses a write that uses it (%d test(s), %d write(s))" % (nsw, len(wbbs)))
    written_when_present(["old_permissions"], "the old mode")
    written_when_present(["new_permissions"], "the new mode")
    # rename lines under is_rename
    gs = guards.find_bool_guards(hdr, lambda e: df.is_call(e, "::is_rename"))
    if ck.require(len(gs) >= 1, "C12-R5", "the header writer tests is_rename", "no branch on is_rename() in the header writer", hdr.where()):
        ren_lines = [line for text, line, kind, pieces in keywords if text.startswith("rename ")]
        for g in gs:
            for ln in ren_lines:
                bbs = write_blocks(hdr, ln)
                r = cfg.reachable(hdr, [g["true_edge"][1]], disabled=brk, blocked=set(bbs))
                ck.require(bool(bbs) and not [b for b in cfg.exits(hdr) if b in r], "C12-R5", "rename line at %s:%d written for every rename" % (WRITER_FILE, ln),
                           "a rename can be written without its rename from/to line", hdr.where())
        ck.floor("C12-R5", "rename keyword lines", len(ren_lines), 2)

    # ---- R3 --------------------------------------------------------------------------------------------
    def items_used(fn):
        out = set()
        for f in [fn] + prog.closures_of(fn):
            for bb, idx, s in f.stmts():
                if s["k"] == "assign":
                    for x in df.walk(df.rvalue_expr(f, s["rv"])):
                        if isinstance(x, tuple) and x and x[0] == "constitem" and x[2] is None:
                            out.add(x[1])
                        if isinstance(x, tuple) and x and x[0] == "constitem" and x[2] is not None:
                            pv = guards.promoted_value(f, x)
                            if pv and pv[0] == "item" and pv[1]:
                                out.add(pv[1])
            for bb, t in f.calls():
                for a in t["args"]:
                    if a.get("k") == "const" and "item" in a:
                        out.add(a["item"])
        return out
    # the constants are inlined by the compiler, so agreement is checked on their values
    markers = []
    for f in [hw] + prog.closures_of(hw):
        for bb, t in f.calls():
            if (callee_of(t).get("path") or "").endswith("Write::write_all"):
                e = df.operand_expr(f, t["args"][1])
                if df.is_const(e) and isinstance(e[1], str) and len(e[1]) > 2 and e[1] not in [m[0] for m in markers]:
                    markers.append((e[1], f.where(t)))      # (a line-writing helper inlined at several sites writes the same marker)
    tested = []
    for bb, idx, st in phl.stmts():
        if st["k"] == "assign" and st["rv"]["k"] == "bin" and st["rv"]["op"] == "Eq":
            for side in ("a", "b"):
                o = st["rv"][side]
                if o.get("k") == "const" and o.get("ty") == "u8" and "int" in o:
                    tested.append(o["int"])
                    continue
                pl = pt.trace_place(phl, o)
                if pl and pl.get("p"):
                    idxs = [p_ for p_ in pl["p"] if isinstance(p_, dict) and "index" in p_]
                    base = df.local_expr(phl, pl["l"])
                    if idxs and df.is_const(base) and isinstance(base[1], str):
                        ie = df.local_expr(phl, idxs[0]["index"])
                        if df.is_const(ie) and isinstance(ie[1], int) and ie[1] < len(base[1]):
                            tested.append(ord(base[1][ie[1]]))
    # the same test spelled as a comparison of Options: first() ==/!= Some(&MARKER[0])
    for bb, t in phl.calls():
        if phl.blocks[bb]["cleanup"] or (callee_of(t).get("rpath") or "").split("::")[-1] not in ("eq", "ne") or \
                not all("u8" in a and "[u8]" not in a for a in t["argtys"]):
            continue
        for a in t["args"]:
            for x in df.walk(df.operand_expr(phl, a)):
                if isinstance(x, tuple) and x and x[0] == "index" and df.is_const(x[1]) and isinstance(x[1][1], str) and \
                        isinstance(x[2], tuple) and x[2][0] == "localidx":
                    ie = df.local_expr(phl, x[2][1])
                    if df.is_const(ie) and isinstance(ie[1], int) and ie[1] < len(x[1][1]):
                        tested.append(ord(x[1][1][ie[1]]))
                elif df.is_const(x) and len(x) > 2 and x[2] == "u8" and isinstance(x[1], int):
                    tested.append(x[1])
    ck.require(len(markers) == 1 and markers[0][0].endswith("\n") and tested == [ord(markers[0][0][0])], "C12-R3",
               "the no-newline marker written is the one the parser tests for",
               "writer marker(s) %s, parser tests first byte(s) %s" % ([m[0] for m in markers], tested), hw.where(),
               ok_detail="marker %r, parser tests byte %s" % (markers[0][0] if markers else None, tested))
    nulls_w = [l["val"] for l in lits if l["file"].endswith("unified/mod.rs") and l["item"].endswith("const:NULL_FILENAME")]
    ck.require(nulls_w == ["/dev/null"], "C12-R3", "one constant for /dev/null", "NULL_FILENAME = %s" % nulls_w, hdr.where())
    pf = prog.one("libpatch::patch::unified::parser::parse_filename")
    def bytes_of(fn, x):
        if df.is_const(x) and isinstance(x[1], str):
            return x[1]
        pv = guards.promoted_value(fn, x)
        if pv and pv[0] == "item":
            return pv[2]
        return None
    w_uses = [x for bb, t in hdr.calls() if (callee_of(t).get("path") or "").endswith("Write::write_all")
              for x in [df.operand_expr(hdr, t["args"][1])] if bytes_of(hdr, x) == "/dev/null"]
    ck.require(len(w_uses) == 2, "C12-R3", "the writer emits /dev/null for the absent side of create and delete",
               "writes of /dev/null: %d" % len(w_uses), hdr.where())

    # ---- R4 --------------------------------------------------------------------------------------------
    fcm = calls_named(hw, "write_to::find_closest_match")
    if ck.require(len(fcm) == 1, "C12-R4", "hunk writer walks by closest match", "find_closest_match calls: %d" % len(fcm), hw.where()):
        loop = None
        for h, body in cfg.loops(hw).items():
            if fcm[0][0] in body and (loop is None or len(body) > len(loop[1])):
                loop = (h, body)
        brk = set()
        for sw in pt.discr_switches(hw, lambda e, rv: (rv.get("adt") or "").endswith("ControlFlow")):
            if "Break" in sw["edges"]:
                brk.add(sw["edges"]["Break"])
        exits = [e for e in cfg.loop_exit_edges(hw, loop[1]) if e not in brk and not hw.blocks[e[1]]["cleanup"]]
        # Lt(counter, len(side)) tests
        tests = {}
        for gbb, gt in hw.terms():
            if gt["k"] != "switch" or gt["dty"] != "bool" or gbb not in loop[1]:
                continue
            e, neg = guards.switch_cond(hw, gbb)
            if isinstance(e, tuple) and e[0] == "bin" and e[1] == "Lt" and df.is_call(e[3], "::len"):
                side = "add" if df.mentions(e[3], lambda x: isinstance(x, tuple) and x[0] == "field" and x[2] == "add") else \
                    "remove" if df.mentions(e[3], lambda x: isinstance(x, tuple) and x[0] == "field" and x[2] == "remove") else None
                f, tr = guards.bool_edges(hw, gbb)
                if neg:
                    f, tr = tr, f
                if side and isinstance(e[2], tuple) and e[2][0] == "local":
                    tests.setdefault(side, []).append((gbb, f))
        for ex in exits:
            sides = set()
            for side, ts in tests.items():
                for gbb, f in ts:
                    if (gbb, f) == ex or ex[0] in cfg.dominated_by_edge(hw, (gbb, f)):
                        sides.add(side)
            ck.require(sides == {"add", "remove"}, "C12-R4", "hunk writer stops only when both sides are exhausted",
                       "the writer loop can end via %s with only %s exhausted: lines of the other side would be lost" % (ex, sorted(sides)), hw.where(),
                       ok_detail="exit %s implies add_i >= len(add) and remove_i >= len(remove)" % (ex,))
        ck.floor("C12-R4", "normal exits of the hunk writer loop", len(exits), 1)
    r6(ck, hw)
    r7(ck, hh)
    r8_names_written_in_a_readable_form(ck, hdr)
    r9_quoted_form_is_read_back(ck)
    r10_kind_is_a_function_of_the_hunks(ck)
    r11_hashes_of_an_index_line_stay_together(ck)


def r6(ck, hw):
    """The walk of the hunk writer: the helper's contract and the marker written for each side."""
    prog = ck.prog
    rule = "C12-R6"
    fcm = calls_named(hw, "write_to::find_closest_match")
    if len(fcm) != 1:
        return
    bb, t, c = fcm[0]
    helper = prog.fns.get(c.get("rpath"))
    if not ck.require(helper is not None and helper.arg_count == 2, rule, "closest-match helper found", "callee %s" % c.get("rpath"), hw.where(t)):
        return
    # (a) the two arguments are the unwritten remainders  add[add_i..], remove[remove_i..]
    sides = []
    for a in t["args"]:
        e = df.operand_expr(hw, a)
        ok = df.is_call(e, "Index<I>>::index") and isinstance(e[2][1], tuple) and e[2][1][0] == "agg" and e[2][1][1].endswith("ops::range::RangeFrom")
        side = None
        if ok:
            base = e[2][0]
            side = "add" if df.mentions(base, lambda x: isinstance(x, tuple) and x[0] == "field" and x[2] == "add") else \
                "remove" if df.mentions(base, lambda x: isinstance(x, tuple) and x[0] == "field" and x[2] == "remove") else None
        sides.append(side)
        ck.require(side is not None, rule, "helper is given the unwritten remainder of a side", "argument %s is not side[cursor..]" % df.show(e, 120), hw.where(t))
    ck.require(sorted(x for x in sides if x) == ["add", "remove"], rule, "helper compares the two sides with each other", "sides passed: %s" % sides, hw.where(t))
    # (b) contract of the helper: every result is a pair of indices of equal elements of its *parameters*, or (len(a), len(b))
    nmatch = nfull = 0
    eqs = guards.find_bool_guards(helper, lambda e: df.is_call(e, "::eq") and len(e[2]) == 2)
    for dd in df.defs_of(helper).all(0):
        if helper.blocks[dd[1]]["cleanup"]:
            continue
        e = df.rvalue_expr(helper, dd[3]["rv"]) if dd[0] == "stmt" else df.call_expr(helper, dd[2])
        where = helper.where(dd[3]) if dd[0] == "stmt" else helper.where(dd[2])
        if not (isinstance(e, tuple) and e[0] == "agg" and len(e[3]) == 2):
            ck.violate(rule, "helper returns a pair", "find_closest_match returns %s" % df.show(e, 120), where)
            continue
        x, y = e[3]
        is_len = lambda v, i: df.is_call(v, "::len") and len(v[2]) == 1 and isinstance(v[2][0], tuple) and v[2][0][:2] == ("param", i)
        if is_len(x, 1) and is_len(y, 2):
            nfull += 1
            ck.ok(rule, "helper: no common line -> everything that is left", "(len(a), len(b)) of the parameters themselves", where)
            continue
        good = False
        for g in eqs:
            if dd[1] not in cfg.dominated_by_edge(helper, g["true_edge"]):
                continue
            l, r = g["expr"][2]

            def is_param_or_prefix(b_, i):
                """param_i itself, or a prefix param_i[..k] / param_i[0..k] of it (same indices)."""
                if isinstance(b_, tuple) and b_[:2] == ("param", i):
                    return True
                if df.is_call(b_, "Index<I>>::index") or df.is_call(b_, "Index<I> for [T]>::index"):
                    base, rg = b_[2]
                    if isinstance(rg, tuple) and rg[0] == "agg" and (rg[1].endswith("ops::range::RangeTo") or
                                                                       (rg[1].endswith("ops::range::Range") and rg[3][0] == ("const", 0, "usize"))):
                        return is_param_or_prefix(base, i)
                return False

            def elem(v, i):     # param_i[index] -> index expression
                if isinstance(v, tuple) and v[0] == "index" and is_param_or_prefix(v[1], i):
                    ie = v[2]
                    if isinstance(ie, tuple) and ie[0] == "localidx":
                        ie = df.local_expr(helper, ie[1])
                    return ie
                if df.is_call(v, "Index<I>>::index") and is_param_or_prefix(v[2][0], i):
                    return v[2][1]
                return None
            ix, iy = elem(l, 1), elem(r, 2)
            if ix is not None and iy is not None and ix == x and iy == y:
                good = True
        nmatch += 1 if good else 0
        ck.require(good, rule, "helper: a reported pair points at two equal lines",
                   "find_closest_match can return %s without having compared a[%s] with b[%s] of its own parameters: the caller writes that line "
                   "as context and drops the other side's line" % (df.show(e, 100), df.show(x, 40), df.show(y, 40)), where,
                   ok_detail="returned on the equal edge of a[i] == b[j] for exactly these i, j")
    ck.floor(rule, "match returns of the helper", nmatch, 1)
    ck.floor(rule, "exhausted return of the helper", nfull, 1)
    # (c) marker written for each side
    want = {45: "remove", 43: "add"}       # '-' , '+'
    n = 0
    for b2, t2 in hw.calls():
        c2 = callee_of(t2)
        if not (c2.get("self_closure") and (c2.get("path") or "").endswith("FnMut::call_mut")) or len(t2["args"]) < 2:
            continue
        e = df.operand_expr(hw, t2["args"][1])
        if not (isinstance(e, tuple) and e[0] == "agg" and len(e[3]) == 2 and isinstance(e[3][0], tuple) and e[3][0][0] == "const"):
            continue
        mk, line = e[3][0][1], e[3][1]
        side = "add" if df.mentions(line, lambda x: isinstance(x, tuple) and x[0] == "field" and x[2] == "add") else \
            "remove" if df.mentions(line, lambda x: isinstance(x, tuple) and x[0] == "field" and x[2] == "remove") else None
        n += 1
        if mk in want:
            ck.require(side == want[mk], rule, "marker %r is written for lines of the %s side" % (chr(mk), want[mk]),
                       "%r is written in front of %s" % (chr(mk), df.show(line, 100)), hw.where(t2))
        elif mk == 32:
            ck.require(side in ("add", "remove"), rule, "context lines come from the hunk", "' ' is written in front of %s" % df.show(line, 100), hw.where(t2))
        else:
            ck.violate(rule, "line marker is one of '+', '-', ' '", "marker byte %r" % mk, hw.where(t2))
    ck.floor(rule, "line writes in the hunk writer", n, 3)


def r11_hashes_of_an_index_line_stay_together(ck, rule="C12-R11"):
    """The written form has one word for both object names: the `index <old>..<new>` line, written when both are there.  So the parser
    keeps them together: what it stores as the old and the new hash of a file patch are `Some` of the two names of one `index` line,
    as they stand - one of them filtered away (the all-zero name of an absent side, say) leaves a lone hash the writer has no line
    for, and the other one is lost in the written patch."""
    prog = ck.prog
    n = 0
    sides = set()
    for fn in sorted(prog.fns.values(), key=lambda f: f.id):
        if fn.crate != "libpatch" or "unified::parser" not in fn.id:
            continue
        for bb, idx, st in fn.stmts():
            if st["k"] != "assign" or "p" not in st["lhs"] or fn.blocks[bb]["cleanup"]:
                continue
            last = [p_ for p_ in st["lhs"]["p"] if isinstance(p_, dict)]
            if not last or last[-1].get("name") not in ("old_hash", "new_hash") or not str(last[-1].get("adt") or "").endswith("FilePatchMetadata"):
                continue
            n += 1
            e = df.rvalue_expr(fn, st["rv"])
            alts = df.alternatives(fn, e) or [e]
            good = all(isinstance(a, tuple) and a and a[0] == "agg" and str(a[1]).endswith("Option") and a[2] == "Some" and
                       df.mentions(a, lambda x: isinstance(x, tuple) and x and x[0] == "downcast" and x[2] == "Index") for a in alts)
            if good:
                sides.add(last[-1]["name"])
            ck.require(good, rule, "the %s of a file patch is the name the index line gives, as it stands" % last[-1]["name"].replace("_", " "),
                       "the parser stores %s as %s: not simply Some(name from the index line) - when one side can end up None while the other "
                       "is kept, the writer (which writes `index a..b` only when both are there) loses the remaining one" % (
                           last[-1]["name"], df.show(e, 90)), fn.where(st), ok_detail=df.show(e, 70))
    ck.floor(rule, "places where the parser stores an object name", n, 2)


def r8_names_written_in_a_readable_form(ck, hdr):
    """A name is read back in its plain form only up to the first white-space byte (parser: is_whitespace).  So wherever the writer
    formats a path into a header line, it has to go through a function that can switch to the quoted form, and the bytes that make it
    switch must include every byte the parser treats as white space."""
    from .. import seqmodel
    prog = ck.prog
    rule = "C12-R8"
    isw = ck.anchor("libpatch::patch::unified::parser::is_whitespace")
    if isw is None:
        return
    try:
        ws = [c for c in range(256) if seqmodel.eval_pure(isw, [c])]
    except seqmodel.Unsupported as ex:
        ck.violate(rule, "the parser's white-space class is a byte predicate", "cannot evaluate is_whitespace (%s)" % ex, isw.where())
        return
    ck.require(6 <= len(ws) <= 16 and 0x20 in ws, rule, "the parser's white-space class is a byte predicate", "is_whitespace accepts %s" % ws, isw.where(),
               ok_detail="bytes %s end a plain file name" % ws)
    n = 0
    writer_fns = [f for f in prog.fns.values() if f.file == WRITER_FILE]
    for fn in sorted(writer_fns, key=lambda f: f.id):
        for bb, t in fn.calls():
            if fn.blocks[bb]["cleanup"] or not (callee_of(t).get("rpath") or "").endswith("std::path::Path::display"):
                continue
            n += 1
            # the function that formats the path: does it also have a quoting branch, taken on a predicate over the name's bytes?
            host = fn if fn.kind != "Closure" else prog.fns.get(fn.parent, fn)
            preds = []
            for b2, t2 in host.calls():
                last = (callee_of(t2).get("path") or "").split("::")[-1]
                if last in ("any", "all", "position", "find") and len(t2["args"]) == 2:
                    ce = df.operand_expr(host, t2["args"][1])
                    cl = prog.fns.get(ce[1]) if isinstance(ce, tuple) and ce and ce[0] == "closure" else None
                    if cl is not None and cl.arg_count == 2 and "u8" in cl.local_ty(2):
                        preds.append((last, cl))
            good = False
            detail = "the path is formatted with Path::display() in a function that has no test of the name's bytes: a name with white space in it is " \
                     "written in the plain form, which the parser reads back only up to the first blank"
            for last, cl in preds:
                try:
                    forcing = [c for c in range(256) if seqmodel.eval_pure(cl, [0, c])]
                except seqmodel.Unsupported:
                    continue
                # the test is made on every path that ends in the plain form (no shortcut around it, e.g. for borrowed names)
                pred_bbs = [b2 for b2, t2 in host.calls() if (callee_of(t2).get("path") or "").split("::")[-1] == last and len(t2["args"]) == 2 and
                            isinstance(df.operand_expr(host, t2["args"][1]), tuple) and df.operand_expr(host, t2["args"][1])[:2] == ("closure", cl.id)]
                from .. import pathconst
                if host is fn and pred_bbs and bb in pathconst.reach_under(host, lambda e_: None, blocked=set(pred_bbs)):
                    detail = "the plain form can be reached without the test of the name's bytes (a path goes round it)"
                    continue
                missing = [c for c in ws if (c in forcing) != (last in ("any", "position", "find"))]
                if not missing:
                    good = True
                else:
                    detail = "the bytes that make the writer quote a name (%s...) do not include the white-space bytes %s of the parser" % (forcing[:8], missing)
            ck.require(good, rule, "a path is formatted into a header line only by code that quotes names with white space (%s)" % host.id.split("::")[-2],
                       detail, fn.where(t), ok_detail="the quoting test covers every byte is_whitespace() accepts")
            # Path::display() is lossy for a name that is not UTF-8 (every offending byte becomes U+FFFD): the plain form may only be
            # reached for names that are UTF-8 - under "the name is not UTF-8" the formatting call is unreachable
            from .. import pathconst as _pc

            def _atom(e):
                utf8 = df.mentions(e, lambda x: df.is_call(x, "core::str::converts::from_utf8", "str::from_utf8", "Path::to_str", "OsStr::to_str"))
                if not utf8:
                    return None
                if df.is_call(e, "::is_ok") or df.is_call(e, "::is_some"):
                    return False
                if df.is_call(e, "::is_err") or df.is_call(e, "::is_none"):
                    return True
                return None

            def _variant(e, adt):
                if df.is_call(e, "core::str::converts::from_utf8", "str::from_utf8"):
                    return "Err"
                if df.is_call(e, "Path::to_str", "OsStr::to_str"):
                    return "None"
                return None
            if host is fn:
                reach = _pc.reach_under(fn, _atom, _variant)
                ck.require(bb not in reach, rule, "the lossy plain form is written only for names that are UTF-8 (%s)" % host.id.split("::")[-2],
                           "Path::display() is reached for a name that is not valid UTF-8: it writes U+FFFD for every offending byte, so the name "
                           "read back is another name (the quoted form with octal escapes carries such bytes)", fn.where(t),
                           ok_detail="unreachable under `from_utf8(name) is Err`")
            else:
                ck.info(rule, "Path::display() inside a closure of %s" % host.id.split("::")[-1], "UTF-8 guard not decided for a closure", fn.where(t))
    ck.floor(rule, "places where the writer formats a path", n, 1)



def _short(fn):
    i = fn.id
    if i.startswith("<") and " as " in i:
        return i[1:i.index(" as ")].split("::")[-1].split("<")[0] + "::" + i.split("::")[-1]
    return "::".join(i.split("::")[-2:])


def r10_kind_is_a_function_of_the_hunks(ck, rule="C12-R10"):
    """The written form has no word for the kind of a file patch: a reader tells creation / deletion / modification from the shape of
    the hunks (`-0,0` / `+0,0`).  So the kind the parser stores must be that function of the hunks it stores - then writing and
    re-reading cannot change it.  Every `FilePatchBuilder::kind(k)`: k is `recognize_kind(&h)` of the very `h` given to `.hunks(h)`
    on the same builder (a kind that arrives as a parameter is followed to the callers)."""
    prog = ck.prog
    n = 0
    for fn in sorted(prog.fns.values(), key=lambda f: f.id):
        if "/tests/" in fn.file:
            continue
        kinds = [(bb, t) for bb, t in fn.calls() if (callee_of(t).get("path") or "").endswith("FilePatchBuilder::<'a, Line>::kind") and not fn.blocks[bb]["cleanup"]]
        if not kinds:
            continue
        hunk_args = [df.operand_expr(fn, t["args"][1]) for bb, t in fn.calls()
                     if (callee_of(t).get("path") or "").endswith("FilePatchBuilder::<'a, Line>::hunks") and len(t["args"]) == 2 and not fn.blocks[bb]["cleanup"]]
        for bb, t in kinds:
            n += 1
            k = df.operand_expr(fn, t["args"][1])

            def from_hunks(host, e, hs):
                if df.is_call(e, "recognize_kind") and len(e[2]) >= 2:
                    h = e[2][-1]
                    while isinstance(h, tuple) and h and h[0] in ("ref", "deref") and len(h) > 1:
                        h = h[1]
                    return any(h == x or df.mentions(x, lambda y: y == h) or df.mentions(h, lambda y: y == x) for x in hs)
                return False
            ok = from_hunks(fn, k, hunk_args)
            why = "the kind is %s" % df.show(k, 100)
            if not ok and isinstance(k, tuple) and k and k[0] == "param":
                # the kind and the hunks both arrive as parameters: every caller computes the one from the other
                hp = [h for h in hunk_args if isinstance(h, tuple) and h and h[0] == "param"]
                sites = [(g, t2) for g in prog.fns.values() for b2, t2 in g.calls()
                         if (callee_of(t2).get("rpath") or "") == fn.id and not g.blocks[b2]["cleanup"] and "/tests/" not in g.file]
                if hp and sites:
                    bad = [(g, t2) for g, t2 in sites
                           if not from_hunks(g, df.operand_expr(g, t2["args"][k[1] - 1]), [df.operand_expr(g, t2["args"][hp[0][1] - 1])])]
                    ok = not bad
                    if bad:
                        why = "%s passes the kind %s" % (bad[0][0].id.split("::")[-1], df.show(df.operand_expr(bad[0][0], bad[0][1]["args"][k[1] - 1]), 80))
            ck.require(ok and bool(hunk_args), rule, "the kind of a file patch is recognize_kind() of its hunks (%s)" % fn.id.split("::")[-1],
                       "%s, not a function of the hunks stored with it: a patch whose kind says otherwise than the shape of its hunks is written "
                       "in a form that reads back as another kind" % why, fn.where(t), ok_detail="kind(recognize_kind(&hunks)), hunks(hunks)")
    ck.floor(rule, "places where the parser sets the kind of a file patch", n, 1)


def r9_quoted_form_is_read_back(ck):
    """The quoted form of a name is an escape sequence per byte; the parser's reader (parse_c_string) undoes exactly the sequences of
    its own table.  Writer table (what is written for each of the 256 byte values, read off the emitter loop) and reader table (the
    bytes that do not stand for themselves, the one-letter escapes, the three-digit octal form) must compose to the identity."""
    from .. import bytetable as bt, cfg, seqmodel
    prog = ck.prog
    rule = "C12-R9"
    pcs = ck.anchor("libpatch::patch::unified::parser::parse_c_string")
    if pcs is None:
        return
    try:
        specials, escapes, has_octal = bt.reader_escape_table(pcs)
    except seqmodel.Unsupported as ex:
        ck.violate(rule, "the reader of quoted names is a byte switch with an escape table", "cannot read the tables of parse_c_string (%s)" % ex, pcs.where())
        return
    ck.require(34 in specials and 92 in specials and len(escapes) >= 2, rule, "the reader of quoted names is a byte switch with an escape table",
               "specials %s, escapes %s" % (sorted(specials), escapes), pcs.where(),
               ok_detail="bytes %s do not stand for themselves; one-letter escapes %s; octal form: %s" % (
                   sorted(specials), "".join(chr(k) for k in sorted(escapes)), has_octal))
    # the octal form is three digits for a byte: [0-3][0-7][0-7], read off the ranges the digit reader tests (when it tests ranges)
    for fid in sorted(prog.fns):
        if not fid.split("::")[-1].startswith("parse_oct") or "{closure" in fid:
            continue
        f_ = prog.fns[fid]
        rngs = []
        for blk in (f_.raw.get("promoted") or []):
            for b_ in blk["blocks"]:
                for st in b_["stmts"]:
                    rv = st.get("rv") or {}
                    if st.get("k") == "assign" and rv.get("k") == "agg" and (rv.get("adt") or "").startswith("core::ops::range::Range") and len(rv.get("ops", [])) == 2 and \
                            all(o.get("k") == "const" and "int" in o for o in rv["ops"]):
                        rngs.append((rv["ops"][0]["int"], rv["ops"][1]["int"] - (0 if "Inclusive" in rv["adt"] else 1)))
                t_ = b_["term"]
                if t_["k"] == "call" and (callee_of(t_).get("path") or "").endswith("RangeInclusive::<Idx>::new") and all(o.get("k") == "const" and "int" in o for o in t_["args"]):
                    rngs.append((t_["args"][0]["int"], t_["args"][1]["int"]))
        if len(rngs) == 3:
            ck.require(sorted(rngs) == [(48, 51), (48, 55), (48, 55)], rule, "the octal escape is [0-3][0-7][0-7]",
                       "%s accepts the digit ranges %s: some bytes written as \\ooo are not read back (the name falls back to its literal, "
                       "quoted spelling)" % (fid.split("::")[-1], [(chr(a), chr(b)) for a, b in rngs]), f_.where(), ok_detail="ranges %s" % sorted(rngs))
    # the writers of quoted names: functions of the writer that format a path (C12-R8) - their quoted arm
    hosts = []
    for fn in sorted((f for f in prog.fns.values() if f.file == WRITER_FILE), key=lambda f: f.id):
        if any((callee_of(t).get("rpath") or "").endswith("std::path::Path::display") and not fn.blocks[bb]["cleanup"] for bb, t in fn.calls()):
            hosts.append(fn if fn.kind != "Closure" else prog.fns.get(fn.parent, fn))
    n = 0
    for host in hosts:
        tables = []
        problems = []
        for il in bt.byte_loops(host):
            try:
                tables.append((bt.emitter_table(prog, host, il), host.where(il["next_term"]), il))
            except seqmodel.Unsupported as ex:
                problems.append("loop at %s: %s" % (host.where(il["next_term"]), ex))
        for bb, t in host.calls():
            p_ = callee_of(t).get("path") or ""
            if host.blocks[bb]["cleanup"] or not p_.endswith(("Iterator::for_each", "Iterator::try_for_each")) or len(t["args"]) < 2:
                continue
            ce = df.operand_expr(host, t["args"][1])
            cl = prog.fns.get(ce[1]) if isinstance(ce, tuple) and ce and ce[0] == "closure" else None
            if cl is None or cl.arg_count != 2 or "u8" not in cl.local_ty(2):
                continue
            try:
                tab = {}
                for c in range(256):
                    tab[c] = bt.eval_region(prog, cl, 0, {2: c}, set())[0]
                tables.append((tab, host.where(t), None))
            except seqmodel.Unsupported as ex:
                problems.append("closure at %s: %s" % (host.where(t), ex))
        inst = "the quoted form is written byte by byte by a recognised emitter (%s)" % _short(host)
        if not tables:
            family = [host] + [f for f in prog.fns.values() if f.id.startswith(host.id + "::{closure")]
            others = sorted({(callee_of(t).get("path") or "").split("::")[-1] for f in family for bb, t in f.calls()
                             if "escape" in (callee_of(t).get("path") or "") or "quote" in (callee_of(t).get("path") or "")})
            ck.violate(rule, inst, "no loop over the name's bytes whose writes could be tabulated%s%s: the escape sequences of the quoted form cannot be "
                       "compared with what parse_c_string undoes" % ("; " + "; ".join(problems) if problems else "",
                                                                     " (calls %s)" % others if others else ""), host.where())
            continue
        ck.ok(rule, inst, "%d emitter(s) tabulated over 256 byte values" % len(tables), host.where())
        for tab, where, il in tables:
            n += 1
            bad = [(c, tab[c], bt.read_back(tab[c], specials, escapes, has_octal)) for c in range(256)]
            bad = [(c, w, r) for c, w, r in bad if r != [c]]
            ck.require(not bad, rule, "every byte is written as a sequence the reader turns back into that byte (%s)" % _short(host),
                       "%d byte values are not read back, e.g. %s: a name containing such a byte is parsed as a different name (or falls back to the "
                       "plain form, which ends at the first blank)" % (len(bad), "; ".join("byte 0x%02x written as %r, read as %s" % (
                           c, w, "a failure" if r is None else bytes(r)) for c, w, r in bad[:4])), where,
                       ok_detail="256 of 256 byte values: literal for %d, one-letter / backslash escapes for %d, octal for %d" % (
                           sum(1 for c in range(256) if tab[c] == chr(c)), sum(1 for c in range(256) if len(tab[c]) == 2),
                           sum(1 for c in range(256) if len(tab[c]) == 4)))
            if il is not None:
                # the sequence sits between two quotes: one written before the loop on every path into it, one after it on every path out
                quote_bbs = set()
                for bb, t in host.calls():
                    last = (callee_of(t).get("path") or "").split("::")[-1]
                    if host.blocks[bb]["cleanup"] or last not in ("write_char", "write_str") or len(t["args"]) != 2:
                        continue
                    a = t["args"][1]
                    e = df.operand_expr(host, a)
                    if (a.get("k") == "const" and a.get("int") == 34) or (df.is_const(e) and e[1] in (34, '"')):
                        quote_bbs.add(bb)
                opened = any(cfg.dominates(host, q, il["head"]) and q not in il["body"] for q in quote_bbs)
                bail = {bb for bb, t in host.calls() if (callee_of(t).get("path") or "").endswith("from_residual")}
                after = cfg.reachable(host, [il["none_edge"][1]], blocked=quote_bbs | bail) if il.get("none_edge") else set()
                closed = not any(host.blocks[b_]["term"]["k"] == "return" for b_ in after)
                ck.require(opened and closed, rule, "the escape sequences sit between two double quotes (%s)" % _short(host),
                           "opening quote before the loop: %s, closing quote on every way out of it: %s" % (opened, closed), where,
                           ok_detail="quote written before the loop and on every path from its end to the return")
    ck.floor(rule, "emitters of quoted names tabulated", n, 1)


def r7(ck, hh):
    """Header numbers survive write-then-parse: the writer's term composed with the parser's term is the identity."""
    from .. import seqmodel
    from . import c01
    rule = "C12-R7"
    ph, terms = c01.header_terms(ck, rule)
    pterm = {side: e for side, e, where in terms}
    for side in ("remove", "add"):
        loc = [l for l, nm in hh.names.items() if nm == side + "_line"]
        if not ck.require(len(loc) == 1, rule, "writer computes the %s line number" % side, "locals named %s_line: %d" % (side, len(loc)), hh.where()):
            continue
        we = seqmodel.ite_expr(hh, ("local", loc[0], side + "_line"))

        def is_side_field(x, name, side=side):
            return isinstance(x, tuple) and x[0] == "field" and x[2] == name and isinstance(x[1], tuple) and x[1][0] == "field" and x[1][2] == side
        mw = seqmodel.Model([("t", lambda x: is_side_field(x, "target_line"))], seqsyms=[("c", lambda x: is_side_field(x, "content"))], fn=hh)
        mp = seqmodel.Model([("N", lambda x, s=side: c01.fld(x, s + "_line")), ("c", lambda x, s=side: c01.fld(x, s + "_count"))], fn=ph)
        wrong = None
        try:
            for n in range(0, 12 if ck.tier == "thorough" else 5):
                for c in range(0, 3):
                    if c > 0 and n == 0:
                        continue        # '-0,k' with k > 0 is not a header diff writes
                    if side not in pterm:
                        raise seqmodel.Unsupported("parser term not found")
                    t = mp.val(pterm[side], {"N": n, "c": c})
                    back = mw.val(we, {"t": t, "c": c})
                    if back != n:
                        wrong = (n, c, t, back)
                        break
                if wrong:
                    break
        except seqmodel.Unsupported as ex:
            ck.violate(rule, "%s line number is a recognised term on both sides" % side, "cannot model the writer's %s (%s)" % (df.show(we, 120), ex), hh.where())
            continue
        ck.require(wrong is None and "t" in mw.used, rule, "the %s line number survives write-then-parse" % side,
                   "a hunk parsed from '%s%d,%d' (position %s) is written back with line number %s" % (
                       "-" if side == "remove" else "+", wrong[0] if wrong else 0, wrong[1] if wrong else 0, wrong[2] if wrong else "?", wrong[3] if wrong else "?"),
                   hh.where(), ok_detail="writer: %s" % df.show(we, 140))


def closest(text, table):
    best = None
    for p in table:
        common = 0
        for a, b in zip(text, p):
            if a != b:
                break
            common += 1
        if best is None or common > best[0]:
            best = (common, p)
    return repr(best[1]) if best else "none"
