"""Display-only values: does a value read at some place influence anything but text that is printed?

A small whole-program taint propagation over the MIR facts, field-based and flow-insensitive inside a function (every statement of a
function is looked at, in any order, until nothing changes).  Tainted are locals; struct fields `(adt, field)` become tainted when a
tainted value is stored into them (every read of such a field, anywhere, is tainted then); parameters of local functions become
tainted when a tainted argument is passed; call results are tainted when the callee returns a tainted value or is one of a few pure
library functions applied to a tainted value.

The value is *display-only* when it never reaches a bad sink:
  * the discriminant of a `switch` or the condition of an `assert` (a decision),
  * an index / slice bound,
  * an argument of a function that is neither local, nor a formatting constructor (`fmt::rt::Argument::new_*`: the good sink), nor
    one of the pure functions below.
Nothing is executed."""
from .facts import callee_of

PURE = ("::max", "::min", "::unsigned_abs", "::abs", "::clone", "::deref", "::as_ref", "::borrow", "::into", "::from", "::to_owned",
        "::saturating_add", "::saturating_sub", "::wrapping_add", "::wrapping_sub", "::checked_add", "::unwrap_or", "::unwrap_or_default",
        "::cmp", "::partial_cmp", "::to_string", "::default", "::len", "::count")
FORMAT = ("fmt::rt::Argument", "fmt::Arguments", "fmt::Formatter", "fmt::Display", "fmt::Debug")


def _locals_in(x, acc):
    if isinstance(x, dict):
        if isinstance(x.get("l"), int):
            acc.add(x["l"])
        if isinstance(x.get("index"), int):
            acc.add(x["index"])
        for v in x.values():
            _locals_in(v, acc)
    elif isinstance(x, list):
        for v in x:
            _locals_in(v, acc)
    return acc


def _fields_of_place(pl):
    """Fields of the project's own types along a place (fields of Option / tuples / std containers are not tracked globally: a value
    stored in `Some(x)` taints that local, not every Option of the program)."""
    return [(p_.get("adt"), p_.get("name")) for p_ in pl.get("p", []) if isinstance(p_, dict) and "f" in p_ and
            (p_.get("adt") or "").startswith(("rapidquilt::", "libpatch::"))]


def _places_in(x, acc):
    if isinstance(x, dict):
        if isinstance(x.get("l"), int) and "p" in x:
            acc.append(x)
        for v in x.values():
            _places_in(v, acc)
    elif isinstance(x, list):
        for v in x:
            _places_in(v, acc)
    return acc


def display_only(prog, seeds, seed_fields=None, max_rounds=12):
    """seeds: iterable of (fn, local).  seed_fields: {fn id: {(adt, field)}} - reads of these fields inside that function are tainted.
    Returns the list of bad sinks [(fn, node, why)]; empty = the values are only ever printed."""
    seed_fields = seed_fields or {}
    tl = {}                 # fn id -> set of tainted locals
    tf = set()              # tainted (adt, field)
    tret = set()            # fn ids returning a tainted value
    bad = []
    seen_bad = set()
    for fn, l in seeds:
        tl.setdefault(fn.id, set()).add(l)
    for fid in seed_fields:
        tl.setdefault(fid, set())

    def tainted(fn, T, x):
        if _locals_in(x, set()) & T:
            return True
        fs = tf | seed_fields.get(fn.id, set())
        return bool(fs) and any(fk in fs for pl in _places_in(x, []) for fk in _fields_of_place(pl))

    def note_bad(fn, node, why):
        key = (fn.id, id(node))
        if key not in seen_bad:
            seen_bad.add(key)
            bad.append((fn, node, why))
    work = set(tl)
    for _ in range(max_rounds):
        changed = False
        fns = [prog.fns[f] for f in sorted(set(tl) | {f.id for f in prog.fns.values()} if tf or tret else set(tl)) if f in prog.fns]
        for fn in fns:
            T = tl.setdefault(fn.id, set())
            before = (len(T), len(tf), len(tret))
            # closures built in this function: local -> closure id (through one move / reference)
            clos = {}
            for bb, idx, s in fn.stmts():
                if s["k"] == "assign" and s["rv"]["k"] == "agg" and s["rv"].get("closure") and "p" not in s["lhs"]:
                    clos[s["lhs"]["l"]] = s["rv"]["closure"]
                    if any(tainted(fn, T, o) for o in s["rv"]["ops"]):
                        CT = tl.setdefault(s["rv"]["closure"], set())
                        if 1 not in CT:
                            CT.add(1)
                            changed = True
            for bb, idx, s in fn.stmts():
                if s["k"] == "assign" and "p" not in s["lhs"] and s["rv"]["k"] in ("use", "ref"):
                    src = s["rv"]["op"]["pl"] if s["rv"]["k"] == "use" and s["rv"]["op"].get("k") in ("copy", "move") else s["rv"].get("pl")
                    if src is not None and src["l"] in clos and not [p_ for p_ in src.get("p", []) if p_ != "deref"]:
                        clos.setdefault(s["lhs"]["l"], clos[src["l"]])
            for _inner in range(6):
                n0 = len(T)
                for bb, idx, s in fn.stmts():
                    if s["k"] != "assign":
                        continue
                    rv = s["rv"]
                    hit = tainted(fn, T, rv)
                    if not hit:
                        continue
                    lhs = s["lhs"]
                    if rv["k"] == "agg" and (rv.get("adt") or "").startswith(("rapidquilt::", "libpatch::")) and rv.get("fields") and not lhs.get("p"):
                        # a struct of the project with a tainted field: the field carries the taint, not the whole value
                        pass
                    elif [fk for fk in _fields_of_place(lhs)]:
                        # a store into a field of a project struct: likewise
                        pass
                    else:
                        T.add(lhs["l"])
                    for fk in _fields_of_place(lhs):
                        if fk not in tf:
                            tf.add(fk)
                    if rv["k"] == "agg" and rv.get("adt") and rv.get("fields"):
                        for name, op in zip(rv["fields"], rv["ops"]):
                            if tainted(fn, T, op) and rv["adt"].startswith(("rapidquilt::", "libpatch::")):
                                tf.add((rv["adt"], name))
                for bb, t in fn.terms():
                    k = t["k"]
                    if k == "switch":
                        if tainted(fn, T, t["discr"]):
                            from . import cfg as _cfg
                            try:
                                region, join = _cfg.ipdom_region(fn, bb)
                            except KeyError:
                                region, join = set(), None
                            reason = None
                            if join is None:
                                reason = "a branch is taken on it that does not re-join"
                            for b2 in sorted(region):
                                if reason:
                                    break
                                blk = fn.blocks[b2]
                                if blk["cleanup"]:
                                    continue
                                for s2 in blk["stmts"]:
                                    if s2["k"] == "assign":
                                        T.add(s2["lhs"]["l"])          # whatever is assigned under the branch depends on it
                                t2 = blk["term"]
                                if t2["k"] == "call":
                                    rp2 = callee_of(t2).get("rpath") or callee_of(t2).get("path") or ""
                                    printing = any(x in rp2 for x in FORMAT) or rp2.endswith(("::write_fmt", "::write_str", "::_print", "::_eprint", "::write_all", "::flush")) or \
                                        "std::io::stdio" in rp2 or rp2.endswith(PURE) or rp2.endswith(("Try>::branch", "Try::branch", "::deref", "::display", "::as_ref")) or \
                                        "::ops::arith::" in rp2 or "::ops::bit::" in rp2 or "core::cmp::" in rp2 or "core::num::" in rp2 or "core::slice::" in rp2 or \
                                        "core::iter::" in rp2 or "::convert::" in rp2
                                    if not printing:
                                        reason = "a branch is taken on it that guards a call of %s" % rp2.split("::", 1)[-1][:50]
                                    elif "p" not in t2["dest"]:
                                        T.add(t2["dest"]["l"])
                                elif t2["k"] == "return":
                                    reason = "a branch is taken on it that returns"
                            if reason:
                                note_bad(fn, t, reason)
                    elif k == "assert":
                        if tainted(fn, T, t.get("cond")) or tainted(fn, T, t.get("ops")):
                            # overflow checks of arithmetic on the value are not decisions of the program; bounds checks are
                            if "Overflow" not in str(t.get("msg")):
                                note_bad(fn, t, "an index or bound is computed from it")
                    elif k == "call":
                        targs = [i for i, a in enumerate(t["args"]) if tainted(fn, T, a)]
                        # a combinator given a closure that returns a tainted value (any / all / map / filter / find ...): its result
                        # depends on that value
                        for a in t["args"]:
                            if a.get("k") in ("copy", "move") and "p" not in a["pl"] and clos.get(a["pl"]["l"]) in tret:
                                T.add(t["dest"]["l"])
                                for fk in _fields_of_place(t["dest"]):
                                    tf.add(fk)
                        c = callee_of(t)
                        rp = c.get("rpath") or c.get("path") or ""
                        callee = prog.fns.get(rp)
                        if callee is not None:
                            if targs:
                                CT = tl.setdefault(callee.id, set())
                                for i in targs:
                                    if i + 1 <= callee.arg_count and (i + 1) not in CT:
                                        CT.add(i + 1)
                                        changed = True
                            if callee.id in tret and "p" not in t["dest"]:
                                T.add(t["dest"]["l"])
                            if callee.id in tret and t["dest"].get("p"):
                                T.add(t["dest"]["l"])
                                for fk in _fields_of_place(t["dest"]):
                                    tf.add(fk)
                        elif targs:
                            if any(x in rp for x in FORMAT):
                                T.add(t["dest"]["l"])          # formatted text: stays "display"
                            elif rp.endswith(PURE) or rp.split("::")[-1] in ("max", "min", "add", "sub", "mul", "add_assign", "sub_assign", "eq", "ne", "lt", "le", "gt", "ge") or \
                                    "core::num::" in rp or "::convert::" in rp:
                                T.add(t["dest"]["l"])
                                for fk in _fields_of_place(t["dest"]):
                                    tf.add(fk)
                                # `x.f = x.f.max(v)` through a &mut receiver
                                a0 = t["args"][0] if t["args"] else None
                                if rp.split("::")[-1].endswith("_assign") and a0 is not None and a0.get("k") in ("copy", "move"):
                                    T.add(a0["pl"]["l"])
                            elif rp.endswith(("::write_fmt", "::write_str", "::_print", "::_eprint", "::print_to", "io::Write::write_all")) or "std::io::stdio" in rp:
                                pass                             # printed
                            else:
                                note_bad(fn, t, "it is passed to %s" % rp.split("::", 1)[-1][:60])
                    elif k == "return":
                        pass
                if 0 in T and fn.id not in tret:
                    tret.add(fn.id)
                    changed = True
                if len(T) == n0:
                    break
            if (len(T), len(tf), len(tret)) != before:
                changed = True
        if not changed:
            break
    return bad
