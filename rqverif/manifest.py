"""Single source of truth for MANIFEST.json (python3 -m rqverif.manifest writes it)."""
import importlib
import json
import os

VERIF = os.path.dirname(os.path.dirname(os.path.abspath(__file__)))

NOT_APPLICABLE = {
}

TECHNIQUE = {
    "C02": "MIR loop-shape / edge-dominance rules, provenance of the fuzz level, and a finite-order model of the scan's iterator term "
           "(Range/rev/interleave over expected line, file length, hunk length) deciding completeness and nearest-first order",
    "C04": "typestate pairing over MIR field writes (apply vs rollback), who-may-call rule on the aborting rollback API, LIFO iterator typing",
    "C05": "MIR dominance / must-pass-through ordering rules on both drivers and cmd_push (record-after-save, rollback-before-save, exit status)",
    "C01": "term-level checks (finite-order model) of the header-number -> position convention and of the direction -> side tables, "
           "guard-dominance rule for the creation / deletion classification, plus the splice rules of C03",
    "C03": "term-level check of the two-phase splice (finite-order model of range bounds and the running offset), loop-shape rules "
           "for report alignment, path-restricted difference-bound proof that a hunk is applied at or after the frozen line",
    "C07": "shape analysis of the disjoint-set forest: every mutation of the parent vector classified as registration / link of two "
           "roots / flattening pass, root function returns only checked roots, difference-bound proof that links keep parent <= child, "
           "thread index a function of the root",
    "C06": "static effect and sharing analysis of the rayon closures: captured types, atomic method set, barrier dominance, FS-effect conflicts",
    "C08": "path-constant (backup mode x dry-run) reachability, sibling expression-tree agreement of the two drivers, dominance rules",
    "C09": "builder-chain typestate on OpenOptions, value provenance of the slice bounds, flag non-interference on cmd_push",
    "C10": "call-graph reachability with edge-dominance guards on ApplyConfig.dry_run + effect table (who-may-write), single-assignment check",
    "C11": "panic-site enumeration over the parser's call-graph closure, discharged by difference-bound abstract interpretation + axioms; taint of parsed numbers into allocation sizes; SCC recursion check",
    "C12": "literal-table agreement between writer templates and parser keywords (expanded AST + MIR), dominance of the git separator",
    "C13": "MIR edge-dominance rules on reject creation and hunk selection, loop-exit shape of the file-patch loops",
    "C14": "flag non-interference (branch regions on Verbosity/stats are print-only: no live assignments, no effects, no aborting API), sibling agreement of the two Arena impls, signature/ADT interior-mutability check",
    "C15": "dominance of unlink before create per path value, who-may-write set, mmap flag constants, handle-vs-path permission setting",
    "C16": "value provenance of strip/reverse into parse/apply calls in both drivers, single-resolution-routine who-may-call, direction-duality of match arms",
    "C17": "difference-bound range analysis on slice bounds in cmd_push (incl. path-restricted run through the UpTo arm: range non-empty), "
           "effect-before-refusal ordering, error-propagation dominance before save phases",
    "C18": "error-discipline analysis: fate of every Result in the output layer, BufWriter create->flush pairing, context wrapping on error paths",
    "C19": "taint analysis from patch file names to base_dir.join sinks with a structurally recognised sanitizer that must dominate",
    "C20": "use-set analysis of the fuzz limit (only a range bound), provenance of the level given to every view construction, purity of "
           "trial functions, loop-shape rule shared with C02",
}

LEVEL_TEXT = {
    "proof": "All rule instances found in the extracted MIR are discharged; together with the stated assumptions they imply the claimed clause.",
    "other": "Structural necessary conditions of the property are proved on all paths of the type-checked program; the value-level clauses named in level_note are not decided.",
}


def build(claimed):
    checks = []
    na = dict(NOT_APPLICABLE)
    for pid in sorted(claimed):
        mod = importlib.import_module("rqverif.props.%s" % pid.lower())
        checks.append({
            "property_id": pid,
            "quick_cmd": "bin/check %s --tier quick" % pid,
            "thorough_cmd": "bin/check %s --tier thorough" % pid,
            "evidence_file": "/verif/evidence/%s.json" % pid,
            "replay_cmd_template": "cat {path}",
            "engine": "rqverif",
            "level_claimed": {
                "category": mod.LEVEL,
                "text": LEVEL_TEXT[mod.LEVEL] + " " + mod.EXPLANATION,
                "design_ref": "DESIGN.md §4 %s" % pid,
            },
            "level_note": "Trusted: rustc MIR + callee resolution, the std contract/effect tables, third-party crates opaque "
                          "(no FS write/exit, call back only closures handed to them), dev-profile MIR == shipped program. "
                          + getattr(mod, "LEVEL_NOTE", ""),
            "technique": "static analysis: " + TECHNIQUE[pid],
        })
    for pid in ["C%02d" % i for i in range(1, 21)]:
        if pid not in claimed and pid not in na:
            na[pid] = "static check for this property is designed (DESIGN.md §4) but not yet implemented in this commit; not claimed"
    return {
        "version": 1,
        "setup_cmd": "bin/setup",
        "hooks": {
            "guard": "opensuse_rapidquilt_verif",
            "enable": "none needed: static analysis reads the unmodified sources; no hook commits exist in /repo",
            "baseline_off_cmd": "cd /repo && cargo test --workspace --no-fail-fast --offline",
            "source_commits": [],
            "add_only": True,
        },
        "engines": [
            {"name": "rq-facts", "path": "driver/", "serves_properties": sorted(claimed),
             "kind_free_text": "rustc_private driver (nightly) dumping MIR with resolved callees, ADTs, impls and expanded-AST literals of /repo's two crates as JSON facts"},
            {"name": "rqverif", "path": "rqverif/", "serves_properties": sorted(claimed),
             "kind_free_text": "Python rule engines over the facts: call graph + effects, CFG dominance / must-pass-through with path-constant pruning, value provenance, range analysis, literal agreement, error discipline, flag non-interference"},
        ],
        "checks": checks,
        "not_applicable": [{"property_id": k, "reason": v} for k, v in sorted(na.items())],
        "notes": "Technique family: static analysis only. Genuine defects found by the rules were repaired in /repo as 16 'fix:' commits; see known_findings.json and DESIGN.md §5.",
    }


def claimed_props():
    d = os.path.join(VERIF, "rqverif", "props")
    return sorted(f[:-3].upper() for f in os.listdir(d) if f.startswith("c") and f.endswith(".py") and f[1:-3].isdigit())


if __name__ == "__main__":
    m = build(claimed_props())
    with open(os.path.join(VERIF, "MANIFEST.json"), "w") as f:
        json.dump(m, f, indent=1)
    print("claimed:", [c["property_id"] for c in m["checks"]])
    print("not_applicable:", [n["property_id"] for n in m["not_applicable"]])
