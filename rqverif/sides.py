"""Which side of a hunk (`remove` = old, `add` = new) an accessor of HunkView reads, per direction of application.

The accessors may select the side with a `match self.direction`, with `if self.direction == Forward`, through a private helper, or by
building the pair (removed, added) once and projecting it.  What matters is the value that reaches the return place when the direction
is fixed: reachability under that assumption (pathconst) picks the definitions that count, `alternatives` expands them, and calls of
local helpers that are given `self` are followed."""
from . import dataflow as df, guards, pathconst

DIRECTION = "patch::PatchDirection"


def direction_atom(fn, dirname):
    def atom(e):
        if isinstance(e, tuple) and e and e[0] == "call" and e[1].split("::")[-1] in ("eq", "ne") and len(e[2]) == 2:
            for x in e[2]:
                pv = guards.promoted_value(fn, x)
                if pv and pv[0] == "enum" and str(pv[1]).endswith(DIRECTION):
                    same = pv[2] == dirname
                    return same if e[1].split("::")[-1] == "eq" else (not same)
        return None
    return atom


def reach(fn, dirname):
    return pathconst.reach_under(fn, direction_atom(fn, dirname), lambda e, adt: dirname if (adt or "").endswith(DIRECTION) else None)


def alternatives_under(fn, e, blocks, depth=4):
    """Like dataflow.alternatives, but a local's definitions outside `blocks` do not count."""
    if depth < 0 or not isinstance(e, tuple) or not e:
        return [e]
    d = df.defs_of(fn)

    def expand(x, dep):
        if not isinstance(x, tuple) or not x:
            return [x]
        if x[0] == "local":
            ds = [dd for dd in d.all(x[1]) if dd[0] in ("stmt", "call") and dd[1] in blocks]
            if not ds or dep <= 0:
                return [x]
            out = []
            for dd in ds:
                sub = df.rvalue_expr(fn, dd[3]["rv"], 64, frozenset([x[1]])) if dd[0] == "stmt" else df.call_expr(fn, dd[2], 64, frozenset([x[1]]))
                if sub == x:
                    return [x]
                out.extend(expand(sub, dep - 1))
            return out[:16]
        if x[0] == "field" and isinstance(x[2], int):
            bs = expand(x[1], dep)
            return [b[3][x[2]] if (isinstance(b, tuple) and b and b[0] == "agg" and b[1] == "tuple" and x[2] < len(b[3])) else ("field", b, x[2]) for b in bs]
        if isinstance(x[0], str):
            parts = [[x[0]]]
            for c in x[1:]:
                if isinstance(c, tuple) and c and isinstance(c[0], str):
                    alts = expand(c, dep)
                elif isinstance(c, tuple):
                    alts = [()]
                    for y in c:
                        ys = expand(y, dep) if isinstance(y, tuple) else [y]
                        alts = [a + (yy,) for a in alts for yy in ys][:16]
                else:
                    alts = [c]
                parts = [p_ + [a] for p_ in parts for a in alts][:16]
            return [tuple(p_) for p_ in parts]
        return [x]
    return expand(e, depth)


def part_read(prog, fn, dirname, depth=0):
    """The set of hunk sides ("remove" / "add") the value returned by fn derives from when the direction is `dirname`."""
    if depth > 3:
        return {"?"}
    R = reach(fn, dirname)
    out = set()
    for e in alternatives_under(fn, df.local_expr(fn, 0), R):
        for x in df.walk(e):
            if isinstance(x, tuple) and x and x[0] == "field" and x[2] in ("remove", "add") and \
                    df.mentions(x[1], lambda y: isinstance(y, tuple) and y[0] == "field" and y[2] == "hunk" or isinstance(y, tuple) and y[0] == "param"):
                out.add(x[2])
            if isinstance(x, tuple) and x and x[0] == "call" and x[1] in prog.fns and x[1] != fn.id and \
                    any(isinstance(a, tuple) and a[:2] == ("param", 1) for a in x[2]) and prog.fns[x[1]].id.rsplit("::", 1)[0] == fn.id.rsplit("::", 1)[0]:
                out |= part_read(prog, prog.fns[x[1]], dirname, depth + 1)
    return out
