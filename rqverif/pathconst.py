"""Reachability under assumptions about run-constant values (semantic path-constant pruning).

`reach_under(fn, atom, variant)` explores the CFG of fn from its entry and follows only the edges that can be taken when
  * `atom(expr)`  -> True / False / None   fixes the truth value of atomic boolean expressions (e.g. `config.dry_run`,
                                            `config.do_backups == Always`, `final_patch != series.len()`), and
  * `variant(place_expr, adt)` -> name / None  fixes the variant of matched enum values (e.g. `config.do_backups`).
Boolean locals are constant-propagated along the explored paths (per-block environment, joined at merges), so it does not matter
whether a condition is tested directly, through a temporary, through a `match` that computes a flag, negated with an early return,
or spelled with `||` / `&&` (which MIR turns into control flow).  Nothing is executed; conditions that are neither atoms nor
constants are simply taken both ways.
"""
from . import dataflow as df, guards


def eval3(fn, e, env, atom):
    """Three-valued truth of expression e (already expanded by dataflow) under env (local -> bool) and atom."""
    if not isinstance(e, tuple) or not e:
        return None
    k = e[0]
    if k == "const" and isinstance(e[1], (bool, int)) and (len(e) < 3 or e[2] == "bool"):
        return bool(e[1])
    if k in ("local", "param") and e[1] in env:
        return env[e[1]]
    if k == "un" and e[1] == "Not":
        v = eval3(fn, e[2], env, atom)
        return None if v is None else (not v)
    a = atom(e)
    if a is not None:
        return a
    if k == "bin" and e[1] in ("BitAnd", "BitOr", "Eq", "Ne", "BitXor"):
        x, y = eval3(fn, e[2], env, atom), eval3(fn, e[3], env, atom)
        if e[1] == "BitAnd":
            if x is False or y is False:
                return False
            return True if (x is True and y is True) else None
        if e[1] == "BitOr":
            if x is True or y is True:
                return True
            return False if (x is False and y is False) else None
        if x is None or y is None:
            return None
        return (x == y) if e[1] == "Eq" else (x != y)
    return None


def _operand_value(fn, op, env, atom):
    if op.get("k") == "const":
        if op.get("ty") == "bool" and "int" in op:
            return bool(op["int"])
        return None
    pl = op.get("pl")
    if pl is not None and "p" not in pl and pl["l"] in env:
        return env[pl["l"]]
    if pl is not None and len(pl.get("p", [])) == 1 and isinstance(pl["p"][0], dict) and "f" in pl["p"][0] and (pl["l"], pl["p"][0]["f"]) in env:
        return env[(pl["l"], pl["p"][0]["f"])]
    return eval3(fn, df.operand_expr(fn, op), env, atom)


def _transfer(fn, bb, env, atom):
    env = dict(env)
    for s in fn.blocks[bb]["stmts"]:
        if s["k"] != "assign" or "p" in s["lhs"]:
            continue
        l = s["lhs"]["l"]
        rv = s["rv"]
        if rv["k"] == "agg" and rv.get("ak") == "tuple":
            # (flag_a, flag_b) = match .. { .. => (true, false), .. }: the booleans travel as fields of a tuple
            for k in [k for k in env if isinstance(k, tuple) and k[0] == l]:
                env.pop(k)
            for i, o in enumerate(rv["ops"]):
                if o.get("ty") == "bool" or (o.get("k") in ("copy", "move") and "p" not in o["pl"] and fn.local_ty(o["pl"]["l"]) == "bool"):
                    v = _operand_value(fn, o, env, atom)
                    if v is not None:
                        env[(l, i)] = v
            continue
        if fn.local_ty(l) != "bool":
            if rv["k"] != "use" or not str(fn.local_ty(l)).startswith("("):
                for k in [k for k in env if isinstance(k, tuple) and k[0] == l]:
                    env.pop(k)
            continue
        v = None
        if rv["k"] == "use":
            v = _operand_value(fn, rv["op"], env, atom)
        elif rv["k"] == "un" and rv["op"] == "Not":
            x = _operand_value(fn, rv["a"], env, atom)
            v = None if x is None else (not x)
        else:
            v = eval3(fn, df.rvalue_expr(fn, rv), env, atom)
        if v is None:
            env.pop(l, None)
        else:
            env[l] = v
    t = fn.blocks[bb]["term"]
    if t["k"] == "call" and "p" not in t["dest"] and fn.local_ty(t["dest"]["l"]) == "bool":
        v = eval3(fn, df.call_expr(fn, t), env, atom)
        if v is None:
            env.pop(t["dest"]["l"], None)
        else:
            env[t["dest"]["l"]] = v
    return env


def _join(a, b):
    return {k: v for k, v in a.items() if b.get(k) == v}


def reach_under(fn, atom, variant=None, disabled=(), blocked=(), per_iteration=False):
    """Set of blocks reachable from the entry under the assumptions (never entering a block in `blocked`).  With per_iteration the
    assumptions describe one iteration of a loop, earlier iterations being arbitrary: what is known about boolean locals is
    forgotten at every loop head."""
    from . import cfg as _cfg
    heads = set(_cfg.loops(fn)) if per_iteration else set()
    variant = variant or (lambda e, adt: None)
    disabled = set(disabled)
    from . import patterns as pt
    dsw = {sw["bb"]: sw for sw in pt.discr_switches(fn, lambda e, rv: True)}
    envs = {0: {}}
    work = [0]
    seen_out = {}
    while work:
        bb = work.pop()
        env_in = {} if bb in heads else envs[bb]
        env = _transfer(fn, bb, env_in, atom)
        t = fn.blocks[bb]["term"]
        succs = [s for s in fn.succs(bb) if (bb, s) not in disabled and not fn.blocks[s]["cleanup"] and s not in blocked]
        if t["k"] == "switch":
            if t["dty"] == "bool":
                v = _operand_value(fn, t["discr"], env, atom)
                be = guards.bool_edges(fn, bb)
                if v is not None and be:
                    f, tr = be
                    succs = [s for s in succs if s == (tr if v else f)]
            elif bb in dsw:
                sw = dsw[bb]
                var = variant(sw["expr"], sw.get("adt"))
                if var is not None:
                    if var in sw["edges"]:
                        succs = [s for s in succs if s == sw["edges"][var][1]]
                    else:
                        named = {e[1] for e in sw["edges"].values()}
                        succs = [s for s in succs if s == sw["otherwise"][1]]
        for s in succs:
            if s not in envs:
                envs[s] = dict(env)
                work.append(s)
            else:
                j = _join(envs[s], env)
                if j != envs[s]:
                    envs[s] = j
                    work.append(s)
    return set(envs)
