"""Reachability under assumptions about run-constant values (semantic path-constant pruning).

`reach_under(fn, atom, variant)` explores the CFG of fn from its entry and follows only the edges that can be taken when
  * `atom(expr)`  -> True / False / None   fixes the truth value of atomic boolean expressions (e.g. `config.dry_run`,
                                            `config.do_backups == Always`, `final_patch != series.len()`), and
  * `variant(place_expr, adt)` -> name / None  fixes the variant of matched enum values (e.g. `config.do_backups`).
Boolean locals are constant-propagated along the explored paths (per-block environment, joined at merges), so it does not matter
whether a condition is tested directly, through a temporary, through a `match` that computes a flag, negated with an early return,
or spelled with `||` / `&&` (which MIR turns into control flow).  Nothing is executed; conditions that are neither atoms nor
constants are simply taken both ways.
"""
from . import dataflow as df, guards


def eval3(fn, e, env, atom):
    """Three-valued truth of expression e (already expanded by dataflow) under env (local -> bool) and atom."""
    if not isinstance(e, tuple) or not e:
        return None
    k = e[0]
    if k == "const" and isinstance(e[1], (bool, int)) and (len(e) < 3 or e[2] == "bool"):
        return bool(e[1])
    if k in ("local", "param") and e[1] in env:
        return env[e[1]]
    if k == "un" and e[1] == "Not":
        v = eval3(fn, e[2], env, atom)
        return None if v is None else (not v)
    a = atom(e)
    if a is not None:
        return a
    if k == "bin" and e[1] in ("BitAnd", "BitOr", "Eq", "Ne", "BitXor"):
        x, y = eval3(fn, e[2], env, atom), eval3(fn, e[3], env, atom)
        if e[1] == "BitAnd":
            if x is False or y is False:
                return False
            return True if (x is True and y is True) else None
        if e[1] == "BitOr":
            if x is True or y is True:
                return True
            return False if (x is False and y is False) else None
        if x is None or y is None:
            return None
        return (x == y) if e[1] == "Eq" else (x != y)
    return None


def _operand_value(fn, op, env, atom):
    if op.get("k") == "const":
        if op.get("ty") == "bool" and "int" in op:
            return bool(op["int"])
        return None
    pl = op.get("pl")
    if pl is not None and "p" not in pl and pl["l"] in env:
        return env[pl["l"]]
    if pl is not None and len(pl.get("p", [])) == 1 and isinstance(pl["p"][0], dict) and "f" in pl["p"][0] and (pl["l"], pl["p"][0]["f"]) in env:
        return env[(pl["l"], pl["p"][0]["f"])]
    return eval3(fn, df.operand_expr(fn, op), env, atom)


def _transfer(fn, bb, env, atom):
    env = dict(env)
    for s in fn.blocks[bb]["stmts"]:
        if s["k"] != "assign" or "p" in s["lhs"]:
            continue
        l = s["lhs"]["l"]
        rv = s["rv"]
        if rv["k"] == "agg" and rv.get("ak") == "tuple":
            # (flag_a, flag_b) = match .. { .. => (true, false), .. }: the booleans travel as fields of a tuple
            for k in [k for k in env if isinstance(k, tuple) and k[0] == l]:
                env.pop(k)
            for i, o in enumerate(rv["ops"]):
                if o.get("ty") == "bool" or (o.get("k") in ("copy", "move") and "p" not in o["pl"] and fn.local_ty(o["pl"]["l"]) == "bool"):
                    v = _operand_value(fn, o, env, atom)
                    if v is not None:
                        env[(l, i)] = v
            continue
        if fn.local_ty(l) != "bool":
            if rv["k"] != "use" or not str(fn.local_ty(l)).startswith("("):
                for k in [k for k in env if isinstance(k, tuple) and k[0] == l]:
                    env.pop(k)
            continue
        v = None
        if rv["k"] == "use":
            v = _operand_value(fn, rv["op"], env, atom)
        elif rv["k"] == "un" and rv["op"] == "Not":
            x = _operand_value(fn, rv["a"], env, atom)
            v = None if x is None else (not x)
        else:
            v = eval3(fn, df.rvalue_expr(fn, rv), env, atom)
        if v is None:
            env.pop(l, None)
        else:
            env[l] = v
    t = fn.blocks[bb]["term"]
    if t["k"] == "call" and "p" not in t["dest"] and fn.local_ty(t["dest"]["l"]) == "bool":
        v = eval3(fn, df.call_expr(fn, t), env, atom)
        if v is None:
            env.pop(t["dest"]["l"], None)
        else:
            env[t["dest"]["l"]] = v
    return env



# ---- variants of enum-valued locals (Option / small enums) travelling through moves, payload projections and aggregates --------------
def _nested_variant(fn, pl, env, valuation):
    """Nested variant names of the value at place pl, e.g. ("Some", "Real"), as far as known: from the valuation of expressions
    (`valuation(expr) -> tuple | None`) or from what was recorded for the base local."""
    if valuation is not None:
        v = valuation(df.place_expr(fn, pl))
        if v:
            return tuple(v)
    base = env.get(("V", pl["l"]))
    if not base:
        return None
    cur = tuple(base)
    for p_ in pl.get("p", []):
        if p_ == "deref":
            continue
        if isinstance(p_, dict) and "downcast" in p_:
            if not cur or cur[0] != p_["downcast"]:
                return None
            continue
        if isinstance(p_, dict) and "f" in p_:
            if p_["f"] != 0:
                return None
            cur = cur[1:]
            continue
        return None
    return cur or None


def _transfer_variants(fn, bb, env, valuation, prog=None):
    for s in fn.blocks[bb]["stmts"]:
        if s["k"] != "assign" or "p" in s["lhs"]:
            continue
        l = s["lhs"]["l"]
        rv = s["rv"]
        v = None
        if rv["k"] == "use" and rv["op"].get("k") in ("copy", "move"):
            v = _nested_variant(fn, rv["op"]["pl"], env, valuation)
        elif rv["k"] == "ref":
            v = _nested_variant(fn, rv["pl"], env, valuation)
        elif rv["k"] == "agg" and rv.get("variant"):
            v = (rv["variant"],)
            if len(rv.get("ops", [])) == 1 and rv["ops"][0].get("k") in ("copy", "move"):
                inner = _nested_variant(fn, rv["ops"][0]["pl"], env, valuation)
                if inner:
                    v = v + tuple(inner)
        if v:
            env[("V", l)] = tuple(v)
        else:
            env.pop(("V", l), None)
    t = fn.blocks[bb]["term"]
    if t["k"] == "call" and "p" not in t["dest"]:
        from .facts import callee_of
        p = callee_of(t).get("path") or ""
        d = t["dest"]["l"]
        env.pop(("V", d), None)
        a0 = t["args"][0] if t["args"] else None
        v0 = _nested_variant(fn, a0["pl"], env, valuation) if a0 is not None and a0.get("k") in ("copy", "move") else None
        if v0 and (p.endswith("Try>::branch") or p.endswith("Try::branch")):
            # `x?`: Ok / Some go on, Err / None leave
            if v0[0] in ("Ok", "Some"):
                env[("V", d)] = ("Continue",) + tuple(v0[1:])
            elif v0[0] in ("Err", "None"):
                env[("V", d)] = ("Break",)
        if v0 and v0[0] in ("Ok", "Err") and (
                (p.startswith("core::result::Result::<T, E>::") and p.split("::")[-1] in ("map_err", "map", "inspect", "inspect_err")) or
                ("ResultExt" in p and p.split("::")[-1] in ("with_context", "context", "compat"))):
            # the outcome (Ok / Err) survives a conversion of the payload
            env[("V", d)] = (v0[0],)
        if v0 and p.startswith("core::option::Option::<T>::"):
            last = p.split("::")[-1]
            if last == "is_some":
                env[d] = (v0[0] == "Some")
            elif last == "is_none":
                env[d] = (v0[0] == "None")
            elif last in ("and_then", "map", "as_ref", "as_mut", "filter", "take", "cloned", "copied", "as_deref") and v0[0] == "None":
                env[("V", d)] = ("None",)
            elif last in ("map", "as_ref", "as_mut", "cloned", "copied", "as_deref") and v0[0] == "Some":
                env[("V", d)] = ("Some",) + (tuple(v0[1:]) if last in ("as_ref", "as_mut", "cloned", "copied") else ())
            elif last == "and_then" and v0[0] == "Some" and prog is not None and len(t["args"]) == 2 and t["args"][1].get("k") == "const":
                # Some(x).and_then(f) = f(x): which variants f can return for a payload of that variant
                rp = (t["args"][1].get("res") or {}).get("rpath") or t["args"][1].get("fn")
                callee = prog.fns.get(rp)
                if callee is not None and callee.arg_count == 1:
                    inner = tuple(v0[1:])

                    def val2(e, inner=inner):
                        return inner if (isinstance(e, tuple) and e[:2] == ("param", 1)) else None
                    envs2 = reach_under(callee, lambda e: None, None, return_envs=True, valuation=val2, prog=prog)
                    rets = {envs2[b_].get(("V", 0)) for b_ in envs2 if callee.blocks[b_]["term"]["k"] == "return"}
                    if len(rets) == 1 and None not in rets:
                        env[("V", d)] = tuple(rets.pop())
    return env


def _join(a, b):
    return {k: v for k, v in a.items() if b.get(k) == v}


def reach_under(fn, atom, variant=None, disabled=(), blocked=(), per_iteration=False, return_envs=False, valuation=None, prog=None, start=None, start_env=None):
    """Set of blocks reachable from the entry under the assumptions (never entering a block in `blocked`).  With per_iteration the
    assumptions describe one iteration of a loop, earlier iterations being arbitrary: what is known about boolean locals is
    forgotten at every loop head."""
    from . import cfg as _cfg
    heads = set(_cfg.loops(fn)) if per_iteration else set()
    variant = variant or (lambda e, adt: None)
    disabled = set(disabled)
    from . import patterns as pt
    dsw = {sw["bb"]: sw for sw in pt.discr_switches(fn, lambda e, rv: True)}
    envs = {0: dict(start_env or {})} if start is None else {b_: dict(start_env or {}) for b_ in start}
    work = list(envs)
    seen_out = {}
    while work:
        bb = work.pop()
        env_in = {} if bb in heads else envs[bb]
        env = _transfer(fn, bb, env_in, atom)
        if valuation is not None:
            env = _transfer_variants(fn, bb, env, valuation, prog)
        t = fn.blocks[bb]["term"]
        succs = [s for s in fn.succs(bb) if (bb, s) not in disabled and not fn.blocks[s]["cleanup"] and s not in blocked]
        if t["k"] == "switch":
            if t["dty"] == "bool":
                v = _operand_value(fn, t["discr"], env, atom)
                be = guards.bool_edges(fn, bb)
                if v is not None and be:
                    f, tr = be
                    succs = [s for s in succs if s == (tr if v else f)]
            elif bb in dsw:
                sw = dsw[bb]
                var = variant(sw["expr"], sw.get("adt"))
                if var is None and valuation is not None:
                    nv = _nested_variant(fn, sw["place"], env, valuation)
                    var = nv[0] if nv else None
                if var is not None:
                    if var in sw["edges"]:
                        succs = [s for s in succs if s == sw["edges"][var][1]]
                    else:
                        named = {e[1] for e in sw["edges"].values()}
                        succs = [s for s in succs if s == sw["otherwise"][1]]
        for s in succs:
            if s not in envs:
                envs[s] = dict(env)
                work.append(s)
            else:
                j = _join(envs[s], env)
                if j != envs[s]:
                    envs[s] = j
                    work.append(s)
    if return_envs:
        out_ = {}
        for bb, e_ in envs.items():
            x = _transfer(fn, bb, ({} if bb in heads else e_), atom)
            if valuation is not None:
                x = _transfer_variants(fn, bb, x, valuation, prog)
            out_[bb] = x
        return out_
    return set(envs)
