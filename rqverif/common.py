"""Shared anchors and helpers for the property modules."""
from . import cfg, dataflow as df, guards
from .facts import callee_of

APPLY_CONFIG = "rapidquilt::apply::ApplyConfig"

A = {
    "main": "rapidquilt::main",
    "run": "rapidquilt::cmd::run",
    "cmd_push": "rapidquilt::cmd::cmd_push",
    "seq": "rapidquilt::apply::sequential::apply_patches",
    "par": "rapidquilt::apply::parallel::apply_patches",
    "apply_worker": "rapidquilt::apply::parallel::apply_worker",
    "save_worker": "rapidquilt::apply::parallel::save_files_worker",
    "parse_patch": "libpatch::patch::unified::parser::parse_patch",
    "read_series": "rapidquilt::cmd::read_series_file",
    "save_applied": "rapidquilt::cmd::save_applied_patches",
}


def external_roots(prog):
    """Local functions that third-party / std code may call without a visible call site:
    methods of impls of non-local traits (Drop, Display, Iterator, Default, Fail, ...)."""
    out = []
    for fn in prog.fns.values():
        if fn.impl_trait and fn.impl_trait not in prog.traits:
            out.append(fn.id)
    return sorted(out)


def dry_run_guards(fn):
    """Bool switches testing `<ApplyConfig>.dry_run` (or, in the function that builds the config, the value
    stored into that field)."""
    same_as_field = []
    for bb, idx, s in fn.stmts():
        if s["k"] == "assign" and s["rv"]["k"] == "agg" and s["rv"].get("adt") == APPLY_CONFIG:
            fields = s["rv"]["fields"]
            if "dry_run" in fields:
                op = s["rv"]["ops"][fields.index("dry_run")]
                same_as_field.append(df.operand_expr(fn, op))

    def extra(e):
        return any(e == x for x in same_as_field) and not (isinstance(e, tuple) and e[0] == "const")
    return guards.field_guards(fn, "dry_run", extra)


def not_dry_run_region(fn):
    """Blocks only reachable when dry_run is false."""
    gs = dry_run_guards(fn)
    return guards.region_of_edges(fn, [g["false_edge"] for g in gs]), gs


def dry_run_any_region(fn):
    gs = dry_run_guards(fn)
    return guards.region_of_edges(fn, [g["false_edge"] for g in gs] + [g["true_edge"] for g in gs]), gs


def calls_to(fn, pred):
    """[(bb, term, callee)] for calls whose resolved callee satisfies pred(callee dict)."""
    out = []
    for bb, t in fn.calls():
        c = callee_of(t)
        if pred(c):
            out.append((bb, t, c))
    return out


def calls_named(fn, *suffixes):
    def pred(c):
        p = c.get("rpath") or ""
        q = c.get("path") or ""
        return any(p == s or p.endswith("::" + s.lstrip(":")) or q == s or q.endswith("::" + s.lstrip(":")) or
                   (not s[0].isalnum() and (p.endswith(s) or q.endswith(s))) or
                   (">" in s and (p.endswith(s) or q.endswith(s))) for s in suffixes)
    return calls_to(fn, pred)


def normal_blocks(fn):
    return [i for i, b in enumerate(fn.blocks) if not b["cleanup"]]


def builder_chain(fn, op):
    """[(method, const_arg or None)] applied to the OpenOptions value reaching `op`; None if it cannot be followed."""
    e = df.operand_expr(fn, op)
    chain = []
    for _ in range(16):
        if not (isinstance(e, tuple) and e and e[0] == "call"):
            return None
        path = e[1]
        if not path.startswith("std::fs::OpenOptions::"):
            return None
        m = path.split("::")[-1]
        if m == "new":
            chain.reverse()
            return chain
        arg = e[2][1] if len(e[2]) > 1 else None
        val = arg[1] if isinstance(arg, tuple) and arg[0] == "const" else None
        chain.append((m, val))
        e = e[2][0]
    return None


def open_chain_flags(fn, term):
    """{method: [const args]} of the OpenOptions builder chain reaching an OpenOptions::open call; None if it cannot be followed."""
    ch = builder_chain(fn, term["args"][0])
    if ch is None:
        # statement style: `let mut o = OpenOptions::new(); o.write(true).create(true); o.mode(m); o.open(path)` - every option set
        # anywhere on the variable the open is made on (flow-insensitive: an option that is set on some path counts as set)
        base = set(df.operand_trace(fn, term["args"][0]))
        news = [t2["dest"]["l"] for b2, t2 in fn.calls() if (callee_of(t2).get("rpath") or "").endswith("OpenOptions::new") and "p" not in t2["dest"]]
        base = {l for l in base if l in news}
        if len(base) != 1:
            return None
        d = {}
        for b2, t2 in fn.calls():
            rp = callee_of(t2).get("rpath") or ""
            if fn.blocks[b2]["cleanup"] or not t2["args"] or not (rp.startswith("std::fs::OpenOptions::") or "OpenOptionsExt" in rp):
                continue
            m = rp.split("::")[-1]
            if m in ("new", "open") or not (set(df.operand_trace(fn, t2["args"][0])) & base):
                continue
            a = t2["args"][1] if len(t2["args"]) > 1 else None
            d.setdefault(m, []).append(a.get("int") if a is not None and a.get("k") == "const" and "int" in a else None)
        return d
    d = {}
    for m, v in ch:
        d.setdefault(m, []).append(v)
    return d


def is_log_open(fn, term):
    """Does this OpenOptions::open call open the applied-patches log?  (append mode, or a path naming .pc/applied-patches)"""
    from . import dataflow as df
    d = open_chain_flags(fn, term)
    if d is not None and d.get("append") == [1]:
        return True
    e = df.operand_expr(fn, term["args"][1])
    return df.mentions_deep(fn, e, lambda x: df.is_const(x, ".pc/applied-patches"))


def error_kinds_tested(fn, source_pred):
    """[(kind name, term/where block)] for every comparison of `io::Error::kind()` of an error that derives from a call satisfying
    source_pred(call expr) with a constant ErrorKind, and every match arm on such a kind() - i.e. the error kinds this function gives
    a meaning of their own."""
    from . import dataflow as df, guards, patterns as pt
    out = []
    for g in guards.find_bool_guards(fn, lambda x: isinstance(x, tuple) and x and x[0] == "call" and x[1].split("::")[-1] in ("eq", "ne") and len(x[2]) == 2):
        a, b = g["expr"][2]
        for k_, c_ in ((a, b), (b, a)):
            if df.is_call(k_, "io::error::Error::kind") and df.mentions(k_, source_pred):
                pv = guards.promoted_value(fn, c_)
                out.append((pv[2] if pv and pv[0] == "enum" else "?", g["bb"]))
    for sw in pt.discr_switches(fn, lambda e, rv: df.is_call(e, "io::error::Error::kind")):
        if df.mentions(sw["expr"], source_pred):
            for var in sw["edges"]:
                out.append((var, sw["bb"]))
    return out


def named_input(x, name):
    """x is the function's input of that name: the parameter, a variable of that name, or the field of that name of a parameter (a
    bundle of arguments passed as one struct)."""
    from . import dataflow as df
    if not isinstance(x, tuple) or not x:
        return False
    if x[0] in ("param", "local") and len(x) > 2 and x[2] == name:
        return True
    return x[0] == "field" and x[2] == name and df.mentions(x[1], lambda y: isinstance(y, tuple) and y and y[0] == "param")


def arg_by_name(prog, t, name, default_index):
    """The operand a call passes for the callee's parameter called `name` (parameters get reordered); the operand at default_index
    when the callee is not a local function or has no parameter of that name."""
    from .facts import callee_of
    callee = prog.fns.get(callee_of(t).get("rpath") or "")
    if callee is not None:
        for i in range(1, callee.arg_count + 1):
            if callee.local_name(i) == name and i - 1 < len(t["args"]):
                return t["args"][i - 1]
    return t["args"][default_index] if default_index < len(t["args"]) else None


def is_min_path(p):
    """`std::cmp::min(a, b)` and `a.min(b)` (Ord::min) are the same function of the same two operands."""
    p = p or ""
    return p in ("core::cmp::min", "core::cmp::Ord::min") or (p.endswith("::min") and "Ord" in p and "Iterator" not in p)


def is_max_path(p):
    p = p or ""
    return p in ("core::cmp::max", "core::cmp::Ord::max") or (p.endswith("::max") and "Ord" in p and "Iterator" not in p)


def is_min_call(e):
    return isinstance(e, tuple) and len(e) > 2 and e[0] == "call" and is_min_path(e[1]) and len(e[2]) == 2


def is_max_call(e, prog=None, depth=2):
    """A call of max - directly or through a local function that does nothing but return one (`max_useable_fuzz`)."""
    if isinstance(e, tuple) and len(e) > 2 and e[0] == "call" and is_max_path(e[1]) and len(e[2]) == 2:
        return True
    if prog is not None and depth and isinstance(e, tuple) and len(e) > 2 and e[0] == "call":
        from . import dataflow as df
        f = prog.fns.get(e[1])
        if f is None:
            c = [g for g in prog.fns.values() if g.id.endswith(e[1]) or e[1].endswith(g.id)]
            f = c[0] if len(c) == 1 else None
        if f is not None:
            rets = df.all_def_exprs(f, 0)
            return len(rets) == 1 and is_max_call(rets[0], prog, depth - 1)
    return False
