"""Fact base: typed access to what the rq-facts driver extracted."""
import os
import re

from . import extract as _extract


class Fn:
    __slots__ = ("id", "crate", "kind", "file", "lo", "hi", "name", "parent", "vis", "arg_count",
                 "locals", "dbg", "blocks", "promoted", "raw", "names", "impl_self", "impl_adt",
                 "impl_trait", "trait_item", "trait_default", "_preds", "_cache", "absorbed_spans")

    def __init__(self, raw, crate):
        self.raw = raw
        self.crate = crate
        self.id = raw["id"]
        self.kind = raw["kind"]
        self.file = raw["file"]
        self.lo = raw["lo"]
        self.hi = raw["hi"]
        self.absorbed_spans = [tuple(x) for x in raw.get("absorbed_spans", [])]   # source ranges of helpers inlined into this function
        self.name = raw.get("name", "")
        self.parent = raw.get("parent")
        self.vis = raw.get("vis")
        self.arg_count = raw["arg_count"]
        self.locals = raw["locals"]
        self.dbg = raw["dbg"]
        self.blocks = raw["blocks"]
        self.promoted = raw.get("promoted", [])
        self.impl_self = raw.get("impl_self")
        self.impl_adt = raw.get("impl_adt")
        self.impl_trait = raw.get("impl_trait")
        self.trait_item = raw.get("trait_item")
        self.trait_default = raw.get("trait_default")
        # local index -> user name (only whole-local debug entries)
        self.names = {}
        for d in self.dbg:
            pl = d["pl"]
            if "p" not in pl:
                self.names.setdefault(pl["l"], d["name"])
        self._preds = None
        self._cache = {}

    # ---- iteration helpers -------------------------------------------------
    def terms(self):
        for i, b in enumerate(self.blocks):
            yield i, b["term"]

    def calls(self):
        """(bb, term) for every call terminator (cleanup blocks included)."""
        for i, b in enumerate(self.blocks):
            t = b["term"]
            if t["k"] == "call":
                yield i, t

    def stmts(self):
        for i, b in enumerate(self.blocks):
            for j, s in enumerate(b["stmts"]):
                yield i, j, s

    def succs(self, bb, unwind=False):
        t = self.blocks[bb]["term"]
        k = t["k"]
        out = []
        if k == "goto":
            out = [t["target"]]
        elif k == "switch":
            out = [x[1] for x in t["targets"]] + [t["otherwise"]]
        elif k in ("call", "drop", "assert"):
            if t.get("target") is not None:
                out = [t["target"]]
            if unwind and t.get("unwind") is not None:
                out = out + [t["unwind"]]
        elif k == "other":
            out = list(t.get("succ", []))
        # edges into empty `unreachable` blocks do not exist at run time
        return [s for s in out if not self._is_unreachable(s)]

    def _is_unreachable(self, bb):
        b = self.blocks[bb]
        return b["term"]["k"] == "unreachable" and not b["stmts"]

    def preds(self):
        if self._preds is None:
            p = {i: [] for i in range(len(self.blocks))}
            for i in range(len(self.blocks)):
                for s in self.succs(i):
                    p[s].append(i)
            self._preds = p
        return self._preds

    def local_ty(self, l):
        return self.locals[l]["ty"]

    def local_name(self, l):
        return self.names.get(l)

    def line_of(self, term_or_stmt):
        sp = term_or_stmt.get("sp")
        return sp[0] if sp else None

    def where(self, term_or_stmt=None):
        ln = self.line_of(term_or_stmt) if term_or_stmt is not None else self.lo
        return "%s:%s" % (self.file, ln)

    def short(self):
        return short_id(self.id)


def short_id(fid):
    return fid


def callee_of(term):
    """Resolved callee description of a call terminator.

    Returns dict with: path (declared callee def path or None for indirect calls),
    rpath (resolved impl path, equals path when not a trait call), rkind, crate,
    trait, self_ty, virtual(bool), closure (path of closure body when calling a closure).
    """
    f = term["func"]
    if f.get("k") != "const" or "fn" not in f:
        return {"path": None, "rpath": None, "indirect": True, "op": f, "rkind": "indirect",
                "crate": None, "trait": None, "self_ty": None, "virtual": False, "fnargs": []}
    res = f.get("res", {}) or {}
    rkind = res.get("rkind")
    rpath = res.get("rpath") if rkind in ("item", "closure_once_shim", "fn_ptr_shim", "reify_shim",
                                             "clone_shim", "drop_glue", "intrinsic", "other") else None
    d = {
        "path": f["fn"],
        "rpath": rpath or f["fn"],
        "rkind": rkind,
        "crate": res.get("rcrate") or res.get("crate"),
        "dcrate": res.get("crate"),
        "trait": res.get("trait"),
        "self_ty": res.get("self_ty"),
        "self_closure": res.get("self_closure"),
        "self_fn": res.get("self_fn"),
        "self_dyn": res.get("self_dyn", False),
        "virtual": rkind == "virtual",
        "fnargs": f.get("fnargs", []),
        "indirect": False,
        "rlocal": res.get("rlocal", False),
    }
    return d


class Program:
    def __init__(self, data):
        self.data = data
        self.fns = {}
        self.crate_of = {}
        self.adts = {}
        self.impls = []
        self.traits = {}
        self.literals = []
        self.consts = {}
        self.nonce = {}
        for crate, d in data.items():
            self.nonce[crate] = d.get("nonce")
            for raw in d["fns"]:
                fn = Fn(raw, crate)
                self.fns[fn.id] = fn
            for a in d["adts"]:
                self.adts[a["id"]] = a
            for im in d["impls"]:
                im = dict(im)
                im["crate"] = crate
                self.impls.append(im)
            for t in d["traits"]:
                self.traits[t["id"]] = t
            for lit in d["literals"]:
                lit = dict(lit)
                lit["crate"] = crate
                self.literals.append(lit)
            for c in d["consts"]:
                self.consts[c["id"]] = c
        self._by_line = None

    # ---- lookup ----------------------------------------------------------------
    def fn(self, fid):
        return self.fns.get(fid)

    def find(self, suffix):
        """All fns whose id ends with `suffix` (on a path-segment boundary)."""
        out = []
        for fid, fn in self.fns.items():
            if fid == suffix or fid.endswith("::" + suffix) or fid.endswith(suffix) and (
                    len(fid) == len(suffix) or fid[-len(suffix) - 1] in ":> "):
                out.append(fn)
        return out

    def one(self, suffix):
        r = self.find(suffix)
        if len(r) != 1:
            raise AnchorError("anchor %r resolves to %d functions: %s" % (suffix, len(r), [f.id for f in r][:5]))
        return r[0]

    def closures_of(self, fn):
        pre = fn.id + "::{closure#"
        # (closures of a helper that was inlined into fn live in fn now: inline.py re-parents them)
        return [f for fid, f in self.fns.items() if fid.startswith(pre) or (f.raw.get("parent") == fn.id and "{closure#" in fid and
                                                                             fid.rsplit("::{closure#", 1)[0] in (fn.raw.get("absorbed") or []))]

    def fn_at(self, file, line):
        """Innermost function (or closure) containing file:line."""
        best = None
        for fn in self.fns.values():
            if fn.file == file and fn.lo <= line <= fn.hi:
                if best is None or (fn.hi - fn.lo) < (best.hi - best.lo) or (
                        (fn.hi - fn.lo) == (best.hi - best.lo) and fn.kind == "Closure"):
                    best = fn
        return best

    def impls_of_trait(self, trait_id):
        return [im for im in self.impls if im.get("trait") == trait_id]

    def virtual_targets(self, trait_method_id):
        """Every function a `dyn Trait` call of `trait_method_id` may run (local crates)."""
        out = []
        tr = None
        mname = None
        for tid, t in self.traits.items():
            for it in t["items"]:
                if it["id"] == trait_method_id:
                    tr = tid
                    mname = it["name"]
                    has_default = it["has_default"]
        if tr is None:
            return out
        for im in self.impls_of_trait(tr):
            hit = [it for it in im["items"] if it.get("trait_item") == trait_method_id]
            if hit:
                out.append(hit[0]["id"])
            elif has_default:
                out.append(trait_method_id)
        return sorted(set(out))


class AnchorError(Exception):
    pass


def load_program(fresh=False):
    d, info = _extract.extract(fresh=fresh)
    data = _extract.load(d)
    from . import inline, renames
    renamed = renames.normalize(data, inline.load_adts())
    renamed += renames.normalize_files(data, inline.load_files())
    n = inline.apply(data)
    prog = Program(data)
    prog.info = dict(info)
    prog.info["inlined_call_sites"] = n
    prog.info["renamed"] = renamed + list(inline.LOCAL_RENAMES)
    return prog


# ---- pretty printing (reports, debugging) --------------------------------------
def place_s(pl, fn=None):
    l = pl["l"]
    s = "_%d" % l
    if fn is not None and fn.local_name(l):
        s = "%s/*%s*/" % (s, fn.local_name(l))
    for e in pl.get("p", []):
        if e == "deref":
            s = "(*%s)" % s
        elif "f" in e:
            s = "%s.%s" % (s, e.get("name", e["f"]))
        elif "index" in e:
            s = "%s[_%d]" % (s, e["index"])
        elif "cindex" in e:
            s = "%s[%s%d]" % (s, "-" if e["from_end"] else "", e["cindex"])
        elif "subslice" in e:
            s = "%s[%s..%s%s]" % (s, e["subslice"][0], "-" if e["subslice"][2] else "", e["subslice"][1])
        elif "downcast" in e:
            s = "(%s as %s)" % (s, e["downcast"])
        else:
            s = "%s.?" % s
    return s


def op_s(op, fn=None):
    k = op.get("k")
    if k in ("copy", "move"):
        return ("move " if k == "move" else "") + place_s(op["pl"], fn)
    if k == "const":
        if "fn" in op:
            return "fn:" + op["fn"]
        if "closure" in op:
            return "closure:" + op["closure"]
        if "int" in op:
            return "const %s_%s" % (op["int"], op["ty"])
        if "bytes" in op:
            return "const b%r" % op["bytes"]
        return "const " + op.get("dbg", "?")
    return "?" + str(op)


def rv_s(rv, fn=None):
    k = rv["k"]
    if k == "use":
        return op_s(rv["op"], fn)
    if k == "ref":
        return ("&mut " if rv["mut"] else "&") + place_s(rv["pl"], fn)
    if k == "rawptr":
        return "&raw " + place_s(rv["pl"], fn)
    if k == "cast":
        return "%s as %s (%s)" % (op_s(rv["op"], fn), rv["ty"], rv["ck"])
    if k == "bin":
        return "%s(%s, %s)" % (rv["op"], op_s(rv["a"], fn), op_s(rv["b"], fn))
    if k == "un":
        return "%s(%s)" % (rv["op"], op_s(rv["a"], fn))
    if k == "discr":
        return "discriminant(%s)" % place_s(rv["pl"], fn)
    if k == "agg":
        nm = rv.get("adt") or rv.get("closure") or rv["ak"]
        if rv.get("variant") and rv.get("ak") == "adt":
            nm += "::" + rv["variant"]
        return "%s{%s}" % (nm, ", ".join(op_s(o, fn) for o in rv["ops"]))
    if k == "repeat":
        return "[%s; %s]" % (op_s(rv["op"], fn), rv["count"])
    return "other(%s)" % rv.get("dbg")


def term_s(t, fn=None):
    k = t["k"]
    if k == "call":
        c = callee_of(t)
        name = c["rpath"] if not c["indirect"] else op_s(t["func"], fn)
        if c.get("virtual"):
            name = "dyn " + c["path"]
        return "%s = %s(%s) -> bb%s unwind %s" % (place_s(t["dest"], fn), name,
                                                    ", ".join(op_s(a, fn) for a in t["args"]), t["target"], t["unwind"])
    if k == "switch":
        return "switch(%s) %s otherwise bb%s" % (op_s(t["discr"], fn), ["%s->bb%s" % (v, b) for v, b in t["targets"]], t["otherwise"])
    if k == "assert":
        return "assert(%s == %s, %s %s) -> bb%s" % (op_s(t["cond"], fn), t["expected"], t["msg"], [op_s(o, fn) for o in t["ops"]], t["target"])
    if k == "goto":
        return "goto bb%s" % t["target"]
    if k == "drop":
        return "drop(%s) -> bb%s" % (place_s(t["pl"], fn), t["target"])
    return k


def dump_fn(fn, out=None):
    import sys
    out = out or sys.stdout
    out.write("fn %s  [%s:%d-%d] kind=%s args=%d\n" % (fn.id, fn.file, fn.lo, fn.hi, fn.kind, fn.arg_count))
    for i, l in enumerate(fn.locals):
        out.write("    let _%d: %s%s\n" % (i, l["ty"], ("  // " + fn.names[i]) if i in fn.names else ""))
    for d in fn.dbg:
        if "p" in d["pl"]:
            out.write("    debug %s => %s\n" % (d["name"], place_s(d["pl"])))
    for i, b in enumerate(fn.blocks):
        out.write("  bb%d%s:\n" % (i, " (cleanup)" if b["cleanup"] else ""))
        for s in b["stmts"]:
            if s["k"] == "assign":
                out.write("    %s = %s;   // L%s\n" % (place_s(s["lhs"], fn), rv_s(s["rv"], fn), s["sp"][0]))
            else:
                out.write("    %s %s\n" % (s["k"], s.get("dbg", s.get("variant", ""))))
        t = b["term"]
        out.write("    %s   // L%s\n" % (term_s(t, fn), (t.get("sp") or ["?"])[0]))
