"""Engine G: flag non-interference.

For every branch whose condition derives from a *presentation* value (a value of type Verbosity, the field
ApplyConfig.stats, the print-once atomics of SharedState) the region up to the immediate post-dominator must be
print-only: it re-joins, assigns nothing that is live afterwards (buffers excepted), does not assign the return
place (other than by `?` on a print-only result), and calls nothing with a file-system / exit effect, nothing that
reaches the aborting rollback API, and nothing that gets `&mut` access to non-buffer state.
"""
import re

from . import callgraph, cfg, dataflow as df, guards, patterns as pt
from .facts import callee_of

VERBOSITY = "rapidquilt::apply::Verbosity"
SHARED = "rapidquilt::apply::parallel::SharedState"
CMP = ("core::cmp::PartialOrd::ge", "core::cmp::PartialOrd::gt", "core::cmp::PartialOrd::le", "core::cmp::PartialOrd::lt",
       "core::cmp::PartialEq::eq", "core::cmp::PartialEq::ne")

BUFFER_TY = re.compile(
    r"^&mut (alloc::string::String|alloc::vec::Vec<u8>|[A-Z][A-Za-z0-9]*|std::io::stdio::(StdoutLock|StderrLock)<'_>|std::io::stdio::(Stdout|Stderr)|std::io::(Stdout|Stderr)|"
    r"core::fmt::Formatter<'_>|std::io::buffered::bufwriter::BufWriter<.*>|dyn std::io::Write|dyn core::fmt::Write)$")
LOCAL_SCRATCH_OK = True


def is_presentation_cond(fn, bb):
    """Does the bool switch at bb test a presentation value?  Returns a short description or None."""
    t = fn.blocks[bb]["term"]
    if t["k"] != "switch" or t["dty"] != "bool":
        return None
    locs = df.operand_trace(fn, t["discr"])
    # direct comparison call on Verbosity
    d = df.defs_of(fn)
    for l in locs:
        for dd in d.all(l):
            if dd[0] == "call":
                c = callee_of(dd[2])
                if c.get("path") in CMP or (c.get("rpath") or "").startswith("<" + VERBOSITY + " as core::cmp::"):
                    st = c.get("self_ty") or ""
                    if VERBOSITY in st or VERBOSITY in (c.get("rpath") or ""):
                        return "verbosity comparison"
            if dd[0] in ("stmt",):
                rv = dd[3]["rv"]
                pls = []
                if rv["k"] in ("use", "cast") and rv["op"].get("k") in ("copy", "move"):
                    pls.append(rv["op"]["pl"])
                if rv["k"] in ("ref",):
                    pls.append(rv["pl"])
                if rv["k"] == "discr":
                    pls.append(rv["pl"])
                for pl in pls:
                    for p in pl.get("p", []):
                        if isinstance(p, dict) and p.get("name") == "stats" and p.get("adt", "").endswith("apply::ApplyConfig"):
                            return "config.stats"
                        if isinstance(p, dict) and p.get("adt") == SHARED:
                            return "SharedState." + str(p.get("name"))
    # a switch directly on a place
    pl = pt.trace_place(fn, t["discr"])
    if pl:
        for p in pl.get("p", []):
            if isinstance(p, dict) and p.get("name") == "stats" and p.get("adt", "").endswith("apply::ApplyConfig"):
                return "config.stats"
    return None


def try_break_edges(fn):
    """Break edges of `?` (Try::branch) switches, and the blocks that only serve error propagation."""
    edges = set()
    tested = {}
    for sw in pt.discr_switches(fn, lambda e, rv: (rv.get("adt") or "").endswith("ControlFlow")):
        if "Break" in sw["edges"]:
            edges.add(sw["edges"]["Break"])
            tested[sw["edges"]["Break"]] = sw
    return edges, tested


class Finding:
    def __init__(self, fn, bb, kind, detail, term=None, what=""):
        self.fn, self.bb, self.kind, self.detail, self.term, self.what = fn, bb, kind, detail, term, what

    def key(self):
        return "%s in %s: %s" % (self.kind, self.fn.id, self.what)


def analyse_function(prog, cg, fn, bad_callees, abort_reach):
    """Returns (branches, findings). bad_callees: fid -> effect label for functions with FS-write/exit effect."""
    findings = []
    branches = []
    brk, tested = try_break_edges(fn)
    for bb, t in fn.terms():
        why = is_presentation_cond(fn, bb)
        if not why:
            continue
        region, join = cfg.ipdom_region(fn, bb, disabled=brk)
        branches.append((bb, why, len(region)))
        where_t = t
        if join is None:
            # does an arm leave the function?
            findings.append(Finding(fn, bb, "region does not re-join",
                                    "a branch on %s has an arm that leaves the function (return/exit) instead of re-joining: "
                                    "the control flow after it depends on a presentation option" % why, t, why))
            continue
        blocked = {join}
        outside = set(range(len(fn.blocks))) - region
        # --- assignments in the region --------------------------------------------------------------
        assigned = {}
        for rb in region:
            b = fn.blocks[rb]
            for s in b["stmts"]:
                if s["k"] == "assign":
                    l = s["lhs"]["l"]
                    assigned.setdefault(l, []).append(s)
                    rv = s["rv"]
                    if rv["k"] in ("ref", "rawptr") and rv.get("mut"):
                        # &mut x handed out: x may be modified
                        pass
            tt = b["term"]
            if tt["k"] == "call":
                assigned.setdefault(tt["dest"]["l"], []).append(tt)
        for l, sites in assigned.items():
            if l == 0:
                # return place: only by from_residual (error of a print-only call) is tolerated
                for s in sites:
                    ok = s.get("k") == "call" and (callee_of(s).get("path") or "").endswith("from_residual")
                    if not ok:
                        findings.append(Finding(fn, bb, "return value assigned under a presentation branch",
                                                "the return value is assigned inside the region of a branch on %s" % why, s, why))
                continue
            name = fn.local_name(l)
            if not name:
                continue
            ty = fn.local_ty(l)
            if is_buffer_ty("&mut " + ty):
                continue
            # live afterwards?  used in a block outside the region that is reachable from the join
            after = cfg.reachable(fn, [join], disabled=None)
            used_after = local_used_in(fn, l, after - region)
            defined_outside = any(dd[1] not in region for dd in df.defs_of(fn).all(l))
            if used_after and (defined_outside or True):
                # a variable declared inside the region cannot be used after it unless it was declared before
                if defined_outside:
                    findings.append(Finding(fn, bb, "live variable assigned under a presentation branch",
                                            "variable `%s` is assigned inside the region of a branch on %s and used afterwards" % (name, why),
                                            sites[0], "%s/%s" % (why, name)))
        # --- calls in the region ----------------------------------------------------------------------
        for rb in sorted(region):
            tt = fn.blocks[rb]["term"]
            if tt["k"] != "call" or fn.blocks[rb]["cleanup"]:
                continue
            c = callee_of(tt)
            rp = c.get("rpath") or ""
            lab = callgraph.fs_write_kind(rp) or callgraph.EXIT.get(rp)
            if lab:
                findings.append(Finding(fn, bb, "effect under a presentation branch",
                                        "%s (%s) is called inside the region of a branch on %s" % (rp, lab, why), tt, "%s/%s" % (why, rp)))
            for s in cg.out.get(fn.id, []):
                if s.term is tt and s.callee in bad_callees:
                    findings.append(Finding(fn, bb, "effect under a presentation branch",
                                            "%s, which can %s, is called inside the region of a branch on %s" % (s.callee, bad_callees[s.callee], why),
                                            tt, "%s/%s" % (why, s.callee)))
                if s.term is tt and s.callee in abort_reach:
                    findings.append(Finding(fn, bb, "aborting API under a presentation branch",
                                            "%s reaches the aborting rollback API and is called inside the region of a branch on %s: "
                                            "whether the process aborts depends on a presentation option" % (s.callee, why), tt,
                                            "%s/%s" % (why, s.callee)))
            # &mut arguments
            for a, aty in zip(tt["args"], tt["argtys"]):
                if aty.startswith("&mut ") and not is_buffer_ty(aty):
                    # &mut to a local that lives only inside the region is scratch state
                    locs = df.operand_trace(fn, a)
                    roots = [l for l in locs if fn.local_name(l)]
                    scratch = bool(roots) and all(l > fn.arg_count and all(dd[1] in region for dd in df.defs_of(fn).all(l))
                                                  for l in roots)
                    iter_like = "iter::" in aty or "Iter<" in aty or "Enumerate<" in aty or "Rev<" in aty or "Drain<" in aty
                    if scratch or iter_like:
                        continue
                    findings.append(Finding(fn, bb, "mutable state under a presentation branch",
                                            "%s receives %s inside the region of a branch on %s" % (rp, aty, why), tt,
                                            "%s/%s/%s" % (why, rp, aty)))
            # atomics other than the print-once flags
            if "sync::atomic::Atomic" in rp and not rp.endswith("::load") and not rp.endswith("::new"):
                locs = df.operand_trace(fn, tt["args"][0]) if tt["args"] else set()
                from_shared = False
                for l in locs:
                    for dd in df.defs_of(fn).all(l):
                        if dd[0] == "stmt" and dd[3]["rv"]["k"] == "ref":
                            for p in dd[3]["rv"]["pl"].get("p", []):
                                if isinstance(p, dict) and p.get("adt") == SHARED:
                                    from_shared = True
                if not from_shared:
                    findings.append(Finding(fn, bb, "atomic update under a presentation branch",
                                            "%s on a non-presentation atomic inside the region of a branch on %s" % (rp, why), tt, "%s/%s" % (why, rp)))
        # `?` inside the region must propagate the error of a print-only call
        for e, sw in tested.items():
            if e[0] in region:
                srcs = df.place_trace(fn, sw["place"])
                printy = False
                for l in srcs:
                    for dd in df.defs_of(fn).all(l):
                        if dd[0] == "call":
                            rp2 = callee_of(dd[2]).get("path") or ""
                            if rp2.endswith("Write::write_fmt") or rp2.endswith("Write::write_str") or rp2.endswith("Write::write_all") \
                                    or rp2.endswith("print_difference_to_closest_match") or rp2.endswith("Write::flush"):
                                printy = True
                if not printy:
                    findings.append(Finding(fn, bb, "error return under a presentation branch",
                                            "a `?` inside the region of a branch on %s propagates the error of a call that is not print-only" % why,
                                            fn.blocks[e[0]]["term"], why))
    # an arm that returns makes everything after the branch "the region": report the cause once
    out = []
    seen_ret = set()
    ret_branches = {f.bb for f in findings if f.kind == "return value assigned under a presentation branch"}
    for f in findings:
        if f.bb in ret_branches:
            if f.kind == "return value assigned under a presentation branch" and f.bb not in seen_ret:
                seen_ret.add(f.bb)
                f.detail = ("an arm of a branch on %s assigns the return value / leaves the function early, so what runs afterwards "
                            "depends on a presentation option (first such assignment reported)" % f.what)
                out.append(f)
            continue
        out.append(f)
    return branches, out


def is_buffer_ty(ty):
    return bool(BUFFER_TY.match(ty))


def local_used_in(fn, l, blocks):
    for bb in blocks:
        b = fn.blocks[bb]
        for s in b["stmts"]:
            if s["k"] == "assign":
                if l in df._rv_locals(s["rv"]):
                    return True
                if s["lhs"]["l"] == l and "p" in s["lhs"]:
                    return True
        t = b["term"]
        if t["k"] == "call":
            for a in t["args"]:
                if l in df._operand_locals(a):
                    return True
        elif t["k"] == "switch":
            if l in df._operand_locals(t["discr"]):
                return True
        elif t["k"] == "assert":
            if l in df._operand_locals(t["cond"]):
                return True
    return False
