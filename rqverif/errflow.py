"""Engine F: error discipline — the fate of a Result value inside a function."""
from . import cfg, dataflow as df, patterns as pt
from .facts import callee_of

WRAPPERS = ("ResultExt<T, E>>::with_context", "ResultExt<T, E>>::context", "failure::Fail::context",
            "result_ext::ResultExt<T, failure::error::Error>>::with_context", "result_ext::ResultExt<T, failure::error::Error>>::context")
PASS_THROUGH = ("Result::<T, E>::and_then", "Result::<T, E>::map", "Result::<T, E>::map_err", "Result::<T, E>::or_else",
                "Result::<T, E>::inspect_err", "Result::<T, E>::inspect", "core::hint::must_use")
DISCARDERS = ("Result::<T, E>::ok", "Result::<T, E>::err", "Result::<T, E>::unwrap_or", "Result::<T, E>::unwrap_or_default",
              "Result::<T, E>::unwrap_or_else", "Result::<T, E>::is_ok", "Result::<T, E>::is_err")
PANICKERS = ("Result::<T, E>::unwrap", "Result::<T, E>::expect", "Result::<T, E>::unwrap_err", "Result::<T, E>::expect_err")
CONVERSIONS = ("convert::Into<U>>::into", "convert::From<", "::from", "::into")


PROG = None      # set by framework.load_all: lets the error-fate analysis look into local closures an error is handed to


def closure_wraps(term):
    """If `term` calls a local closure that wraps its (only) error argument with a context and returns it: True."""
    if PROG is None:
        return False
    c = callee_of(term)
    cid = c.get("self_closure")
    if not cid or cid not in PROG.fns or not (c.get("path") or "").startswith("core::ops::function::Fn"):
        return False
    cl = PROG.fns[cid]
    for p in range(2, cl.arg_count + 1):
        f = fate_of(cl, p)
        if f.wrapped and f.returned and not f.returned_raw:
            return True
    return False


def map_err_wraps(fn, term):
    """`res.map_err(f)` where f is a local closure (directly, or held in a variable) whose error parameter comes back wrapped with a
    context on every path."""
    if PROG is None or len(term["args"]) != 2:
        return False
    from . import dataflow as df
    e = df.operand_expr(fn, term["args"][1])
    if not (isinstance(e, tuple) and e and e[0] == "closure" and e[1] in PROG.fns):
        return False
    cl = PROG.fns[e[1]]
    for p_ in range(2, cl.arg_count + 1):
        f = fate_of(cl, p_)
        if f.wrapped and f.returned and not f.returned_raw:
            return True
    return False


def is_wrapper(path):
    return any(path.endswith(w) or w in path for w in WRAPPERS) and ("context" in path)


class Fate:
    def __init__(self):
        self.dropped = False
        self.unwrapped = False
        self.wrapped = False
        self.returned = False      # reaches the function's return value (raw or wrapped)
        self.returned_raw = False  # ... on a path without a context wrapper
        self.matched = False
        self.discarded = False     # .ok() / is_ok() etc. whose result is not used either
        self.escaped = False       # passed to something we do not follow
        self.trail = []

    def bad(self):
        return self.dropped or self.discarded

    def __repr__(self):
        keys = [k for k in ("dropped", "discarded", "unwrapped", "wrapped", "returned", "returned_raw", "matched", "escaped") if getattr(self, k)]
        return "Fate(%s)" % ",".join(keys)


def uses_of(fn, l):
    """[(kind, bb, obj, extra)] uses of local l as a whole value (moves/copies/refs), excluding drops."""
    out = []
    for bb, idx, s in fn.stmts():
        if s["k"] != "assign":
            continue
        rv = s["rv"]
        if rv["k"] in ("use", "cast") and rv["op"].get("k") in ("copy", "move") and rv["op"]["pl"]["l"] == l:
            out.append(("stmt", bb, s, rv["op"]["pl"]))
        elif rv["k"] in ("ref", "rawptr") and rv["pl"]["l"] == l:
            out.append(("ref", bb, s, rv["pl"]))
        elif rv["k"] == "discr" and rv["pl"]["l"] == l:
            out.append(("discr", bb, s, rv["pl"]))
        elif rv["k"] == "agg":
            for o in rv["ops"]:
                if o.get("k") in ("copy", "move") and o["pl"]["l"] == l:
                    out.append(("agg", bb, s, o["pl"]))
        elif rv["k"] in ("bin", "un"):
            if l in df._rv_locals(rv):
                out.append(("arith", bb, s, None))
    for bb, t in fn.terms():
        if t["k"] == "call":
            for i, a in enumerate(t["args"]):
                if a.get("k") in ("copy", "move") and a["pl"]["l"] == l:
                    out.append(("arg", bb, t, i))
        elif t["k"] == "switch":
            if l in df._operand_locals(t["discr"]):
                out.append(("switch", bb, t, None))
    return out


def fate_of(fn, l, wrapped=False, seen=None, fate=None, depth=0):
    """Follow the Result (or error payload) held in local l."""
    fate = fate or Fate()
    seen = seen if seen is not None else set()
    if l in seen or depth > 24:
        return fate
    seen.add(l)
    if l == 0:
        fate.returned = True
        if not wrapped:
            fate.returned_raw = True
        return fate
    us = [u for u in uses_of(fn, l) if not fn.blocks[u[1]]["cleanup"]]
    if not us:
        fate.dropped = True
        fate.trail.append("unused _%d" % l)
        return fate
    for kind, bb, obj, extra in us:
        if kind == "arg":
            c = callee_of(obj)
            p = c.get("rpath") or ""
            q = c.get("path") or ""
            dest = obj["dest"]["l"] if "p" not in obj["dest"] else None
            if q.endswith("Try::branch"):
                _follow_try(fn, obj, wrapped, seen, fate, depth)
            elif q.endswith("FromResidual::from_residual") or q.endswith("from_residual"):
                if dest is not None and dest != 0:
                    # `?` inside an inlined helper: the early return became an assignment to the helper's result; keep following it
                    fate_of(fn, dest, wrapped, seen, fate, depth + 1)
                else:
                    fate.returned = True
                    if not wrapped:
                        fate.returned_raw = True
            elif is_wrapper(p) or is_wrapper(q) or closure_wraps(obj):
                fate.wrapped = True
                if dest is not None:
                    fate_of(fn, dest, True, seen, fate, depth + 1)
            elif any(p.endswith(x) or q.endswith(x) for x in PASS_THROUGH):
                w2 = wrapped
                if (p.endswith("Result::<T, E>::map_err") or q.endswith("Result::<T, E>::map_err")) and extra == 0 and map_err_wraps(fn, obj):
                    # res.map_err(|e| e.context(..)): the closure puts the context on
                    w2 = True
                    fate.wrapped = True
                if dest is not None:
                    fate_of(fn, dest, w2, seen, fate, depth + 1)
            elif p.endswith("Result::<T, E>::or") or q.endswith("Result::<T, E>::or"):
                # a.or(b): when a is Err its error is replaced by b's outcome, when a is Ok the already evaluated b is dropped
                # with whatever error it holds - either way an error can vanish
                fate.discarded = True
                fate.trail.append("Result::or drops this error (%s)" % ("receiver: replaced by the alternative" if extra == 0 else
                                                                        "alternative: dropped whenever the receiver is Ok"))
            elif any(p.endswith(x) or q.endswith(x) for x in PANICKERS):
                fate.unwrapped = True
            elif any(p.endswith(x) or q.endswith(x) for x in DISCARDERS):
                # is the produced Option/bool used?
                if dest is None or not [u for u in uses_of(fn, dest) if not fn.blocks[u[1]]["cleanup"]]:
                    fate.discarded = True
                    fate.trail.append("%s result unused" % p.split("::")[-1])
                else:
                    fate.matched = True
            elif any(q.endswith(x) for x in CONVERSIONS) or any(p.endswith(x) for x in CONVERSIONS):
                if dest is not None:
                    fate_of(fn, dest, wrapped, seen, fate, depth + 1)
            else:
                fate.escaped = True
                if dest is not None and obj["dty"].startswith("core::result::Result<"):
                    fate_of(fn, dest, wrapped, seen, fate, depth + 1)
        elif kind == "stmt":
            lhs = obj["lhs"]
            if lhs["l"] == 0:
                fate.returned = True
                if not wrapped:
                    fate.returned_raw = True
            elif "p" not in lhs:
                fate_of(fn, lhs["l"], wrapped, seen, fate, depth + 1)
            else:
                fate.escaped = True
        elif kind == "agg":
            lhs = obj["lhs"]
            if lhs["l"] == 0:
                fate.returned = True
                if not wrapped:
                    fate.returned_raw = True
            elif "p" not in lhs:
                # Err(payload) / Some(x) / tuple: follow the aggregate
                fate_of(fn, lhs["l"], wrapped, seen, fate, depth + 1)
            else:
                fate.escaped = True
        elif kind == "discr":
            fate.matched = True
            _follow_payload(fn, l, wrapped, seen, fate, depth)
        elif kind == "ref":
            # borrowed (e.g. err.kind()): inspection
            fate.matched = True
        elif kind in ("switch", "arith"):
            fate.matched = True
    return fate


def _follow_try(fn, branch_term, wrapped, seen, fate, depth):
    dest = branch_term["dest"]["l"]
    # Break payload -> from_residual
    for bb, idx, s in fn.stmts():
        if s["k"] != "assign" or "p" in s["lhs"]:
            continue
        rv = s["rv"]
        if rv["k"] == "use" and rv["op"].get("k") in ("copy", "move"):
            pl = rv["op"]["pl"]
            if pl["l"] == dest and pl.get("p") and isinstance(pl["p"][0], dict) and pl["p"][0].get("downcast") == "Break":
                fate_of(fn, s["lhs"]["l"], wrapped, seen, fate, depth + 1)
    fate.matched = True


def _follow_payload(fn, l, wrapped, seen, fate, depth):
    for bb, idx, s in fn.stmts():
        if s["k"] != "assign" or "p" in s["lhs"]:
            continue
        rv = s["rv"]
        pl = None
        if rv["k"] == "use" and rv["op"].get("k") in ("copy", "move"):
            pl = rv["op"]["pl"]
            by_move = True
        elif rv["k"] == "ref":
            pl = rv["pl"]
            by_move = False
        if pl is None or pl["l"] != l or not pl.get("p"):
            continue
        first = pl["p"][0]
        if isinstance(first, dict) and first.get("downcast") in ("Err", "Break") and by_move:
            fate_of(fn, s["lhs"]["l"], wrapped, seen, fate, depth + 1)


def split_top(s):
    out, depth, cur = [], 0, ""
    for ch in s:
        if ch in "<([":
            depth += 1
        elif ch in ">)]":
            depth -= 1
        if ch == "," and depth == 0:
            out.append(cur.strip())
            cur = ""
        else:
            cur += ch
    if cur.strip():
        out.append(cur.strip())
    return out


def result_error_ty(ty):
    if not ty.startswith("core::result::Result<") or not ty.endswith(">"):
        return None
    parts = split_top(ty[len("core::result::Result<"):-1])
    return parts[-1] if len(parts) >= 2 else None


def error_result_ty(ty):
    e = result_error_ty(ty)
    if e is None:
        return False
    return e in ("std::io::error::Error", "failure::error::Error", "core::fmt::Error") or e.startswith("failure::context::Context<")
