"""Loop progress (termination) with the range engine.

A loop terminates when some measure - the length of a slice that is still to be consumed, or an unsigned counter - is strictly
smaller at every back edge than it was when the iteration started, and is bounded below (lengths and unsigned integers are).  The
value at the start of the iteration is snapshotted into a ghost variable by a block hook at the loop head; after the usual fixpoint the
state on every back edge must entail  measure <= ghost - 1.  Iterator loops over finite std iterators need no measure.
"""
import re
from . import cfg, dataflow as df, patterns as pt, ranges

FINITE_ITERS = ("core::slice::iter::Iter<", "core::slice::iter::IterMut<", "core::ops::range::Range<", "core::ops::range::RangeInclusive<",
                "alloc::vec::into_iter::IntoIter<", "alloc::vec::drain::Drain<", "core::str::iter::", "core::slice::iter::Split<", "core::slice::iter::Chunks<",
                "core::slice::iter::Windows<", "std::collections::hash::", "alloc::collections::", "memchr::", "core::option::", "std::env::Args",
                "core::array::iter::IntoIter<", "smallvec::", "core::slice::iter::RSplit", "std::io::Lines<", "std::io::Split<", "getopts::")
ADAPTORS = ("Enumerate", "Map", "Filter", "FilterMap", "Inspect", "Copied", "Cloned", "Take", "Skip", "TakeWhile", "SkipWhile", "Peekable", "MapWhile", "Fuse",
            "Rev", "Zip", "Chain", "StepBy", "Interleave", "Flatten", "FlatMap", "Scan")
INFINITE = ("core::iter::sources::repeat", "core::iter::adapters::cycle", "core::ops::range::RangeFrom<", "core::iter::sources::successors",
            "core::iter::sources::from_fn", "core::iter::sources::repeat_with")


def finite_iterator_type(ity):
    """Every leaf of the iterator type is a std iterator over finite data (Zip of a finite and an infinite one is finite too, but
    that is not needed here: any infinite leaf makes the answer False, fail closed)."""
    t = ity.replace("&mut ", "").replace("&", "")
    if any(x in t for x in INFINITE):
        return False
    # leaves: type names not followed by an adaptor name
    names = re.findall(r"([A-Za-z_][A-Za-z0-9_:]*)<", t)
    leaves = [n for n in names if n.split("::")[-1] not in ADAPTORS]
    if not leaves:
        return False
    first = leaves[0]
    return any((first + "<").startswith(f) or first.startswith(f.rstrip("<")) for f in FINITE_ITERS)


def range_is_bounded(an, fn, il, body):
    """A `for _ in a..b` loop is finite, but b may be a number read from the input.  True when the iterator is not a bare integer
    range; a reason string when the range's end is bounded by a length or a small constant, or when the loop also ends as soon as
    another finite iterator runs out; None otherwise."""
    ity = il["iter_ty"].replace("&mut ", "")
    if not (ity.startswith("core::ops::range::Range<") or ity.startswith("core::ops::range::RangeInclusive<")):
        return True
    op = il["next_term"]["args"][0]
    try:
        ins, outs, _ = an.analyze(fn, want_obligations=False)
    except Exception:
        ins = None
    if ins is not None and ins[il["head"]] is not None and op.get("k") in ("copy", "move"):
        st = ins[il["head"]]
        P = an.cpath(fn, op["pl"], st)
        ev = ("v", P + ".end")
        ub = st.ub(ev)
        if ub is not None and ub <= 1 << 20:
            return "counts up to at most %d" % ub
        for y, c in st.out.get(ev, {}).items():
            if y != ranges.Z and y[0] == "#" and c <= 1 << 20:
                return "counts up to a bound within %s" % ranges.show_var(y)
    # an exit that is taken when another (finite) iterator is exhausted
    for e_ in il["exit_edges"]:
        if e_ == il["none_edge"] or fn.blocks[e_[1]]["cleanup"]:
            continue
        for g in __import__("rqverif.guards", fromlist=["x"]).find_bool_guards(fn, lambda x: df.is_call(x, "Option::<T>::is_none") and df.is_call(x[2][0], "::next")):
            if g["bb"] in body and (e_ == g["true_edge"] or e_[0] in cfg.dominated_by_edge(fn, g["true_edge"])):
                return "also ends when %s runs out" % df.show(g["expr"][2][0][2][0], 40)
        for sw in pt.discr_switches(fn, lambda x, rv: df.is_call(x, "::next")):
            ne = sw["edges"].get("None")
            if ne and sw["bb"] in body and sw["bb"] != il["head"] and (e_ == ne or e_[0] in cfg.dominated_by_edge(fn, ne)):
                return "also ends when %s runs out" % df.show(sw["expr"][2][0], 40)
    return None


def candidates(fn, body):
    """Measures to try: lengths of slice-typed locals and values of unsigned locals / fields that are assigned inside the loop."""
    out = []
    seen = set()
    for bb, idx, s in fn.stmts():
        if bb not in body or s["k"] != "assign":
            continue
        l = s["lhs"]["l"]
        if not fn.local_name(l):
            continue        # user variables only: the measure should be something a reader can name
        ty = fn.local_ty(l)
        ps = s["lhs"].get("p", [])
        if not ps and (ty.startswith("&[") or ty == "&str" or ty.startswith("&mut [")):
            key = ("#", "L%d" % l)
        elif not ps and ty in ("usize", "u8", "u16", "u32", "u64"):
            key = ("v", "L%d" % l)
        elif ps and all(isinstance(p_, dict) and "f" in p_ for p_ in ps) and ps[-1].get("fty", s["lhs"].get("ty")) in ("usize", "u32", "u64"):
            key = ("v", "L%d" % l + "".join(".%s" % p_.get("name", p_["f"]) for p_ in ps))
        else:
            continue
        if key not in seen:
            seen.add(key)
            out.append((key, fn.local_name(l) + "".join(".%s" % p_.get("name", p_["f"]) for p_ in ps if isinstance(p_, dict))))
    for bb, t in fn.calls():
        # `input` re-assigned as the destination of a call is rare; destinations are temporaries
        pass
    return out


def prove_loop(an, fn, head, body):
    """(measure description, None) when some candidate strictly decreases on every back edge; (None, reason) otherwise."""
    latches = [b for b in fn.preds()[head] if b in body]
    tried = []
    for key, name in candidates(fn, body):
        G = (key[0], "$G")

        def hook(st, key=key, G=G):
            st.forget(G)
            if key[0] == "#":
                an.bound_len(st, key[1])
            st.eq(G, key)
        an.block_hooks = {(fn.id, head): hook}
        try:
            ins, outs, _ = an.analyze(fn, want_obligations=False)
        finally:
            an.block_hooks = {}
        ok = True
        why = ""
        edge_states = []
        for pb in latches:
            if outs[pb] is None:
                continue
            es = an.edge_state(fn, outs[pb], pb, head)
            if es.dead:
                continue
            edge_states.append(es)
            if not an.prove(es, key, 0, G, 0, -1):
                ok = False
                why = an.explain(es, key, G)
        if ok:
            return ("%s(%s) is strictly smaller at every back edge" % ("len" if key[0] == "#" else "value", name)), None
        # a counter that only grows, below something the loop does not change (a length of / a value in an unassigned parameter)
        if key[0] == "v" and edge_states and all(an.prove(es, G, 0, key, 0, -1) for es in edge_states):
            bounds = None
            for es in edge_states:
                bs = {y for y, c in es.out.get(G, {}).items() if y != ranges.Z and an.param_rooted(fn, y)}
                bounds = bs if bounds is None else (bounds & bs)
            if bounds:
                b = sorted(bounds)[0]
                return ("value(%s) grows at every back edge and an iteration is only entered while it is below %s" % (name, ranges.show_var(b))), None
            why = "it grows, but no loop-invariant upper bound is known on the way to the back edge"
        tried.append("%s: %s" % (name, why))
    return None, ("no measure decreases on every back edge; tried %s" % (tried or "nothing (no slice or unsigned variable is assigned in the loop)"))


def check_scope(prog, cg, scope, an):
    """[(fn, head, kind, ok, detail)] for every loop of every function in scope."""
    out = []
    for fid in sorted(scope):
        fn = prog.fns.get(fid)
        if fn is None:
            continue
        loops = cfg.loops(fn)
        if not loops:
            continue
        ils = {il["head"]: il for il in pt.iterator_loops(fn)}
        for head, body in sorted(loops.items()):
            if fn.blocks[head]["cleanup"]:
                continue
            il = ils.get(head)
            if il is not None and finite_iterator_type(il["iter_ty"]):
                why = range_is_bounded(an, fn, il, body)
                if why is True:
                    out.append((fn, head, "iterator", True, "draws from a finite iterator (%s)" % il["iter_ty"][:90]))
                elif why:
                    out.append((fn, head, "iterator", True, "%s (%s)" % (why, il["iter_ty"][:60])))
                else:
                    out.append((fn, head, "iterator", False, "the loop counts up to a number that is not bounded by the size of anything (a value taken from "
                                "the input can make it spin for 2^64 rounds) and no exit depends on another iterator running out"))
                continue
            m, why = prove_loop(an, fn, head, body)
            if m:
                out.append((fn, head, "measure", True, m))
            else:
                kind = "iterator" if il is not None else "loop"
                out.append((fn, head, kind, False, (("iterator type %s is not known to be finite; " % il["iter_ty"][:80]) if il is not None else "") + why))
    return out


def hands_on_remainder(fn, head, body):
    """Weaker, structural form for loops the engine cannot measure: some slice-typed user variable v is (a) given to a call inside the
    loop and (b) re-assigned, on every path from the loop head to a back edge, from a value that derives from the result of such a
    call.  (That the callee returns a strictly shorter remainder is then an assumption, stated with the loop.)  Returns the variable's
    name or None."""
    latches = [b for b in fn.preds()[head] if b in body]
    d = df.defs_of(fn)
    for l, nm in sorted(fn.names.items()):
        ty = fn.local_ty(l)
        if not (ty.startswith("&[") or ty == "&str"):
            continue
        asg = [dd for dd in d.all(l) if dd[0] == "stmt" and dd[1] in body]
        if not asg:
            continue
        good_blocks = set()
        for dd in asg:
            src = df.operand_trace(fn, dd[3]["rv"]["op"]) if dd[3]["rv"]["k"] == "use" else set()
            fed = False
            for sl in src:
                for d2 in d.all(sl):
                    if d2[0] in ("call", "pcall") and d2[1] in body:
                        t = d2[2]
                        # the call was given the variable itself (its value at that point in the iteration)
                        if any(a.get("k") in ("copy", "move") and l in df.operand_trace(fn, a) for a in t["args"]):
                            fed = True
            if fed:
                good_blocks.add(dd[1])
        if not good_blocks:
            continue
        r = cfg.reachable(fn, [sx for sx in fn.succs(head) if sx in body], blocked=good_blocks)
        # blocks of the body reachable from the head without passing a good assignment must not include a latch
        if not [b for b in latches if b in r and b not in good_blocks]:
            return nm
    return None


GROWERS = ("Vec::<T, A>::push", "Vec::<T, A>::insert", "Vec::<T, A>::extend_from_slice", "Vec::<T, A>::resize", "String::push_str", "String::push",
           "SmallVec::<A>::push", "SmallVec<A>::push", "VecDeque::<T, A>::push_back", "::extend")


def _every_alternative_is_a_call_result(fn, op):
    e = df.operand_expr(fn, op)
    alts = df.alternatives(fn, e) or [e]

    def strip(x, depth=0):
        while isinstance(x, tuple) and x and x[0] in ("field", "downcast", "ref", "deref", "cast") and len(x) > 1 and depth < 40:
            x = x[1]
            depth += 1
        return x
    out = []
    for a in alts:
        a = strip(a)
        if isinstance(a, tuple) and a and a[0] == "agg" and len(a) > 3:
            # a tuple / Ok(..) built in an arm: look at what is put in (any component that is a plain variable disqualifies)
            comps = [strip(c) for c in a[3]] if isinstance(a[3], (list, tuple)) else []
            out.append(all(isinstance(c, tuple) and c and c[0] in ("call", "const", "agg") for c in comps))
        else:
            out.append(isinstance(a, tuple) and bool(a) and a[0] == "call")
    return all(out)


def _consuming_blocks(fn, body):
    """Blocks of the loop body that re-assign a slice-typed user variable from (something derived from) the result of a call that was
    given that variable: the remaining input moves on."""
    d = df.defs_of(fn)
    good = set()
    for l, nm in sorted(fn.names.items()):
        ty = fn.local_ty(l)
        if not (ty.startswith("&[") or ty == "&str"):
            continue
        for dd in d.all(l):
            if dd[0] != "stmt" or dd[1] not in body:
                continue
            src = df.operand_trace(fn, dd[3]["rv"]["op"]) if dd[3]["rv"]["k"] == "use" else set()
            if dd[3]["rv"]["k"] == "use" and not _every_alternative_is_a_call_result(fn, dd[3]["rv"]["op"]):
                continue        # on some way the "new" remainder is the old one (`(input, pad)` standing in for a parsed line)
            for sl in src:
                for d2 in d.all(sl):
                    if d2[0] in ("call", "pcall") and d2[1] in body and \
                            any(a.get("k") in ("copy", "move") and l in df.operand_trace(fn, a) for a in d2[2]["args"]):
                        good.add(dd[1])
    # ... or advance a cursor into it: `index += c` (c >= 1) for a variable that is used to index / `get` a slice inside the loop
    from .facts import callee_of
    cursors = set()
    for bb in body:
        t = fn.blocks[bb]["term"]
        if t["k"] == "call" and not fn.blocks[bb]["cleanup"]:
            rp = callee_of(t).get("rpath") or callee_of(t).get("path") or ""
            if rp.endswith(("::get", "Index<I>>::index", "::get_unchecked")) and len(t["args"]) >= 2 and \
                    (t["argtys"][0] if t["argtys"] else "").lstrip("&").startswith("["):
                cursors |= {l for l in df.operand_trace(fn, t["args"][1]) if fn.names.get(l)}
        elif t["k"] == "assert" and "BoundsCheck" in str(t.get("msg")):
            cursors |= {l for l in df._operand_locals(t["cond"]) if fn.names.get(l)} if isinstance(t.get("cond"), dict) else set()
    for l in cursors:
        if not str(fn.local_ty(l)).startswith(("usize", "u32", "u64")):
            continue
        for dd in d.all(l):
            if dd[0] != "stmt" or dd[1] not in body:
                continue
            e = df.rvalue_expr(fn, dd[3]["rv"])
            x = e
            if isinstance(x, tuple) and x and x[0] == "field" and x[2] == 0 and isinstance(x[1], tuple) and x[1] and x[1][0] in ("bin", "chk"):
                x = x[1]
            if isinstance(x, tuple) and len(x) > 3 and x[0] in ("bin", "chk") and str(x[1]).startswith("Add") and \
                    isinstance(x[3], tuple) and x[3][0] == "const" and isinstance(x[3][1], int) and x[3][1] >= 1 and \
                    df.mentions(x[2], lambda y: isinstance(y, tuple) and y and y[0] in ("local", "var") and y[1] == l):
                good.add(dd[1])
    return good


def unpaid_growth(fn, head, body):
    """Growth sites (push / insert / extend ...) of a loop that can be crossed on a way round the loop on which no input is consumed.
    Returns [(bb, term)]."""
    from .facts import callee_of
    latches = [b for b in fn.preds()[head] if b in body]
    good = _consuming_blocks(fn, body)
    out = []
    for bb in sorted(body):
        t = fn.blocks[bb]["term"]
        if t["k"] != "call" or fn.blocks[bb]["cleanup"]:
            continue
        rp = callee_of(t).get("rpath") or callee_of(t).get("path") or ""
        if not rp.endswith(GROWERS) or bb in good:
            continue
        to_g = cfg.reachable(fn, [sx for sx in fn.succs(head) if sx in body and sx not in good], blocked=good | {head})
        if bb not in to_g and bb != head:
            continue
        from_g = cfg.reachable(fn, [sx for sx in fn.succs(bb) if sx in body and sx not in good], blocked=good | {head})
        if any(l_ in from_g or l_ == bb for l_ in latches):
            out.append((bb, t))
    return out
