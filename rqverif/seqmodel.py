"""Engine H: finite-order model of integer terms and iterator terms extracted from MIR.

An integer term built from named symbols, small constants, + / -, casts, min / max is a piecewise-linear function with unit
coefficients; an iterator term built from Range / RangeInclusive / rev / interleave / chain over such terms is a sequence whose
membership and relative order depend only on the *ordering* of the symbols and on gaps no larger than the constants involved.
Statements of the form "every p in [lo, hi] occurs" or "occurrences are sorted by a key of the same shape" therefore have the
small-model property: if they fail for some valuation they fail for one in which every symbol lies within a window of width
O(#symbols * max-constant).  `valuations` enumerates such a window; the caller states which symbols are lengths (>= 0).

Nothing of /repo is executed: the terms are read off the MIR expression trees (dataflow.operand_expr) and interpreted here.
Anything outside the listed constructors raises Unsupported — the caller reports a lost anchor rather than guessing.
"""
import itertools

from . import dataflow as df


class Unsupported(Exception):
    pass


def strip(e):
    """Peel reference-only wrappers that do not change the value (`&*x`, deref calls, into_iter)."""
    while True:
        if isinstance(e, tuple) and e and e[0] == "ref":
            e = e[1]
        elif isinstance(e, tuple) and e and e[0] == "call" and e[1].endswith(("IntoIterator::into_iter", "Deref::deref", "Deref>::deref",
                                                                               "Vec::<T, A>::as_slice", "AsRef<[T]>>::as_ref")) and len(e[2]) == 1:
            e = e[2][0]
        else:
            return e


class Model:
    """symbols: list of (name, matcher) where matcher(expr) -> bool decides that an expression *is* that symbol."""

    def __init__(self, symbols):
        self.symbols = symbols
        self.max_const = 0
        self.used = set()

    def sym(self, e):
        for name, m in self.symbols:
            if m(e):
                self.used.add(name)
                return name
        return None

    # ---- integer terms ----------------------------------------------------------------------------------------------
    def val(self, e, env):
        e = strip(e)
        s = self.sym(e)
        if s is not None:
            return env[s]
        if not isinstance(e, tuple) or not e:
            raise Unsupported("term %r" % (e,))
        k = e[0]
        if k == "const" and isinstance(e[1], int):
            self.max_const = max(self.max_const, abs(e[1]))
            return e[1]
        if k == "cast":
            return self.val(e[1], env)
        if k == "field" and e[2] == 0 and isinstance(e[1], tuple) and e[1][0] == "bin" and e[1][1].endswith("WithOverflow"):
            return self.val(("bin", e[1][1][:-len("WithOverflow")], e[1][2], e[1][3]), env)
        if k == "bin" and e[1] in ("Add", "Sub", "AddUnchecked", "SubUnchecked"):
            a, b = self.val(e[2], env), self.val(e[3], env)
            return a + b if e[1].startswith("Add") else a - b
        if k == "call":
            name = e[1]
            if name.endswith(("core::cmp::min", "Ord::min", "cmp::Ord::min")) and len(e[2]) == 2:
                return min(self.val(e[2][0], env), self.val(e[2][1], env))
            if name.endswith(("core::cmp::max", "Ord::max", "cmp::Ord::max")) and len(e[2]) == 2:
                return max(self.val(e[2][0], env), self.val(e[2][1], env))
            if name.endswith(">::saturating_sub") and len(e[2]) == 2:
                return max(0, self.val(e[2][0], env) - self.val(e[2][1], env))
        raise Unsupported("integer term %s" % df.show(e, 100))

    def boolval(self, e, env):
        neg = False
        while isinstance(e, tuple) and e and e[0] == "un" and e[1] == "Not":
            e, neg = e[2], not neg
        if isinstance(e, tuple) and e and e[0] == "bin" and e[1] in ("Lt", "Le", "Gt", "Ge", "Eq", "Ne"):
            a, b = self.val(e[2], env), self.val(e[3], env)
            r = {"Lt": a < b, "Le": a <= b, "Gt": a > b, "Ge": a >= b, "Eq": a == b, "Ne": a != b}[e[1]]
            return r != neg
        raise Unsupported("condition %s" % df.show(e, 100))

    # ---- iterator terms ---------------------------------------------------------------------------------------------
    def seq(self, e, env):
        e = strip(e)
        if not isinstance(e, tuple) or not e:
            raise Unsupported("iterator %r" % (e,))
        if e[0] == "call":
            name, args = e[1], e[2]
            if name.endswith("RangeInclusive::<Idx>::new") and len(args) == 2:
                return list(range(self.val(args[0], env), self.val(args[1], env) + 1))
            if name.endswith("Iterator::rev") and len(args) == 1:
                return list(reversed(self.seq(args[0], env)))
            if name.endswith("Itertools::interleave") and len(args) == 2:
                a, b = self.seq(args[0], env), self.seq(args[1], env)
                out = []
                for x, y in itertools.zip_longest(a, b, fillvalue=None):
                    if x is not None:
                        out.append(x)
                    if y is not None:
                        out.append(y)
                return out
            if name.endswith("Iterator::chain") and len(args) == 2:
                return self.seq(args[0], env) + self.seq(args[1], env)
        if e[0] == "agg" and e[1].endswith("ops::range::Range") and len(e[3]) == 2:
            return list(range(self.val(e[3][0], env), self.val(e[3][1], env)))
        if e[0] == "agg" and e[1].endswith("ops::range::RangeInclusive") and len(e[3]) >= 2:
            return list(range(self.val(e[3][0], env), self.val(e[3][1], env) + 1))
        raise Unsupported("iterator term %s" % df.show(e, 100))


def valuations(free, lengths, width):
    """All assignments: length symbols in [0, width], free symbols in [-width//2 - 1, 2 * width]."""
    names = list(lengths) + list(free)
    doms = [range(0, width + 1)] * len(lengths) + [range(-(width // 2) - 1, 2 * width + 1)] * len(free)
    for vals in itertools.product(*doms):
        yield dict(zip(names, vals))
