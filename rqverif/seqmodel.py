"""Engine H: finite-order model of integer terms and iterator terms extracted from MIR.

An integer term built from named symbols, small constants, + / -, casts, min / max is a piecewise-linear function with unit
coefficients; an iterator term built from Range / RangeInclusive / rev / interleave / chain over such terms is a sequence whose
membership and relative order depend only on the *ordering* of the symbols and on gaps no larger than the constants involved.
Statements of the form "every p in [lo, hi] occurs" or "occurrences are sorted by a key of the same shape" therefore have the
small-model property: if they fail for some valuation they fail for one in which every symbol lies within a window of width
O(#symbols * max-constant).  `valuations` enumerates such a window; the caller states which symbols are lengths (>= 0).

Nothing of /repo is executed: the terms are read off the MIR expression trees (dataflow.operand_expr) and interpreted here.
Anything outside the listed constructors raises Unsupported — the caller reports a lost anchor rather than guessing.
"""
import itertools

from . import dataflow as df


class Unsupported(Exception):
    pass


def strip(e):
    """Peel reference-only wrappers that do not change the value (`&*x`, deref calls, into_iter)."""
    while True:
        if isinstance(e, tuple) and e and e[0] == "ref":
            e = e[1]
        elif isinstance(e, tuple) and e and e[0] == "call" and e[1].endswith(("IntoIterator::into_iter", "Deref::deref", "Deref>::deref",
                                                                               "Vec::<T, A>::as_slice", "AsRef<[T]>>::as_ref")) and len(e[2]) == 1:
            e = e[2][0]
        else:
            return e


def subst(e, args):
    """Replace ("param", i, name) by args[i-1] throughout an expression tree."""
    if not isinstance(e, tuple):
        return e
    if len(e) == 3 and e[0] == "param" and isinstance(e[1], int):
        return args[e[1] - 1] if 0 < e[1] <= len(args) else e
    return tuple(subst(x, args) for x in e)


def return_shape(prog, path):
    """How a local function computes its result: ("expr", e) | ("cases", subject, {variant: e}) | None.

    "cases": the function is a `match self.<path-constant enum field>` whose arms each assign the result once."""
    from . import patterns as pt, cfg
    fn = prog.fns.get(path)
    if fn is None:
        return None
    cached = fn._cache.get("return_shape", 0)
    if cached != 0:
        return cached

    def def_expr(dd):
        return df.rvalue_expr(fn, dd[3]["rv"]) if dd[0] == "stmt" else df.call_expr(fn, dd[2])
    res = None
    d0 = [dd for dd in df.defs_of(fn).all(0) if dd[0] in ("stmt", "call") and not fn.blocks[dd[1]]["cleanup"]]
    if len(d0) == 1 and len(df.defs_of(fn).all(0)) == 1:
        e = def_expr(d0[0])
        if isinstance(e, tuple) and e and e[0] == "local":
            dl = [dd for dd in df.defs_of(fn).all(e[1]) if dd[0] in ("stmt", "call")]
            sws = pt.discr_switches(fn, lambda ex, rv: isinstance(ex, tuple) and ex[0] == "field" and isinstance(ex[1], tuple) and ex[1][0] == "param")
            if len(sws) == 1 and len(dl) == len(df.defs_of(fn).all(e[1])) and dl:
                sw = sws[0]
                cases = {}
                okc = True
                for var, edge in sw["edges"].items():
                    reg = cfg.dominated_by_edge(fn, edge)
                    here = [dd for dd in dl if dd[1] in reg]
                    if len(here) != 1:
                        okc = False
                        break
                    cases[var] = def_expr(here[0])
                if okc and len(cases) == len(dl):
                    res = ("cases", sw["expr"], cases)
        else:
            res = ("expr", close_expr(fn, e))
    fn._cache["return_shape"] = res
    return res


def push_field(b, k):
    """b.k, pushed into the arms of an if-then-else / case term and simplified on tuples."""
    if isinstance(b, tuple) and b:
        if b[0] == "ite":
            return ("ite", b[1], push_field(b[2], k), push_field(b[3], k))
        if b[0] == "case":
            return ("case", b[1], tuple((v, push_field(x, k)) for v, x in b[2]))
        if b[0] == "agg" and b[1] == "tuple" and isinstance(k, int) and k < len(b[3]):
            return b[3][k]
    return ("field", b, k)


def close_expr(fn, e, depth=0):
    """e with the locals of fn that are assigned on several arms replaced by if-then-else / case terms, promoted enum constants made
    explicit (("enumconst", adt, variant)) and field projections pushed into the arms: an expression a caller can evaluate without
    access to fn's locals."""
    from . import guards
    if not isinstance(e, tuple) or not e or depth > 24:
        return e
    if e[0] == "local":
        e2 = ite_expr(fn, e)
        return close_expr(fn, e2, depth + 1) if e2 != e else e
    if e[0] == "constitem":
        pv = guards.promoted_value(fn, e)
        if pv and pv[0] == "enum":
            return ("enumconst", pv[1], pv[2])
        return e
    if e[0] == "ite":
        return ("ite", close_expr(fn, e[1], depth + 1), close_expr(fn, e[2], depth + 1), close_expr(fn, e[3], depth + 1))
    if e[0] == "case":
        return ("case", close_expr(fn, e[1], depth + 1), tuple((v, close_expr(fn, x, depth + 1)) for v, x in e[2]))
    if e[0] == "field":
        return push_field(close_expr(fn, e[1], depth + 1), e[2])
    out = [e[0]]
    for c in e[1:]:
        if isinstance(c, tuple) and c and isinstance(c[0], str):
            out.append(close_expr(fn, c, depth + 1))
        elif isinstance(c, tuple):
            out.append(tuple(close_expr(fn, y, depth + 1) if isinstance(y, tuple) else y for y in c))
        else:
            out.append(c)
    return tuple(out)


def ite_expr(fn, e, depth=0):
    """Expand a local that is assigned on the arms of boolean branches and / or enum matches into nested
    ("ite", cond, e_true, e_false) / ("case", subject, {variant: expr}) terms."""
    from . import guards, cfg, patterns as pt
    if depth > 4 or not (isinstance(e, tuple) and e and e[0] == "local"):
        return e
    ds = [dd for dd in df.defs_of(fn).all(e[1]) if not fn.blocks[dd[1]]["cleanup"]]
    if len(ds) == 1 and ds[0][0] == "stmt" and ds[0][3]["rv"]["k"] == "use":
        # a plain copy of another local (e.g. the result of a helper that was inlined): look through it
        x = df.rvalue_expr(fn, ds[0][3]["rv"])
        return ite_expr(fn, x, depth + 1) if (isinstance(x, tuple) and x and x[0] == "local" and x[1] != e[1]) else e
    if len(ds) < 2 or len(ds) > 8 or any(dd[0] not in ("stmt", "call") for dd in ds):
        return e

    def dexpr(dd):
        x = df.rvalue_expr(fn, dd[3]["rv"]) if dd[0] == "stmt" else df.call_expr(fn, dd[2])
        return ite_expr(fn, x, depth + 1)
    bguards = guards.find_bool_guards(fn, lambda x: True)
    dsw = pt.discr_switches(fn, lambda ex, rv: True)

    def build(group, lvl=0):
        if len(group) == 1:
            return dexpr(group[0])
        if lvl > 4:
            return None
        for g in bguards:
            tr, fr = cfg.dominated_by_edge(fn, g["true_edge"]), cfg.dominated_by_edge(fn, g["false_edge"])
            a = [dd for dd in group if dd[1] in tr]
            b = [dd for dd in group if dd[1] in fr]
            if a and b and len(a) + len(b) == len(group):
                x, y = build(a, lvl + 1), build(b, lvl + 1)
                if x is not None and y is not None:
                    return ("ite", g["expr"], x, y)
        for sw in dsw:
            parts, used = {}, 0
            for var, edge in sw["edges"].items():
                reg = cfg.dominated_by_edge(fn, edge)
                sub = [dd for dd in group if dd[1] in reg]
                if sub:
                    parts[var] = sub
                    used += len(sub)
            if len(parts) >= 2 and used == len(group):
                built = {var: build(sub, lvl + 1) for var, sub in parts.items()}
                if all(v is not None for v in built.values()):
                    return ("case", sw["expr"], tuple(sorted(built.items())))
        return None
    r = build(ds)
    return r if r is not None else e


class Model:
    """symbols: list of (name, matcher) where matcher(expr) -> bool decides that an expression *is* that integer symbol.
    seqsyms: the same for sequence-valued expressions (the symbol stands for the sequence's length).
    enumsyms: [(name, matcher)] for path-constant enum values; env[name] is the variant name.
    prog: when given, calls of local functions with a single return expression (or a match on an enum symbol) are inlined."""

    def __init__(self, symbols, prog=None, seqsyms=(), enumsyms=(), fn=None):
        self.fn = fn          # when given, a local assigned once on each side of a branch is read as if-then-else
        self.symbols = symbols
        self.seqsyms = list(seqsyms)
        self.enumsyms = list(enumsyms)
        self.prog = prog
        self.max_const = 0
        self.used = set()

    def norm(self, e, env, depth=0):
        """Inline local calls bottom-up (choosing match arms by the enum symbols of env)."""
        if not isinstance(e, tuple) or not e or self.prog is None or depth > 10:
            return e
        if self.sym(e) is not None or self.seqsym(e) is not None:
            return e
        e = tuple(self.norm(x, env, depth) if isinstance(x, tuple) else x for x in e)
        if isinstance(e[0], str) and e[0] == "call" and e[1] in self.prog.fns:
            if self.sym(e) is not None or self.seqsym(e) is not None:
                return e
            shape = return_shape(self.prog, e[1])
            if shape is None:
                return e
            if shape[0] == "expr":
                return self.norm(subst(shape[1], e[2]), env, depth + 1)
            subj = self.norm(subst(shape[1], e[2]), env, depth + 1)
            for name, m in self.enumsyms:
                if m(subj) and env.get(name) in shape[2]:
                    self.used.add(name)
                    return self.norm(subst(shape[2][env[name]], e[2]), env, depth + 1)
        return e

    def prepared(self, e, env):
        key = (e, tuple(env.get(n) for n, _ in self.enumsyms))
        c = self.__dict__.setdefault("_ncache", {})
        if key not in c:
            c[key] = self.norm(e, env)
        return c[key]

    def V(self, e, env):
        return self.val(self.prepared(e, env), env)

    def S(self, e, env):
        return self.seq(self.prepared(e, env), env)

    def B(self, e, env):
        return self.boolval(self.prepared(e, env), env)

    def L(self, e, env):
        return self.seqlen(self.prepared(e, env), env)

    def seqsym(self, e):
        for name, m in self.seqsyms:
            if m(e):
                self.used.add(name)
                return name
        return None

    def seqlen(self, e, env):
        """Length of a sequence-valued expression."""
        e = strip(e)
        s = self.seqsym(e)
        if s is not None:
            return env[s]
        if isinstance(e, tuple) and e and e[0] == "ite":
            return self.seqlen(e[2], env) if self.boolval(e[1], env) else self.seqlen(e[3], env)
        if isinstance(e, tuple) and e and e[0] == "case":
            for name, m in self.enumsyms:
                if m(strip(e[1])):
                    self.used.add(name)
                    for var, sub in e[2]:
                        if var == env.get(name):
                            return self.seqlen(sub, env)
            raise Unsupported("match on %s" % df.show(e[1], 60))
        if isinstance(e, tuple) and e and e[0] == "call" and e[1].endswith(("Index<I>>::index", "Index<I> for [T]>::index")) and len(e[2]) == 2:
            base, rg = e[2]
            if isinstance(rg, tuple) and rg[0] == "agg":
                if rg[1].endswith("ops::range::Range") and len(rg[3]) == 2:
                    return self.val(rg[3][1], env) - self.val(rg[3][0], env)
                if rg[1].endswith("ops::range::RangeFrom") and len(rg[3]) == 1:
                    return self.seqlen(base, env) - self.val(rg[3][0], env)
                if rg[1].endswith("ops::range::RangeTo") and len(rg[3]) == 1:
                    return self.val(rg[3][0], env)
                if rg[1].endswith("ops::range::RangeFull"):
                    return self.seqlen(base, env)
        raise Unsupported("length of %s" % df.show(e, 100))

    def sym(self, e):
        for name, m in self.symbols:
            if m(e):
                self.used.add(name)
                return name
        return None

    # ---- integer terms ----------------------------------------------------------------------------------------------
    def val(self, e, env):
        e = strip(e)
        s = self.sym(e)
        if s is not None:
            return env[s]
        if not isinstance(e, tuple) or not e:
            raise Unsupported("term %r" % (e,))
        k = e[0]
        if k == "const" and isinstance(e[1], int):
            self.max_const = max(self.max_const, abs(e[1]))
            return e[1]
        if k == "cast":
            return self.val(e[1], env)
        if k == "discr":
            # the discriminant of an enum value, as a token that only supports == / != (a derived PartialEq compares these)
            x = strip(e[1])
            if isinstance(x, tuple) and x and x[0] == "enumconst":
                return "variant:" + str(x[2])
            for name, m in self.enumsyms:
                if m(x):
                    self.used.add(name)
                    return "variant:" + str(env.get(name))
            raise Unsupported("discriminant of %s" % df.show(x, 60))
        if k == "local" and self.fn is not None:
            e2 = ite_expr(self.fn, e)
            if e2 != e:
                return self.val(e2, env)
        if k == "case":
            for name, m in self.enumsyms:
                if m(e[1]):
                    self.used.add(name)
                    for var, sub in e[2]:
                        if var == env.get(name):
                            return self.val(sub, env)
            raise Unsupported("match on %s" % df.show(e[1], 60))
        if k == "ite":
            return self.val(e[2], env) if self.boolval(e[1], env) else self.val(e[3], env)
        if k == "field" and e[2] == 0 and isinstance(e[1], tuple) and e[1][0] == "bin" and e[1][1].endswith("WithOverflow"):
            return self.val(("bin", e[1][1][:-len("WithOverflow")], e[1][2], e[1][3]), env)
        if k == "bin" and e[1] in ("Add", "Sub", "AddUnchecked", "SubUnchecked"):
            a, b = self.val(e[2], env), self.val(e[3], env)
            return a + b if e[1].startswith("Add") else a - b
        if k == "call":
            name = e[1]
            if name.endswith(("core::cmp::min", "Ord::min", "cmp::Ord::min")) and len(e[2]) == 2:
                return min(self.val(e[2][0], env), self.val(e[2][1], env))
            if name.endswith(("core::cmp::max", "Ord::max", "cmp::Ord::max")) and len(e[2]) == 2:
                return max(self.val(e[2][0], env), self.val(e[2][1], env))
            if name.endswith(">::saturating_sub") and len(e[2]) == 2:
                return max(0, self.val(e[2][0], env) - self.val(e[2][1], env))
            if name.endswith("::len") and len(e[2]) == 1 and (self.seqsyms or self.prog is not None):
                return self.seqlen(e[2][0], env)
        raise Unsupported("integer term %s" % df.show(e, 100))

    def boolval(self, e, env):
        neg = False
        while isinstance(e, tuple) and e and e[0] == "un" and e[1] == "Not":
            e, neg = e[2], not neg
        if isinstance(e, tuple) and e and e[0] == "bin" and e[1] in ("Lt", "Le", "Gt", "Ge", "Eq", "Ne"):
            a, b = self.val(e[2], env), self.val(e[3], env)
            r = {"Lt": a < b, "Le": a <= b, "Gt": a > b, "Ge": a >= b, "Eq": a == b, "Ne": a != b}[e[1]]
            return r != neg
        if isinstance(e, tuple) and e and e[0] == "call" and e[1].endswith("::is_empty") and len(e[2]) == 1:
            return (self.seqlen(e[2][0], env) == 0) != neg
        if isinstance(e, tuple) and e and e[0] == "call" and e[1].split("::")[-1] in ("eq", "ne") and len(e[2]) == 2:
            # <enum symbol> == / != <enum constant>
            for x, y in ((e[2][0], e[2][1]), (e[2][1], e[2][0])):
                if isinstance(y, tuple) and y and y[0] == "enumconst":
                    for name, m in self.enumsyms:
                        if m(strip(x)):
                            self.used.add(name)
                            same = env.get(name) == y[2]
                            return (same if e[1].split("::")[-1] == "eq" else not same) != neg
        raise Unsupported("condition %s" % df.show(e, 100))

    # ---- iterator terms ---------------------------------------------------------------------------------------------
    def seq(self, e, env):
        e = strip(e)
        if not isinstance(e, tuple) or not e:
            raise Unsupported("iterator %r" % (e,))
        if e[0] == "call":
            name, args = e[1], e[2]
            if name.endswith("RangeInclusive::<Idx>::new") and len(args) == 2:
                return list(range(self.val(args[0], env), self.val(args[1], env) + 1))
            if name.endswith("Iterator::rev") and len(args) == 1:
                return list(reversed(self.seq(args[0], env)))
            if name.endswith("Itertools::interleave") and len(args) == 2:
                a, b = self.seq(args[0], env), self.seq(args[1], env)
                out = []
                for x, y in itertools.zip_longest(a, b, fillvalue=None):
                    if x is not None:
                        out.append(x)
                    if y is not None:
                        out.append(y)
                return out
            if name.endswith("Iterator::chain") and len(args) == 2:
                return self.seq(args[0], env) + self.seq(args[1], env)
        if e[0] == "agg" and e[1].endswith("ops::range::Range") and len(e[3]) == 2:
            return list(range(self.val(e[3][0], env), self.val(e[3][1], env)))
        if e[0] == "agg" and e[1].endswith("ops::range::RangeInclusive") and len(e[3]) >= 2:
            return list(range(self.val(e[3][0], env), self.val(e[3][1], env) + 1))
        raise Unsupported("iterator term %s" % df.show(e, 100))


def valuations(free, lengths, width):
    """All assignments: length symbols in [0, width], free symbols in [-width//2 - 1, 2 * width]."""
    names = list(lengths) + list(free)
    doms = [range(0, width + 1)] * len(lengths) + [range(-(width // 2) - 1, 2 * width + 1)] * len(free)
    for vals in itertools.product(*doms):
        yield dict(zip(names, vals))


def _digit(c, radix=10):
    ch = chr(c)
    if "0" <= ch <= "9":
        d = ord(ch) - 48
    elif "a" <= ch.lower() <= "z" and c < 128:
        d = ord(ch.lower()) - 87
    else:
        return False
    return d < radix


# the byte / char classification methods of core, for values 0..255 (a `char` made from a byte is the Latin-1 character of that value)
BYTE_CLASSES = {
    "is_ascii": lambda c: c < 128,
    "is_ascii_digit": lambda c: 48 <= c <= 57,
    "is_ascii_hexdigit": lambda c: 48 <= c <= 57 or 65 <= c <= 70 or 97 <= c <= 102,
    "is_ascii_octdigit": lambda c: 48 <= c <= 55,
    "is_ascii_alphabetic": lambda c: 65 <= c <= 90 or 97 <= c <= 122,
    "is_ascii_alphanumeric": lambda c: 48 <= c <= 57 or 65 <= c <= 90 or 97 <= c <= 122,
    "is_ascii_uppercase": lambda c: 65 <= c <= 90,
    "is_ascii_lowercase": lambda c: 97 <= c <= 122,
    "is_ascii_whitespace": lambda c: c in (32, 9, 10, 12, 13),
    "is_ascii_control": lambda c: c < 32 or c == 127,
    "is_ascii_graphic": lambda c: 33 <= c <= 126,
    "is_ascii_punctuation": lambda c: 33 <= c <= 47 or 58 <= c <= 64 or 91 <= c <= 96 or 123 <= c <= 126,
    "is_digit": _digit,
    "is_numeric": lambda c: chr(c).isnumeric(),
    "is_alphabetic": lambda c: chr(c).isalpha(),
    "is_alphanumeric": lambda c: chr(c).isalnum() or chr(c).isnumeric(),
    "is_whitespace": lambda c: c in (9, 10, 11, 12, 13, 32, 0x85, 0xa0),
    "is_control": lambda c: c < 32 or 127 <= c <= 159,
}


def eval_pure(fn, args, fuel=400):
    """Value of a small pure function over integers / booleans (a byte-class predicate such as is_whitespace, the quoting test of the
    writer) for given argument values - a term evaluation over a finite domain, used to compare two such predicates pointwise.  Handles
    loop-free MIR with copies (through references), constants, comparisons, bit operations and boolean switches; anything else raises
    Unsupported."""
    env = {}
    for i, a in enumerate(args):
        env[i + 1] = a

    def place(pl):
        if any(p_ != "deref" for p_ in pl.get("p", [])):
            raise Unsupported("projection in a pure predicate")
        if pl["l"] not in env:
            raise Unsupported("local %d read before it is set" % pl["l"])
        return env[pl["l"]]

    def promoted_range(op):
        # a promoted constant: only the constant ranges of `(a..b).contains(&x)` / `(a..=b).contains(&x)` are understood
        bodies = fn.raw.get("promoted") or []
        i = op["promoted"]
        if op.get("item") not in (None, fn.id) or not (0 <= i < len(bodies)):
            raise Unsupported("promoted constant %r" % op.get("dbg"))
        for blk in bodies[i]["blocks"]:
            for st in blk["stmts"]:
                rv = st.get("rv") or {}
                if st.get("k") == "assign" and rv.get("k") == "agg" and (rv.get("adt") or "").startswith("core::ops::range::Range") and \
                        len(rv["ops"]) == 2 and all(o.get("k") == "const" and "int" in o for o in rv["ops"]):
                    return ("range", rv["ops"][0]["int"], rv["ops"][1]["int"], "Inclusive" in rv["adt"])
            t_ = blk["term"]
            fp = (t_.get("func", {}).get("res") or {}).get("rpath") or t_.get("func", {}).get("fn") or "" if t_["k"] == "call" else ""
            if fp.endswith("RangeInclusive::<Idx>::new") and all(o.get("k") == "const" and "int" in o for o in t_["args"]):
                return ("range", t_["args"][0]["int"], t_["args"][1]["int"], True)
        raise Unsupported("promoted constant %r" % op.get("dbg"))

    def operand(op):
        if op.get("k") == "const":
            if "int" in op:
                return op["int"]
            if "promoted" in op:
                return promoted_range(op)
            raise Unsupported("non-integer constant")
        return place(op["pl"])
    bb = 0
    while fuel > 0:
        fuel -= 1
        b = fn.blocks[bb]
        for st in b["stmts"]:
            if st["k"] != "assign":
                continue
            if "p" in st["lhs"]:
                raise Unsupported("store through a projection")
            rv = st["rv"]
            k = rv["k"]
            if k == "use":
                v = operand(rv["op"])
            elif k in ("ref", "rawptr"):
                v = place(rv["pl"])
            elif k == "cast":
                v = operand(rv["op"])
            elif k == "bin":
                x, y = operand(rv["a"]), operand(rv["b"])
                op = rv["op"]
                v = {"Eq": x == y, "Ne": x != y, "Lt": x < y, "Le": x <= y, "Gt": x > y, "Ge": x >= y,
                     "BitAnd": x & y, "BitOr": x | y, "BitXor": x ^ y}.get(op)
                if v is None:
                    raise Unsupported("operator %s" % op)
                v = int(v)
            elif k == "un" and rv["op"] == "Not":
                v = int(not operand(rv["a"]))
            else:
                raise Unsupported("rvalue %s" % k)
            env[st["lhs"]["l"]] = v
        t = b["term"]
        if t["k"] == "return":
            return env.get(0)
        if t["k"] == "goto":
            bb = t["target"]
        elif t["k"] == "switch":
            v = operand(t["discr"])
            nxt = None
            for val, tgt in t["targets"]:
                if int(val) == int(v):
                    nxt = tgt
            bb = nxt if nxt is not None else t["otherwise"]
        elif t["k"] == "call":
            rp = (t.get("func", {}).get("res") or {}).get("rpath") or t.get("func", {}).get("fn") or ""
            last = rp.split("::")[-1]
            argv = [operand(a) for a in t["args"]]
            v = None
            if ("<impl u8>::" in rp or "<impl char>::" in rp) and last in BYTE_CLASSES and argv and isinstance(argv[0], int):
                v = int(BYTE_CLASSES[last](argv[0], *argv[1:]))
            elif rp.endswith("From<u8>>::from") or rp.endswith("char::from_u32_unchecked") or last in ("from", "into") and len(argv) == 1 and isinstance(argv[0], int):
                v = argv[0]
            if v is None and last == "contains" and "ops::range::Range" in rp and len(argv) == 2 and isinstance(argv[0], tuple) and \
                    argv[0][0] == "range" and isinstance(argv[1], int):
                _, lo, hi, incl = argv[0]
                v = int(lo <= argv[1] <= hi) if incl else int(lo <= argv[1] < hi)
            if v is None:
                raise Unsupported("call of %s" % rp)
            if t.get("dest") is None or t["dest"].get("p") or t.get("target") is None:
                raise Unsupported("call result stored through a projection")
            env[t["dest"]["l"]] = v
            bb = t["target"]
        else:
            raise Unsupported("terminator %s" % t["k"])
    raise Unsupported("out of fuel")
