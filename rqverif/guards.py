"""Path constants (DESIGN §3.4): branches on run-constant values, and the regions they guard."""
from . import cfg, dataflow as df


def switch_cond(fn, bb):
    """(expr, negated) of the value a bool switch at bb tests; None if bb does not end in a switch."""
    t = fn.blocks[bb]["term"]
    if t["k"] != "switch":
        return None
    e = df.operand_expr(fn, t["discr"])
    neg = False
    while isinstance(e, tuple) and e[0] == "un" and e[1] == "Not":
        e = e[2]
        neg = not neg
    return e, neg


def bool_edges(fn, bb):
    """For a switch on a bool: (false_target, true_target)."""
    t = fn.blocks[bb]["term"]
    if t["k"] != "switch" or t["dty"] != "bool":
        return None
    f = None
    for v, b in t["targets"]:
        if v == 0:
            f = b
    if f is None:
        return None
    return f, t["otherwise"]


def is_field(e, field, adt_suffix=None):
    return isinstance(e, tuple) and e[0] == "field" and e[2] == field


def find_bool_guards(fn, pred):
    """All bool switches whose tested value satisfies pred(expr).

    Returns list of dicts {bb, true_edge, false_edge, expr} where true_edge is the CFG edge taken when
    the *tested expression* (after stripping Not) is true.
    """
    out = []
    for bb, t in fn.terms():
        if t["k"] != "switch" or t["dty"] != "bool":
            continue
        e, neg = switch_cond(fn, bb)
        if not pred(e):
            continue
        f, tr = bool_edges(fn, bb)
        if neg:
            f, tr = tr, f
        out.append({"bb": bb, "true_edge": (bb, tr), "false_edge": (bb, f), "expr": e})
    return out


def region_of_edges(fn, edges, disabled=None):
    """Blocks dominated by any of the given edges."""
    r = set()
    for e in edges:
        r |= cfg.dominated_by_edge(fn, e, disabled)
    return r


def field_guards(fn, field, extra_pred=None):
    def pred(e):
        if is_field(e, field):
            return True
        return bool(extra_pred and extra_pred(e))
    return find_bool_guards(fn, pred)


def promoted_value(fn, expr):
    """Resolve ("constitem", path, n) referring to a promoted of fn to the aggregate/const it holds.

    Returns ("enum", adt, variant) | ("int", v) | None.
    """
    if not (isinstance(expr, tuple) and expr and expr[0] == "constitem" and expr[2] is not None):
        return None
    n = expr[2]
    if n >= len(fn.promoted):
        return None
    body = fn.promoted[n]
    for b in body["blocks"]:
        for s in b["stmts"]:
            if s["k"] == "assign":
                rv = s["rv"]
                if rv["k"] == "agg" and rv.get("ak") == "adt":
                    return ("enum", rv["adt"], rv["variant"])
                if rv["k"] == "use" and rv["op"].get("k") == "const" and "int" in rv["op"]:
                    return ("int", rv["op"]["int"])
                if rv["k"] == "use" and rv["op"].get("k") == "const" and ("item" in rv["op"] or "bytes" in rv["op"]):
                    return ("item", rv["op"].get("item"), rv["op"].get("bytes"))
    return None
