"""Fact-level inlining of helper functions the rules do not know.

The rules anchor on the functions that existed when they were written (selftest/known_functions.json).  A maintainer who extracts a
piece of one of those functions into a new private helper does not change behaviour, but every intra-procedural rule (dominance,
must-pass-through, provenance of a value, loop shape) would lose the code that moved.  So before the rule engines see the program,
every call of a local function that is NOT in the known set is replaced by the callee's body (locals and blocks renumbered,
arguments assigned to the callee's parameter locals, `return` turned into an assignment of the destination plus a jump to the call's
continuation).  Known functions are never inlined: rules that name them keep finding them.  Recursion and huge callees are left alone.
"""
import copy
import json
import os

VERIF = os.path.dirname(os.path.dirname(os.path.abspath(__file__)))
KNOWN_PATH = os.path.join(VERIF, "selftest", "known_functions.json")
MAX_BLOCKS = 600
MAX_ROUNDS = 5
LOCAL_RENAMES = []


def load_known():
    if not os.path.exists(KNOWN_PATH):
        return None
    with open(KNOWN_PATH) as f:
        return set(json.load(f)["functions"])


def load_signatures():
    if not os.path.exists(KNOWN_PATH):
        return {}
    with open(KNOWN_PATH) as f:
        return json.load(f).get("signatures", {})


def load_adts():
    if not os.path.exists(KNOWN_PATH):
        return {}
    with open(KNOWN_PATH) as f:
        return json.load(f).get("adts", {})


def load_files():
    if not os.path.exists(KNOWN_PATH):
        return {}
    with open(KNOWN_PATH) as f:
        return json.load(f).get("files", {})


def load_vars():
    if not os.path.exists(KNOWN_PATH):
        return {}
    with open(KNOWN_PATH) as f:
        return json.load(f).get("vars", {})


def signature(raw):
    """Parameter types and return type, as printed by the compiler."""
    n = raw.get("arg_count", 0)
    return [raw["locals"][i]["ty"] for i in range(1, n + 1)] + ["-> " + raw["locals"][0]["ty"]]


def _shift(x, lo, bo, po, item_from, item_to):
    """Deep copy of a MIR fragment with locals (+lo), blocks (+bo) and promoted indices (+po) renumbered."""
    if isinstance(x, list):
        return [_shift(v, lo, bo, po, item_from, item_to) for v in x]
    if not isinstance(x, dict):
        return x
    out = {}
    for k, v in x.items():
        if k == "l" and isinstance(v, int):
            out[k] = v + lo
        elif k == "index" and isinstance(v, int):
            out[k] = v + lo
        elif k in ("target", "unwind", "otherwise") and isinstance(v, int):
            out[k] = v + bo
        elif k == "targets" and isinstance(v, list):
            out[k] = [[a, b + bo] for a, b in v]
        elif k == "succ" and isinstance(v, list):
            out[k] = [b + bo for b in v]
        elif k == "promoted" and isinstance(v, int) and x.get("item") == item_from:
            out[k] = v + po
        elif k == "item" and v == item_from and "promoted" in x:
            out[k] = item_to
        else:
            out[k] = _shift(v, lo, bo, po, item_from, item_to)
    return out


def _callee(term, by_id):
    f = term.get("func", {})
    if f.get("k") != "const" or "fn" not in f:
        return None
    res = f.get("res") or {}
    if res.get("rkind") != "item":
        return None
    rp = res.get("rpath") or f["fn"]
    return rp if rp in by_id else None


def _count_uses(F, l, extra_blocks=()):
    """Occurrences of local l in the body of F (any position), as a number."""
    blob = json.dumps([F["blocks"], list(extra_blocks)])
    return blob.count('"l": %d}' % l) + blob.count('"l": %d,' % l)


def _forward_reference_arguments(F, G, bb, t, lo, pre, new_blocks):
    """`helper(.., &mut x)` with `*p = v` / `*p` inside the helper: once the helper is inlined, the parameter is a pointer to the
    caller's own local.  Where the argument is (a re-borrow of) a reference to a plain local of the caller, taken just for this call,
    the inlined body is rewritten to name that local directly (`(*p)` -> `x`), so that rules following the variable see one variable."""
    def resolve(l, seen):
        defs = [(b_, s_) for b_ in F["blocks"] for s_ in b_["stmts"] if s_["k"] == "assign" and s_["lhs"]["l"] == l and not s_["lhs"].get("p")]
        called = [b_ for b_ in F["blocks"] if b_["term"]["k"] == "call" and b_["term"]["dest"]["l"] == l]
        if len(defs) != 1 or called or l in seen or l <= F.get("arg_count", 0):
            return None
        rv = defs[0][1]["rv"]
        if rv.get("k") != "ref":
            return None
        pl = rv["pl"]
        pr = pl.get("p", [])
        if not pr:
            return (pl["l"], False), [defs[0]]
        if pr == ["deref"]:
            if 1 <= pl["l"] <= F.get("arg_count", 0) and str(F["locals"][pl["l"]]["ty"]).startswith("&"):
                # a re-borrow of what a reference parameter of the caller points to: `helper(&mut *file)` / `helper(file)`
                return (pl["l"], True), [defs[0]]
            r = resolve(pl["l"], seen | {l})
            if r is None:
                return None
            return r[0], r[1] + [defs[0]]
        return None
    for i, a in enumerate(t["args"]):
        if a.get("k") != "move" or a["pl"].get("p") or not str(G["locals"][1 + i]["ty"]).startswith("&"):
            continue
        r = resolve(a["pl"]["l"], set())
        if r is None:
            continue
        (target, through_param), chain = r
        param = lo + 1 + i
        # the parameter must only ever be dereferenced in the callee (never copied, re-borrowed whole, passed on or compared)
        ok = True

        def scan(x):
            nonlocal ok
            if isinstance(x, dict):
                if x.get("l") == param and "p" in x and x.get("p") and x["p"][0] == "deref":
                    pass
                elif x.get("l") == param and ("p" in x or len(x) == 1 or "ty" in x):
                    ok = False
                for v in x.values():
                    scan(v)
            elif isinstance(x, list):
                for v in x:
                    scan(v)
        scan(new_blocks)
        if not ok:
            continue

        def subst(x):
            if isinstance(x, dict):
                if x.get("l") == param and x.get("p") and x["p"][0] == "deref":
                    x["l"] = target
                    x["p"] = (["deref"] if through_param else []) + x["p"][1:]
                    if not x["p"]:
                        del x["p"]
                for v in x.values():
                    subst(v)
            elif isinstance(x, list):
                for v in x:
                    subst(v)
        subst(new_blocks)
        # the binding of the parameter and the references taken just for the call are dead now
        pre[:] = [s_ for s_ in pre if s_["lhs"]["l"] != param]
        F["dbg"] = [d for d in F.get("dbg", []) if not (isinstance(d.get("pl"), dict) and d["pl"].get("l") == param)]
        for b_, s_ in reversed(chain):
            l_ = s_["lhs"]["l"]
            b_["stmts"].remove(s_)
            if _count_uses(F, l_, [pre, new_blocks]) > 0:
                b_["stmts"].append(s_)        # still used elsewhere: keep it
                break



def _inline_one(F, G, bb):
    """Inline G at the call terminating block bb of F (raw dicts, mutated in place)."""
    t = F["blocks"][bb]["term"]
    lo, bo, po = len(F["locals"]), len(F["blocks"]), len(F.get("promoted", []))
    F["locals"].extend(copy.deepcopy(G["locals"]))
    for d in G.get("dbg", []):
        d2 = _shift(d, lo, 0, 0, None, None)
        d2["arg"] = None
        d2["inlined_from"] = G["id"]
        F["dbg"].append(d2)
    F.setdefault("promoted", []).extend(copy.deepcopy(G.get("promoted", [])))
    sp = t.get("sp")
    # arguments -> parameter locals
    pre = []
    for i, a in enumerate(t["args"]):
        pre.append({"k": "assign", "lhs": {"l": lo + 1 + i}, "rv": {"k": "use", "op": copy.deepcopy(a)}, "sp": sp, "inl": G["id"]})
    cont, unwind, dest = t.get("target"), t.get("unwind"), t["dest"]
    new_blocks = _shift(G["blocks"], lo, bo, po, G["id"], F["id"])
    for nb in new_blocks:
        nb["inl"] = G["id"]
        nt = nb["term"]
        if nt["k"] == "return":
            nb["stmts"].append({"k": "assign", "lhs": copy.deepcopy(dest), "rv": {"k": "use", "op": {"k": "move", "pl": {"l": lo}}}, "sp": sp, "inl": G["id"]})
            nb["term"] = {"k": "goto", "target": cont, "sp": sp} if cont is not None else {"k": "unreachable", "sp": sp}
        elif nt["k"] == "resume":
            if unwind is not None:
                nb["term"] = {"k": "goto", "target": unwind, "sp": sp}
    _forward_reference_arguments(F, G, bb, t, lo, pre, new_blocks)
    F.setdefault("absorbed", []).append(G["id"])
    for sp in [(G.get("file"), G.get("lo"), G.get("hi"))] + [tuple(x) for x in G.get("absorbed_spans", [])]:
        if sp not in [tuple(x) for x in F.setdefault("absorbed_spans", [])]:
            F["absorbed_spans"].append(sp)
    F["blocks"][bb]["stmts"].extend(pre)
    F["blocks"][bb]["term"] = {"k": "goto", "target": bo, "sp": sp, "inlined_call": G["id"]}
    F["blocks"].extend(new_blocks)


# ---- Option combinators given closures the reference tree does not have ------------------------------------------------------------
# `opt.map_or_else(|| a, |x| b)`, `opt.map_or(v, |x| b)`, `opt.is_some_and(|x| b)`, `opt.is_none_or(|x| b)`, `opt.unwrap_or_else(|| a)`
# are a `match opt { None => .., Some(x) => .. }` spelled with closures.  When the closures are new (not in the reference tree), the
# call is rewritten - in the facts - into that match with the closure bodies in the arms, so that rules written for the match (a
# decision on the variant, what the Some side reads, what the None side probes) see the same program.
OPTION_COMBINATORS = {
    "core::option::Option::<T>::map_or_else": ("closure", 1, "closure", 2),
    "core::option::Option::<T>::map_or": ("value", 1, "closure", 2),
    "core::option::Option::<T>::is_some_and": ("false", None, "closure", 1),
    "core::option::Option::<T>::is_none_or": ("true", None, "closure", 1),
    "core::option::Option::<T>::unwrap_or_else": ("closure", 1, "payload", None),
}


def _closure_of(F, op):
    """Id of the closure an operand holds: the operand is a local with exactly one definition, a closure aggregate."""
    if op.get("k") not in ("move", "copy") or op["pl"].get("p"):
        return None
    l = op["pl"]["l"]
    defs = [s for b in F["blocks"] for s in b["stmts"] if s["k"] == "assign" and s["lhs"]["l"] == l and not s["lhs"].get("p")]
    calls = [b for b in F["blocks"] if b["term"]["k"] == "call" and b["term"]["dest"]["l"] == l]
    if len(defs) == 1 and not calls and defs[0]["rv"].get("k") == "agg" and defs[0]["rv"].get("closure"):
        return defs[0]["rv"]["closure"]
    return None


def desugar_option_combinators(by_id, known):
    n = 0
    absorbed = set()
    for fid, F in list(by_id.items()):
        bb = 0
        while bb < len(F["blocks"]) and len(F["blocks"]) < 4 * MAX_BLOCKS:
            b = F["blocks"][bb]
            t = b["term"]
            bb += 1
            if t["k"] != "call" or b.get("cleanup") or t.get("func", {}).get("k") != "const":
                continue
            spec = OPTION_COMBINATORS.get(t["func"].get("fn"))
            if spec is None or not t["args"] or t["dest"].get("p") or t.get("target") is None:
                continue
            nkind, nidx, skind, sidx = spec
            opt = t["args"][0]
            if opt.get("k") not in ("move", "copy") or opt["pl"].get("p"):
                continue
            cl = {}
            ok = True
            for kind, idx in ((nkind, nidx), (skind, sidx)):
                if kind == "closure":
                    cid = _closure_of(F, t["args"][idx]) if idx < len(t["args"]) else None
                    G = by_id.get(cid)
                    if cid is None or G is None or cid in known or len(G["blocks"]) > MAX_BLOCKS or \
                            any(x["term"]["k"] == "call" and _callee(x["term"], by_id) == cid for x in G["blocks"]):
                        ok = False
                    cl[idx] = cid
            if not ok:
                continue
            sp = t.get("sp")
            optty = (t.get("argtys") or [None])[0] or F["locals"][opt["pl"]["l"]]["ty"]
            cont, unwind, dest = t["target"], t.get("unwind"), t["dest"]
            some_cid = cl.get(sidx) if skind == "closure" else None
            payty = by_id[some_cid]["locals"][2]["ty"] if some_cid and by_id[some_cid].get("arg_count", 0) >= 2 else (t.get("dty") or "?")
            ld = len(F["locals"])
            F["locals"].append({"ty": "isize", "mut": True})
            lp = len(F["locals"])
            F["locals"].append({"ty": payty, "mut": True})
            bN, bS, bU = len(F["blocks"]), len(F["blocks"]) + 1, len(F["blocks"]) + 2

            def call_block(cid, extra):
                G = by_id[cid]
                pre = []
                carg = copy.deepcopy(t["args"][[i for i, c_ in cl.items() if c_ == cid][0]])
                if G["locals"][1]["ty"].startswith("&"):
                    lr = len(F["locals"])
                    F["locals"].append({"ty": G["locals"][1]["ty"], "mut": True})
                    pre.append({"k": "assign", "lhs": {"l": lr}, "rv": {"k": "ref", "mut": G["locals"][1]["ty"].startswith("&mut"), "pl": copy.deepcopy(carg["pl"])}, "sp": sp})
                    carg = {"k": "move", "pl": {"l": lr}}
                return {"cleanup": False, "stmts": pre + extra[0], "desugared": t["func"]["fn"],
                        "term": {"k": "call", "func": {"k": "const", "ty": "closure", "fn": cid, "fnargs": [],
                                                       "res": {"crate": fid.split("::")[0], "rkind": "item", "rpath": cid, "rcrate": fid.split("::")[0], "rlocal": True}},
                                 "args": [carg] + extra[1], "argtys": [], "dest": copy.deepcopy(dest), "dty": t.get("dty"), "target": cont, "unwind": unwind,
                                 "sp": sp, "tsp": t.get("tsp")}}

            def value_block(op):
                return {"cleanup": False, "stmts": [{"k": "assign", "lhs": copy.deepcopy(dest), "rv": {"k": "use", "op": op}, "sp": sp}], "desugared": t["func"]["fn"],
                        "term": {"k": "goto", "target": cont, "sp": sp}}
            payload_pl = {"l": opt["pl"]["l"], "p": [{"downcast": "Some"}, {"f": 0, "name": "0", "adt": "core::option::Option", "variant": "Some", "fty": payty}], "ty": payty}
            take = [{"k": "assign", "lhs": {"l": lp}, "rv": {"k": "use", "op": {"k": "move", "pl": payload_pl}}, "sp": sp}]
            if nkind == "closure":
                blkN = call_block(cl[nidx], ([], []))
            elif nkind == "value":
                blkN = value_block(copy.deepcopy(t["args"][nidx]))
            else:
                blkN = value_block({"k": "const", "ty": "bool", "int": 1 if nkind == "true" else 0, "dbg": nkind})
            if skind == "closure":
                blkS = call_block(cl[sidx], (take, [{"k": "move", "pl": {"l": lp}}]))
            else:
                blkS = value_block({"k": "move", "pl": payload_pl})
            blkU = {"cleanup": False, "stmts": [], "term": {"k": "unreachable"}}
            F["blocks"].extend([blkN, blkS, blkU])
            b["stmts"].append({"k": "assign", "lhs": {"l": ld}, "rv": {"k": "discr", "pl": {"l": opt["pl"]["l"], "ty": optty}, "adt": "core::option::Option",
                                                                       "variants": [[0, "None"], [1, "Some"]], "pty": optty}, "sp": sp})
            b["term"] = {"k": "switch", "discr": {"k": "move", "pl": {"l": ld}}, "dty": "isize", "targets": [[0, bN], [1, bS]], "otherwise": bU, "sp": sp,
                         "desugared": t["func"]["fn"]}
            for blk_i in (bS, bN):
                if F["blocks"][blk_i]["term"]["k"] == "call":
                    cid = F["blocks"][blk_i]["term"]["func"]["fn"]
                    _inline_one(F, by_id[cid], blk_i)
                    absorbed.add(cid)
            n += 1
    return n, absorbed



# ---- a few locals bundled into a new little struct ---------------------------------------------------------------------------------
def scalar_replace_new_structs(by_id, ref_adts):
    """`let mut prev = PreviousHunks { last_offset: 0, last_frozen_line: -1 }` ... `prev.last_offset` ... `prev = PreviousHunks { .. }`:
    locals of a struct type the reference tree does not have, built only from aggregates (or moved whole into one another) and
    otherwise touched field by field, are the same as one local per field.  They are split up (in the facts), the new locals carrying
    the field names, so that rules following a variable meet plain variables again."""
    n = 0
    for fid, F in by_id.items():
        adts = {}
        for b in F["blocks"]:
            for st in b["stmts"]:
                rv = st.get("rv") or {}
                if st["k"] == "assign" and not st["lhs"].get("p") and rv.get("k") == "agg" and rv.get("adt") and rv.get("fields") and \
                        rv.get("variant") in (None, rv["adt"].split("::")[-1]) and rv["adt"].split("::")[0] in ("rapidquilt", "libpatch") and \
                        rv["adt"] not in ref_adts and st["lhs"]["l"] > F.get("arg_count", 0):
                    adts.setdefault(rv["adt"], (list(rv["fields"]), set()))[1].add(st["lhs"]["l"])
        for adt, (fields, cands) in sorted(adts.items()):
            # whole-value moves between locals of this type join the family
            grew = True
            while grew:
                grew = False
                for b in F["blocks"]:
                    for st in b["stmts"]:
                        rv = st.get("rv") or {}
                        if st["k"] == "assign" and not st["lhs"].get("p") and rv.get("k") == "use" and rv["op"].get("k") in ("move", "copy") and \
                                not rv["op"]["pl"].get("p"):
                            a_, b_ = st["lhs"]["l"], rv["op"]["pl"]["l"]
                            if (a_ in cands) != (b_ in cands) and min(a_, b_) > F.get("arg_count", 0):
                                cands |= {a_, b_}
                                grew = True
            ok = True
            ftys = {}

            def is_whole(st):
                rv = st.get("rv") or {}
                if st["k"] != "assign" or st["lhs"].get("p") or st["lhs"]["l"] not in cands:
                    return False
                if rv.get("k") == "agg" and rv.get("adt") == adt and rv.get("fields") == fields:
                    return True
                return rv.get("k") == "use" and rv["op"].get("k") in ("move", "copy") and not rv["op"]["pl"].get("p") and rv["op"]["pl"]["l"] in cands

            def scan(x):
                nonlocal ok
                if isinstance(x, dict):
                    if x.get("l") in cands and ("p" in x or set(x) <= {"l", "ty"}):
                        pr = x.get("p") or []
                        if pr and isinstance(pr[0], dict) and "f" in pr[0] and pr[0].get("adt") == adt:
                            ftys[pr[0]["f"]] = pr[0].get("fty")
                        else:
                            ok = False
                    for v in x.values():
                        scan(v)
                elif isinstance(x, list):
                    for v in x:
                        scan(v)
            for b in F["blocks"]:
                for st in b["stmts"]:
                    if is_whole(st):
                        if st["rv"]["k"] == "agg":
                            scan(st["rv"]["ops"])
                    elif st["k"] == "assign":
                        scan(st)
                scan(b["term"])
                if b["term"]["k"] == "call" and b["term"]["dest"].get("l") in cands and not b["term"]["dest"].get("p"):
                    ok = False
                if b["term"]["k"] == "drop" and isinstance(b["term"].get("pl"), dict) and b["term"]["pl"].get("l") in cands:
                    ok = ok
            if not ok:
                continue
            base = {}
            for P in sorted(cands):
                base[P] = len(F["locals"])
                named = [j for j, d in enumerate(F.get("dbg", [])) if isinstance(d.get("pl"), dict) and d["pl"].get("l") == P and not d["pl"].get("p")]
                for i, name in enumerate(fields):
                    F["locals"].append({"ty": ftys.get(i) or "?", "mut": True})
                if named:
                    # the fields are declared where the struct was (rules and the renaming of locals go by declaration order)
                    F["dbg"][named[0] + 1:named[0] + 1] = [{"name": name, "pl": {"l": base[P] + i}, "arg": None, "split_from": adt}
                                                           for i, name in enumerate(fields)]
            F["dbg"] = [d for d in F.get("dbg", []) if not (isinstance(d.get("pl"), dict) and d["pl"].get("l") in cands and not d["pl"].get("p"))]

            def subst(x):
                if isinstance(x, dict):
                    if x.get("l") in cands and x.get("p") and isinstance(x["p"][0], dict) and "f" in x["p"][0]:
                        x["l"] = base[x["l"]] + x["p"][0]["f"]
                        x["p"] = x["p"][1:]
                        if not x["p"]:
                            del x["p"]
                    for v in x.values():
                        subst(v)
                elif isinstance(x, list):
                    for v in x:
                        subst(v)
            for b in F["blocks"]:
                out = []
                for st in b["stmts"]:
                    if is_whole(st):
                        P = st["lhs"]["l"]
                        if st["rv"]["k"] == "agg":
                            subst(st["rv"]["ops"])
                            ops = st["rv"]["ops"]
                        else:
                            Q = st["rv"]["op"]["pl"]["l"]
                            ops = [{"k": st["rv"]["op"]["k"], "pl": {"l": base[Q] + i}} for i in range(len(fields))]
                        for i, op in enumerate(ops):
                            out.append({"k": "assign", "lhs": {"l": base[P] + i}, "rv": {"k": "use", "op": op}, "sp": st.get("sp"), "split": adt})
                    else:
                        subst(st)
                        out.append(st)
                b["stmts"] = out
                subst(b["term"])
            n += 1
    return n


def apply(data, known=None):
    """data: {crate: {"fns": [...], ...}} as loaded from the fact files.  Returns the number of call sites inlined."""
    known = load_known() if known is None else known
    if known is None:
        return 0
    by_id = {}
    for crate, d in data.items():
        for raw in d["fns"]:
            by_id[raw["id"]] = raw
    scalar_replace_new_structs(by_id, load_adts())
    from . import renames as _ren
    LOCAL_RENAMES[:] = _ren.normalize_param_order(data, load_vars())
    LOCAL_RENAMES.extend(_ren.normalize_locals(data, load_vars()))
    nd, absorbed_closures = desugar_option_combinators(by_id, set(known))
    if nd:
        for d in data.values():
            d["fns"] = [raw for raw in d["fns"] if raw["id"] not in absorbed_closures]
        for cid in absorbed_closures:
            by_id.pop(cid, None)
    unknown = {fid for fid, raw in by_id.items() if fid not in known and raw.get("kind") != "Closure" and "{closure" not in fid}
    if not unknown:
        return nd
    # A known function that merely moved (a nested fn hoisted to module level, a free function made a method ...) keeps its name:
    # when exactly one unknown function carries the last path segment of exactly one known function that is gone, it is that
    # function.  It is given its old id back, so that rules naming it keep finding it (and it is not inlined).
    gone = {}
    for k in known:
        if k not in by_id and "{closure" not in k:
            gone.setdefault(k.split("::")[-1], []).append(k)
    cand = {}
    for u in unknown:
        cand.setdefault(u.split("::")[-1], []).append(u)
    renames = {}
    crate_of = lambda x: x.lstrip("<&").split("::")[0]
    for seg, us in cand.items():
        ks = gone.get(seg, [])
        if len(us) == 1 and len(ks) == 1 and crate_of(us[0]) == crate_of(ks[0]):
            renames[us[0]] = ks[0]
    # ... or was renamed: exactly one unknown function has the signature of exactly one known function that is gone (same crate, at
    # least two parameters - anything less is too common to mean something).  Rules that name the old function then examine the new
    # one; they check what it does, so a wrong guess can only produce a report, never hide one.
    sigs = load_signatures()
    gone_sig = {}
    sig_count = {}
    for k, sg in sigs.items():
        sig_count[(crate_of(k), json.dumps(sg))] = sig_count.get((crate_of(k), json.dumps(sg)), 0) + 1
    # a short signature means something only when no other known function has it and it mentions a type of the project
    telling = lambda k: len(sigs[k]) >= 3 or (len(sigs[k]) == 2 and sig_count[(crate_of(k), json.dumps(sigs[k]))] == 1 and
                                               any("rapidquilt::" in part or "libpatch::" in part for part in sigs[k]))
    for k in known:
        if k not in by_id and "{closure" not in k and k not in renames.values() and k in sigs and telling(k):
            gone_sig.setdefault((crate_of(k), json.dumps(sigs[k])), []).append(k)
    unk_sig = {}
    for u in unknown:
        if u not in renames:
            unk_sig.setdefault((crate_of(u), json.dumps(signature(by_id[u]))), []).append(u)
    for key, us in unk_sig.items():
        ks = gone_sig.get(key, [])
        if len(us) == 1 and len(ks) == 1:
            renames[us[0]] = ks[0]
    if renames:
        for crate, d in data.items():
            blob = json.dumps(d["fns"])
            for u, k in renames.items():
                ju, jk = json.dumps(u)[1:-1], json.dumps(k)[1:-1]
                blob = blob.replace('"%s"' % ju, '"%s"' % jk).replace('"%s::' % ju, '"%s::' % jk)
            d["fns"] = json.loads(blob)
        by_id = {}
        for crate, d in data.items():
            for raw in d["fns"]:
                by_id[raw["id"]] = raw
        for raw in by_id.values():
            if raw["id"] in renames.values():
                raw["moved_from"] = [u for u, k in renames.items() if k == raw["id"]][0]
        unknown = {fid for fid, raw in by_id.items() if fid not in known and raw.get("kind") != "Closure" and "{closure" not in fid}
        if not unknown:
            return 0
    # renamed local variables and parameters of known functions get their old names back (rules may name a variable)
    LOCAL_RENAMES.extend(_ren.normalize_locals(data, load_vars()))
    # direct recursion / cycles among unknown functions: never inline those
    calls = {}
    for fid in unknown:
        cs = set()
        for b in by_id[fid]["blocks"]:
            if b["term"]["k"] == "call":
                c = _callee(b["term"], by_id)
                if c in unknown:
                    cs.add(c)
        calls[fid] = cs
    cyclic = set()
    for fid in unknown:
        seen, stack = set(), list(calls[fid])
        while stack:
            x = stack.pop()
            if x == fid:
                cyclic.add(fid)
                break
            if x not in seen:
                seen.add(x)
                stack.extend(calls.get(x, ()))
    inl = unknown - cyclic
    total = 0
    for _ in range(MAX_ROUNDS):
        n = 0
        for fid, F in by_id.items():
            bb = 0
            while bb < len(F["blocks"]):
                b = F["blocks"][bb]
                if b["term"]["k"] == "call" and not b.get("cleanup"):
                    c = _callee(b["term"], by_id)
                    if c in inl and c != fid and len(by_id[c]["blocks"]) <= MAX_BLOCKS and len(F["blocks"]) < 4 * MAX_BLOCKS:
                        _inline_one(F, by_id[c], bb)
                        n += 1
                bb += 1
        total += n
        if n == 0:
            break
    if total:
        # helpers that are no longer referenced anywhere have been absorbed by their callers: drop them, so that no rule analyses
        # the same code a second time out of context
        blob = {fid: json.dumps(raw["blocks"]) for fid, raw in by_id.items()}
        for fid in sorted(inl):
            needles = ('"fn": %s' % json.dumps(fid), '"rpath": %s' % json.dumps(fid), '"self_fn": %s' % json.dumps(fid))
            if not any(any(n_ in text for n_ in needles) for other, text in blob.items() if other != fid and not other.startswith(fid + "::{closure")):
                for d in data.values():
                    d["fns"] = [raw for raw in d["fns"] if raw["id"] != fid]
                # closures of the absorbed helper now live in the function that absorbed it (capture lookups go through `parent`)
                hosts = [raw for raw in by_id.values() if fid in raw.get("absorbed", []) and raw["id"] != fid]
                if hosts:
                    for raw in by_id.values():
                        if raw.get("parent") == fid:
                            raw["parent"] = hosts[0]["id"]
    return total


if __name__ == "__main__":
    import sys
    sys.path.insert(0, VERIF)
    from rqverif import extract
    d, info = extract.extract()
    data = extract.load(d)
    ids = sorted(raw["id"] for c in data.values() for raw in c["fns"])
    sigs = {raw["id"]: signature(raw) for c in data.values() for raw in c["fns"] if raw.get("kind") != "Closure" and "{closure" not in raw["id"]}
    with open(KNOWN_PATH, "w") as f:
        json.dump({"_comment": "function ids (and signatures) of the tree the rules were written against; functions not listed here are "
                               "inlined into their callers before the rules run, moved or renamed ones are given their old id back "
                               "(rqverif/inline.py)", "tree_hash": info.get("tree_hash"), "functions": ids, "signatures": sigs,
                   "adts": __import__("rqverif.renames", fromlist=["x"]).reference_of(data),
                   "vars": __import__("rqverif.renames", fromlist=["x"]).reference_vars(data),
                   "files": __import__("rqverif.renames", fromlist=["x"]).reference_files(data)}, f, indent=0)
    print("wrote", KNOWN_PATH, len(ids))
