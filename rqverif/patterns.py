"""Recurring MIR idioms: `?`, match on Result/Option, loops over iterators."""
from . import cfg, dataflow as df
from .facts import callee_of

RESULT_PRESERVING = ("ResultExt<T, E>>::with_context", "ResultExt<T, E>>::context", "::with_context", "::context",
                     "Result::<T, E>::map_err", "::map_err")


def discr_switches(fn, pred):
    """Switches on `discriminant(place)` where pred(place_expr) holds.

    Returns [{bb, edges: {variant_name: (bb, target)}, otherwise, expr}]
    """
    out = []
    d = df.defs_of(fn)
    for bb, t in fn.terms():
        if t["k"] != "switch":
            continue
        op = t["discr"]
        if op.get("k") not in ("copy", "move") or "p" in op["pl"]:
            continue
        one = d.single(op["pl"]["l"])
        if not one or one[0] != "stmt":
            continue
        rv = one[3]["rv"]
        if rv["k"] != "discr":
            continue
        e = df.place_expr(fn, rv["pl"])
        if not pred(e, rv):
            continue
        names = {v: n for v, n in rv.get("variants", [])}
        edges = {}
        for v, tgt in t["targets"]:
            edges[names.get(v, str(v))] = (bb, tgt)
        # the otherwise edge stands for the remaining variants
        rest = [n for v, n in rv.get("variants", []) if n not in edges]
        if len(rest) == 1 and fn.blocks[t["otherwise"]]["term"]["k"] != "unreachable":
            edges[rest[0]] = (bb, t["otherwise"])
        out.append({"bb": bb, "edges": edges, "otherwise": (bb, t["otherwise"]), "expr": e, "rest": rest,
                    "adt": rv.get("adt"), "place": rv["pl"]})
    return out


def switches_on_local(fn, l):
    return discr_switches(fn, lambda e, rv: "p" not in rv["pl"] and rv["pl"]["l"] == l)


def result_edges(fn, call_bb):
    """For a call returning Result: the CFG edges taken on Ok and on Err, following `?`
    (Try::branch) or a direct match, through result-preserving combinators.

    Returns dict(ok=[edges], err=[edges], ok_value_local=.., chain=[bbs]) or None.
    """
    t = fn.blocks[call_bb]["term"]
    if t["k"] != "call" or "p" in t["dest"]:
        return None
    cur = t["dest"]["l"]
    chain = [call_bb]
    for _ in range(8):
        # direct match on the result?
        sws = switches_on_local(fn, cur)
        if sws:
            ok = [s["edges"][k] for s in sws for k in ("Ok", "Continue") if k in s["edges"]]
            err = [s["edges"][k] for s in sws for k in ("Err", "Break") if k in s["edges"]]
            return {"ok": ok, "err": err, "local": cur, "chain": chain}
        nxt = None
        for bb, t2 in fn.calls():
            if not t2["args"]:
                continue
            a0 = t2["args"][0]
            if a0.get("k") in ("copy", "move") and "p" not in a0["pl"] and a0["pl"]["l"] == cur and "p" not in t2["dest"]:
                c = callee_of(t2)
                p = c.get("path") or ""
                if p.endswith("Try::branch") or any(p.endswith(s) for s in RESULT_PRESERVING):
                    nxt = (bb, t2)
                    break
        if nxt is None:
            # a plain move into another local
            mv = None
            for bb, idx, s in fn.stmts():
                if s["k"] == "assign" and "p" not in s["lhs"] and s["rv"]["k"] == "use":
                    op = s["rv"]["op"]
                    if op.get("k") in ("copy", "move") and "p" not in op["pl"] and op["pl"]["l"] == cur:
                        mv = s["lhs"]["l"]
                        break
            if mv is None:
                return None
            cur = mv
            continue
        chain.append(nxt[0])
        cur = nxt[1]["dest"]["l"]
    return None


def trace_place(fn, op):
    """Follow single-definition whole-local copies/moves back from an operand to the place it was read from.
    Returns the place dict, or None for constants."""
    d = df.defs_of(fn)
    for _ in range(32):
        if op.get("k") not in ("copy", "move"):
            return None
        pl = op["pl"]
        if "p" in pl:
            return pl
        one = d.single(pl["l"])
        if not one or one[0] != "stmt":
            return pl
        rv = one[3]["rv"]
        if rv["k"] == "use":
            op = rv["op"]
            continue
        if rv["k"] == "un" and rv["op"] == "Not":
            return pl
        return pl
    return None


def ok_payload_switch(fn, res_local, variant="Ok"):
    """Bool switches on `(res_local as Ok|Continue).0` (e.g. `match r { Ok(false) => .. }` or `if !call()? {..}`).
    Returns [{bb, false_edge, true_edge}] where the edges refer to the payload value."""
    out = []
    d = df.defs_of(fn)
    for bb, t in fn.terms():
        if t["k"] != "switch" or t["dty"] != "bool":
            continue
        op = t["discr"]
        neg = False
        pl = None
        for _ in range(8):
            pl = trace_place(fn, op)
            if pl is None or "p" in pl:
                break
            one = d.single(pl["l"])
            if one and one[0] == "stmt" and one[3]["rv"]["k"] == "un" and one[3]["rv"]["op"] == "Not":
                neg = not neg
                op = one[3]["rv"]["a"]
                continue
            break
        if pl is None or "p" not in pl or pl["l"] != res_local:
            continue
        pr = pl["p"]
        if not (len(pr) == 2 and isinstance(pr[0], dict) and pr[0].get("downcast") in (variant, "Continue")
                and isinstance(pr[1], dict) and pr[1].get("f") == 0):
            continue
        f = None
        for v, b in t["targets"]:
            if v == 0:
                f = b
        if f is None:
            continue
        tr = t["otherwise"]
        if neg:
            f, tr = tr, f
        out.append({"bb": bb, "false_edge": (bb, f), "true_edge": (bb, tr)})
    return out


def iterator_loops(fn):
    """Loops driven by `Iterator::next`: [{head, body, next_bb, next_term, iter_ty, exit_edges, some_edge, none_edge}]"""
    out = []
    for head, body in cfg.loops(fn).items():
        for bb in sorted(body):
            t = fn.blocks[bb]["term"]
            if t["k"] != "call":
                continue
            c = callee_of(t)
            p = c.get("path") or ""
            if not (p.endswith("Iterator::next") or p.endswith("DoubleEndedIterator::next_back")):
                continue
            inner = cfg.innermost_loop_of(fn, bb)
            if inner is None or inner[0] != head:
                continue
            # the Some/None switch on the result
            sws = switches_on_local(fn, t["dest"]["l"]) if "p" not in t["dest"] else []
            sws = [s for s in sws if s["bb"] in body]
            if not sws:
                continue
            s = sws[0]
            out.append({"head": head, "body": body, "next_bb": bb, "next_term": t,
                        "iter_ty": (t["argtys"][0] if t["argtys"] else ""), "callee": c,
                        "some_edge": s["edges"].get("Some"), "none_edge": s["edges"].get("None"),
                        "exit_edges": cfg.loop_exit_edges(fn, body)})
    return out


def while_let_pop_loops(fn):
    """Loops of the shape `while let Some(x) = v.last() { ...; v.pop(); }` or `while let Some(x) = v.pop_if(..) { ... }`."""
    out = []
    for head, body in cfg.loops(fn).items():
        last = [bb for bb in body if fn.blocks[bb]["term"]["k"] == "call" and
                (callee_of(fn.blocks[bb]["term"]).get("rpath") or "").endswith("::last")]
        pop = [bb for bb in body if fn.blocks[bb]["term"]["k"] == "call" and
               (callee_of(fn.blocks[bb]["term"]).get("rpath") or "").endswith(("::pop", "::pop_if"))]
        popif = [bb for bb in pop if (callee_of(fn.blocks[bb]["term"]).get("rpath") or "").endswith("::pop_if")]
        if (last and pop) or popif:
            out.append({"head": head, "body": body, "last_bbs": last, "pop_bbs": pop})
    return out


# ---- loops and their iterator-combinator spellings, seen alike ---------------------------------------------------------------------
EVERY_ITEM_COMBINATORS = ("Iterator::for_each", "Iterator::try_for_each")


def iterations(fn, prog):
    """`for x in it { body }` and `it.for_each(|x| body)` / `it.try_for_each(|x| body)` as one notion.

    Yields dicts {kind: "loop" | "closure", iter_ty, forward, body_fn, body (blocks of body_fn), site (term or il)}.  `forward` says
    that items are drawn front to back (no Rev adaptor, next() not next_back())."""
    out = []
    for il in iterator_loops(fn):
        ity = il["iter_ty"]
        out.append({"kind": "loop", "iter_ty": ity, "forward": "Rev<" not in ity and il["callee"]["path"].endswith("Iterator::next"),
                    "body_fn": fn, "body": set(il["body"]), "il": il, "where": fn.where(il["next_term"])})
    for bb, t in fn.calls():
        c = callee_of(t)
        p = c.get("path") or ""
        if fn.blocks[bb]["cleanup"] or not p.endswith(EVERY_ITEM_COMBINATORS) or len(t["args"]) < 2:
            continue
        e = df.operand_expr(fn, t["args"][1])
        if not (isinstance(e, tuple) and e and e[0] == "closure" and e[1] in prog.fns):
            continue
        cl = prog.fns[e[1]]
        ity = t["argtys"][0] if t["argtys"] else ""
        out.append({"kind": "closure", "iter_ty": ity, "forward": "Rev<" not in ity, "body_fn": cl,
                    "body": {i for i, b in enumerate(cl.blocks) if not b["cleanup"]}, "term": t, "where": fn.where(t), "combinator": p.split("::")[-1]})
    return out


def every_item_reaches(it, call_blocks):
    """Does every iteration pass through one of call_blocks (blocks of it["body_fn"]) before the next item is drawn / the body returns?"""
    fn = it["body_fn"]
    if not call_blocks:
        return False
    if it["kind"] == "loop":
        il = it["il"]
        return il["head"] not in cfg.reachable(fn, [il["some_edge"][1]], blocked=set(call_blocks))
    r = cfg.reachable(fn, 0, blocked=set(call_blocks))
    return not any(b in r for b in cfg.exits(fn))
