"""Identifier normalisation: a type, an enum variant or a struct field that was merely *renamed* is given its old name back before
the rules see the program.

The rules name the types, variants and fields of the tree they were written against (`ModifiedFile.deleted`, `ApplyMode::Rollback`,
`HunkPosition::Middle`, `ApplyConfig.dry_run` ...).  A rename changes no behaviour, so it must not change a verdict.  The reference
shapes of all ADTs of the two crates are stored next to the known function ids (selftest/known_functions.json, key "adts").  On every
run:

 1. a reference type that is gone and exactly one new type of the same crate with the same shape (kind, number of variants, number
    and types of the fields of each variant - type names compared after the renames found so far) are the same type: the new path
    is replaced by the old one everywhere in the facts (types, function ids, places);
 2. for a type present in both trees with the same number of variants and the same payload shapes, a variant whose name differs
    at some index was renamed: projections, aggregates, discriminant tables and set-discriminant statements get the old name;
 3. likewise for fields (same count, same types position by position): field projections and aggregate field lists get the old
    name.

A wrong guess cannot hide anything: the rules examine the code under the old names and report what it does.  Everything renamed is
listed in prog.info["renamed"] and printed with the evidence."""
import json
import re


def shape_of(adt, tymap=None):
    """Hashable shape: kind + per variant the list of field types."""
    def norm(ty):
        for new, old in (tymap or {}).items():
            ty = re.sub(r"(?<![A-Za-z0-9_])" + re.escape(new) + r"(?![A-Za-z0-9_])", old, ty)
        return ty
    return (adt["kind"], tuple(tuple(norm(f["ty"]) for f in v["fields"]) for v in adt["variants"]))


def reference_of(data):
    out = {}
    for crate, d in data.items():
        for a in d.get("adts", []):
            out[a["id"]] = {"kind": a["kind"], "variants": [{"name": v["name"], "fields": [{"name": f["name"], "ty": f["ty"]} for f in v["fields"]]}
                                                            for v in a["variants"]]}
    return out


def _replace_paths(data, mapping):
    """Replace whole type paths in every string of the facts (keys are left alone)."""
    if not mapping:
        return
    pats = [(re.compile(r"(?<![A-Za-z0-9_])" + re.escape(new) + r"(?![A-Za-z0-9_])"), old) for new, old in mapping.items()]
    # the type is also named by its last segment in method paths printed relative to the impl (`<T as Trait>`): full paths only
    for crate, d in data.items():
        for key in ("fns", "adts", "impls", "traits", "consts"):
            if key not in d:
                continue
            blob = json.dumps(d[key])
            for pat, old in pats:
                blob = pat.sub(old.replace("\\", "\\\\"), blob)
            d[key] = json.loads(blob)


def _walk(x, f):
    if isinstance(x, dict):
        f(x)
        for v in x.values():
            _walk(v, f)
    elif isinstance(x, list):
        f(x)
        for v in x:
            _walk(v, f)


def normalize(data, ref):
    """data: {crate: facts}; ref: reference ADT shapes.  Returns the list of renames applied (strings)."""
    if not ref:
        return []
    done = []
    crate_of = lambda p: p.split("::")[0]
    cur = {a["id"]: a for d in data.values() for a in d.get("adts", [])}
    # ---- 1. types -----------------------------------------------------------------------------------------------------------
    tymap = {}
    for _ in range(3):
        gone = [g for g in ref if g not in cur and g not in tymap.values()]
        unknown = [u for u in cur if u not in ref and u not in tymap]
        progress = False
        for g in gone:
            gs = (ref[g]["kind"], tuple(tuple(f["ty"] for f in v["fields"]) for v in ref[g]["variants"]))
            cands = [u for u in unknown if crate_of(u) == crate_of(g) and shape_of(cur[u], dict(tymap, **{u: g})) == gs]
            # the shape must mean something: at least one field, or at least two variants
            telling = sum(len(v["fields"]) for v in ref[g]["variants"]) >= 1 or len(ref[g]["variants"]) >= 2
            others = [g2 for g2 in gone if g2 != g and crate_of(g2) == crate_of(g) and
                      (ref[g2]["kind"], tuple(tuple(f["ty"] for f in v["fields"]) for v in ref[g2]["variants"])) == gs]
            if len(cands) == 1 and telling and not others:
                tymap[cands[0]] = g
                unknown.remove(cands[0])
                progress = True
        if not progress:
            break
    if tymap:
        _replace_paths(data, tymap)
        for new, old in tymap.items():
            done.append("type %s is %s of the reference tree" % (new, old))
        cur = {a["id"]: a for d in data.values() for a in d.get("adts", [])}
    # ---- 2. variants, 3. fields --------------------------------------------------------------------------------------------------
    vmap = {}      # (adt, new variant) -> old variant
    fmap = {}      # (adt, variant (old name), new field) -> old field
    for aid, a in cur.items():
        r = ref.get(aid)
        if r is None or r["kind"] != a["kind"] or len(r["variants"]) != len(a["variants"]):
            continue
        if [tuple(f["ty"] for f in v["fields"]) for v in r["variants"]] != [tuple(f["ty"] for f in v["fields"]) for v in a["variants"]]:
            # fields added / removed / retyped: not a pure rename - leave everything as it is
            continue
        new_names = [v["name"] for v in a["variants"]]
        old_names = [v["name"] for v in r["variants"]]
        if a["kind"] == "Enum" and new_names != old_names and len(set(new_names) & set(old_names)) == sum(1 for x, y in zip(new_names, old_names) if x == y):
            # the names that stayed stayed in place: the others were renamed (not reordered)
            for x, y in zip(new_names, old_names):
                if x != y:
                    vmap[(aid, x)] = y
                    done.append("variant %s::%s is %s::%s of the reference tree" % (aid, x, aid.split("::")[-1], y))
        for v, rv in zip(a["variants"], r["variants"]):
            nf = [f["name"] for f in v["fields"]]
            of = [f["name"] for f in rv["fields"]]
            if nf != of and len(set(nf) & set(of)) == sum(1 for x, y in zip(nf, of) if x == y):
                for x, y in zip(nf, of):
                    if x != y:
                        fmap[(aid, rv["name"], x)] = y
                        done.append("field %s.%s is .%s of the reference tree" % (aid, x, y))
    if not vmap and not fmap:
        return done

    def fix(x):
        if isinstance(x, list):
            # a projection list: {"downcast": V} followed by a field of that variant names the adt
            for i, p_ in enumerate(x):
                if isinstance(p_, dict) and "downcast" in p_ and len(p_) <= 2:
                    adt = p_.get("adt")
                    if adt is None and i + 1 < len(x) and isinstance(x[i + 1], dict) and x[i + 1].get("variant") == p_["downcast"]:
                        adt = x[i + 1].get("adt")
                    if adt is not None and (adt, p_["downcast"]) in vmap:
                        p_["downcast"] = vmap[(adt, p_["downcast"])]
            return
        adt = x.get("adt")
        if adt is None:
            return
        if isinstance(x.get("variant"), str) and (adt, x["variant"]) in vmap:
            x["variant"] = vmap[(adt, x["variant"])]
        if isinstance(x.get("variants"), list):
            x["variants"] = [[v[0], vmap.get((adt, v[1]), v[1])] if isinstance(v, list) and len(v) == 2 else v for v in x["variants"]]
        vname = x.get("variant") if isinstance(x.get("variant"), str) else adt.split("::")[-1]
        if "f" in x and isinstance(x.get("name"), str) and (adt, vname, x["name"]) in fmap:
            x["name"] = fmap[(adt, vname, x["name"])]
        if isinstance(x.get("fields"), list) and x.get("k") == "agg":
            x["fields"] = [fmap.get((adt, vname, n), n) if isinstance(n, str) else n for n in x["fields"]]
    for d in data.values():
        _walk(d["fns"], fix)
        for a in d.get("adts", []):
            r = ref.get(a["id"])
            if r is None:
                continue
            for v, rv in zip(a["variants"], r["variants"]):
                old_v = v["name"]
                if (a["id"], v["name"]) in vmap:
                    v["name"] = vmap[(a["id"], v["name"])]
                for f in v["fields"]:
                    if (a["id"], rv["name"], f["name"]) in fmap:
                        f["name"] = fmap[(a["id"], rv["name"], f["name"])]
    return done


# ---- local variables ------------------------------------------------------------------------------------------------------------------
def vars_of(raw):
    """User variables of a function in declaration order: [name, type, parameter index or None] (whole locals only)."""
    out = []
    for d in raw.get("dbg", []):
        pl = d.get("pl")
        if not pl or pl.get("p"):
            continue
        l = pl["l"]
        ty = raw["locals"][l]["ty"] if l < len(raw["locals"]) else "?"
        out.append([d["name"], ty, d.get("arg")])
    return out


def reference_vars(data):
    return {raw["id"]: vars_of(raw) for d in data.values() for raw in d["fns"] if raw.get("dbg")}


def normalize_locals(data, ref_vars):
    """A renamed local variable or parameter gets its old name back.  Parameters are matched by position (same type), other
    variables by aligning the declaration sequences of the reference and the current function on (name, type): between two anchors
    that kept their names, a run of the same length with the same types position by position is a run of renamed variables."""
    import difflib
    done = []
    for d in data.values():
        for raw in d["fns"]:
            ref = ref_vars.get(raw["id"])
            if not ref or not raw.get("dbg"):
                continue
            entries = [e for e in raw["dbg"] if e.get("pl") and not e["pl"].get("p")]
            cur = vars_of(raw)
            if [c[:2] for c in cur] == [r[:2] for r in ref]:
                continue
            new_names = {}
            # parameters
            rp = {r[2]: r for r in ref if r[2] is not None}
            for i, c in enumerate(cur):
                if c[2] is not None and c[2] in rp and rp[c[2]][1] == c[1] and rp[c[2]][0] != c[0]:
                    new_names[i] = rp[c[2]][0]
            # other variables
            a = [(r[0], r[1]) for r in ref if r[2] is None]
            bi = [i for i, c in enumerate(cur) if c[2] is None]
            b = [(cur[i][0], cur[i][1]) for i in bi]
            sm = difflib.SequenceMatcher(None, a, b, autojunk=False)
            for tag, i1, i2, j1, j2 in sm.get_opcodes():
                if tag == "replace" and i2 - i1 == j2 - j1 and all(a[i1 + k][1] == b[j1 + k][1] for k in range(i2 - i1)):
                    for k in range(i2 - i1):
                        # a name that still exists elsewhere in the function was not renamed
                        if a[i1 + k][0] not in {x[0] for x in b}:
                            new_names[bi[j1 + k]] = a[i1 + k][0]
            for i, nm in new_names.items():
                old = entries[i]["name"]
                # every debug entry of that name (shadowing re-declarations included only when they are the same local)
                for e in raw["dbg"]:
                    if e["name"] == old and e.get("pl", {}).get("l") == entries[i]["pl"]["l"]:
                        e["name"] = nm
                done.append("variable %s of %s is %s of the reference tree" % (old, raw["id"].split("::")[-1], nm))
    return done


# ---- source files -------------------------------------------------------------------------------------------------------------------
def reference_files(data):
    return {raw["id"]: raw.get("file") for d in data.values() for raw in d["fns"] if raw.get("file") and "{closure" not in raw["id"]}


def normalize_files(data, ref_files):
    """A source file that was moved or renamed (writer.rs -> writer/mod.rs) gets its old path back: when all known functions now
    defined in a file F' were defined in one file F of the reference tree, and F is gone, F' is F."""
    if not ref_files:
        return []
    cur_files = {}
    for d in data.values():
        for raw in d["fns"]:
            if raw.get("file"):
                cur_files.setdefault(raw["file"], set())
                if raw["id"] in ref_files:
                    cur_files[raw["file"]].add(ref_files[raw["id"]])
    mapping = {}
    for f_new, olds in cur_files.items():
        if len(olds) == 1:
            f_old = next(iter(olds))
            if f_old != f_new and f_old not in cur_files:
                mapping[f_new] = f_old
    if not mapping:
        return []

    def fix(x):
        if isinstance(x, dict) and isinstance(x.get("file"), str) and x["file"] in mapping:
            x["file"] = mapping[x["file"]]
        if isinstance(x, dict) and isinstance(x.get("absorbed_spans"), list):
            x["absorbed_spans"] = [[mapping.get(s[0], s[0])] + list(s[1:]) for s in x["absorbed_spans"]]
    for d in data.values():
        _walk(d, fix)
    return ["file %s is %s of the reference tree" % (n, o) for n, o in sorted(mapping.items())]


# ---- parameter order ------------------------------------------------------------------------------------------------------------------
def normalize_param_order(data, ref_vars):
    """A known function whose parameters were merely reordered (same names, same types, another order) gets the reference order
    back: its parameter locals are renumbered and the argument lists of all its call sites are permuted.  Rules may then keep
    referring to 'argument 2 of save_backup_file'."""
    done = []
    by_id = {raw["id"]: raw for d in data.values() for raw in d["fns"]}
    for fid, raw in by_id.items():
        ref = ref_vars.get(fid)
        if not ref:
            continue
        n = raw.get("arg_count", 0)
        rp = [(r[0], r[1]) for r in sorted((r for r in ref if r[2] is not None), key=lambda r: r[2])]
        cp = {}
        for e in raw.get("dbg", []):
            if e.get("arg") is not None and e.get("pl") and not e["pl"].get("p"):
                cp[e["arg"]] = (e["name"], raw["locals"][e["pl"]["l"]]["ty"])
        if len(rp) != n or len(cp) != n or n < 2:
            continue
        cur = [cp[i] for i in range(1, n + 1)]
        if cur == rp or sorted(cur) != sorted(rp) or len(set(cur)) != n:
            continue
        # perm[new position (1-based)] = reference position
        perm = {i + 1: rp.index(cur[i]) + 1 for i in range(n)}

        def fix(x):
            if isinstance(x, dict):
                if isinstance(x.get("l"), int) and x["l"] in perm:
                    x["l"] = perm[x["l"]]
                if isinstance(x.get("index"), int) and x["index"] in perm:
                    x["index"] = perm[x["index"]]
                if isinstance(x.get("arg"), int) and x["arg"] in perm and "name" in x:
                    x["arg"] = perm[x["arg"]]
        for key in ("blocks", "dbg", "promoted"):
            if key in raw:
                _walk(raw[key], fix)
        new_locals = list(raw["locals"])
        for i in range(1, n + 1):
            new_locals[perm[i]] = raw["locals"][i]
        raw["locals"] = new_locals
        inv = {v: k for k, v in perm.items()}
        for g in by_id.values():
            for b in g["blocks"]:
                t = b["term"]
                if t.get("k") == "call" and len(t.get("args", [])) == n:
                    f_ = t.get("func") or {}
                    rp_ = (f_.get("res") or {}).get("rpath") or f_.get("fn")
                    if rp_ == fid:
                        t["args"] = [t["args"][inv[j] - 1] for j in range(1, n + 1)]
                        if isinstance(t.get("argtys"), list) and len(t["argtys"]) == n:
                            t["argtys"] = [t["argtys"][inv[j] - 1] for j in range(1, n + 1)]
        done.append("parameters of %s are in the order (%s); the reference order is (%s)" % (
            fid.split("::")[-1], ", ".join(c[0] for c in cur), ", ".join(r[0] for r in rp)))
    return done
