"""Check runner: obligations, violations, known findings, evidence, exit codes."""
import json
import os
import sys
import time

from . import callgraph, extract, facts

VERIF = extract.VERIF
KNOWN = os.path.join(VERIF, "known_findings.json")

TRUSTED_BASE = [
    "rustc nightly MIR construction and callee resolution (rq-facts driver reads optimized_mir at -Zmir-opt-level=0)",
    "third-party crates perform no file-system write / process exit of their own and only call back the closures they are handed",
    "std function contracts listed in rqverif/contracts.py",
    "the dev-profile MIR analysed is the program users run (overflow asserts are treated as findings in both profiles)",
]


class Obl:
    __slots__ = ("rule", "instance", "status", "detail", "where", "key")

    def __init__(self, rule, instance, status, detail, where, key=None):
        self.rule = rule
        self.instance = instance
        self.status = status    # "discharged" | "violated" | "info"
        self.detail = detail
        self.where = where
        self.key = key

    def as_json(self):
        d = {"rule": self.rule, "instance": self.instance, "status": self.status}
        if self.detail:
            d["detail"] = self.detail
        if self.where:
            d["where"] = self.where
        if self.key:
            d["key"] = self.key
        return d


class Check:
    def __init__(self, pid, prog, cg, tier="quick", level="other", overlay=None):
        self.pid = pid
        self.prog = prog
        self.cg = cg
        self.tier = tier
        self.level = level
        self.obls = []
        self.notes = []
        self.assumptions = []
        self.explanation = ""
        self.analysed = {}
        self.quiet = False

    # ---- recording ---------------------------------------------------------------------
    def ok(self, rule, instance, detail="", where=""):
        self.obls.append(Obl(rule, instance, "discharged", detail, where))

    def violate(self, rule, key, message, where=""):
        """key: stable identifier of the violating construct (no line numbers)."""
        full_key = "%s|%s|%s" % (self.pid, rule, key)
        self.obls.append(Obl(rule, key, "violated", message, where, full_key))

    def info(self, rule, instance, detail="", where=""):
        self.obls.append(Obl(rule, instance, "info", detail, where))

    def require(self, cond, rule, instance, message, where="", ok_detail=""):
        if cond:
            self.ok(rule, instance, ok_detail or ("holds [the report on failure would read: %s]" % message), where)
        else:
            self.violate(rule, instance, message, where)
        return cond

    def floor(self, rule, what, count, minimum):
        """Fail closed when a rule matched fewer instances than were confirmed by hand."""
        if count < minimum:
            self.violate(rule, "floor:" + what,
                         "only %d %s found, expected at least %d (anchor lost or rule vacuous)" % (count, what, minimum))
        else:
            self.ok(rule, "floor:" + what, "%d %s (floor %d)" % (count, what, minimum))

    def anchor(self, suffix, rule="anchor"):
        try:
            return self.prog.one(suffix)
        except facts.AnchorError as e:
            self.violate(rule, "anchor:" + suffix, "reason=anchor " + str(e))
            return None

    def note(self, text):
        self.notes.append(text)

    def count(self, what, n):
        self.analysed[what] = self.analysed.get(what, 0) + n

    # ---- finish ---------------------------------------------------------------------------
    def finish(self, t0, seed=0):
        known = load_known()
        violations = [o for o in self.obls if o.status == "violated"]
        new = []
        known_hits = []
        for v in violations:
            ent = known.get(v.key)
            if ent and ent.get("status") == "known":
                known_hits.append((v, ent))
            else:
                new.append(v)
        discharged = [o for o in self.obls if o.status == "discharged"]
        evdir = os.environ.get("RQ_EVIDENCE_DIR") or os.path.join(VERIF, "evidence")
        report_path = os.path.join(evdir, "%s.report.txt" % self.pid)
        os.makedirs(os.path.dirname(report_path), exist_ok=True)
        lines = []
        lines.append("property %s tier %s: %d obligations, %d discharged, %d violated (%d known findings)" % (
            self.pid, self.tier, len(discharged) + len(violations), len(discharged), len(violations), len(known_hits)))
        for k, v in sorted(self.analysed.items()):
            lines.append("  analysed %-38s %s" % (k, v))
        for nt in self.notes:
            lines.append("  note: " + nt)
        renamed = list(getattr(self.prog, "info", {}).get("renamed") or [])
        for rn in renamed:
            lines.append("  note: identifiers are shown as in the reference tree - " + rn)
        byrule = {}
        for o in self.obls:
            byrule.setdefault(o.rule, []).append(o)
        for rule in sorted(byrule):
            os_ = byrule[rule]
            nd = sum(1 for o in os_ if o.status == "discharged")
            nv = sum(1 for o in os_ if o.status == "violated")
            lines.append("  rule %-10s %3d discharged %3d violated" % (rule, nd, nv))
        for o in self.obls:
            if o.status == "violated":
                lines.append("  VIOLATED %s  %s  %s\n           %s\n           key=%s" % (o.where, o.rule, o.instance, o.detail, o.key))
        lines.append("")
        for o in self.obls:
            if o.status != "violated":
                lines.append("  %-10s %s %s%s%s" % (o.status, o.rule, o.instance,
                                                    ("  @ " + o.where) if o.where else "",
                                                    ("  -- " + o.detail) if o.detail else ""))
        with open(report_path, "w") as f:
            f.write("\n".join(lines) + "\n")
        if not self.quiet:
            try:
                for ln in lines[:1 + len(self.analysed) + len(self.notes) + len(renamed) + len(byrule)]:
                    print(ln)
            except BrokenPipeError:
                pass
        printed = set()
        for v, ent in known_hits:
            if v.key in printed:
                continue
            printed.add(v.key)
            print("KNOWN-FINDING: property=%s %s %s %s :: %s (%s)" % (self.pid, ent.get("id", ""), v.rule, v.instance, v.detail[:300], v.where))
        for v in new:
            print("  %s  %s  %s\n      %s" % (v.where, v.rule, v.instance, v.detail))
        wall = round(time.time() - t0, 3)
        samples = [o.as_json() for o in (violations + discharged)[:40]]
        distinct = len({(o.rule, o.instance) for o in self.obls if o.status != "info"})
        ev = {
            "property_id": self.pid,
            "tier": self.tier,
            "seed": seed,
            "level": self.level,
            "coverage": {
                "obligations": len(discharged) + len(violations),
                "discharged": len(discharged),
                "evaluations": len(discharged) + len(violations),
                "distinct_nontrivial": distinct,
                "rule": "one obligation per rule instance found in the extracted MIR of /repo's working tree; "
                        "distinct = distinct (rule, construct) pairs; floors fail the check when a rule matches fewer "
                        "instances than were confirmed by hand",
                "samples": samples,
                "explanation": self.explanation,
                "checker_cmd": "bin/check %s --tier %s" % (self.pid, self.tier),
                "trusted_base": TRUSTED_BASE,
                "analysed": self.analysed,
                "rules": {r: {"discharged": sum(1 for o in os_ if o.status == "discharged"),
                              "violated": sum(1 for o in os_ if o.status == "violated")} for r, os_ in byrule.items()},
                "known_findings_reported": [v.key for v, _ in known_hits],
                "tree_hash": getattr(self.prog, "info", {}).get("tree_hash"),
                "functions_in_program": len(self.prog.fns),
                "renamed_identifiers_normalised": renamed,
                "exhaustive": True,
            },
            "assumptions": self.assumptions,
            "wall_s": wall,
            "violations": len(new),
        }
        with open(os.path.join(evdir, "%s.json" % self.pid), "w") as f:
            json.dump(ev, f, indent=1, sort_keys=True)
        if new:
            print("VIOLATION property=%s replay=%s" % (self.pid, report_path))
            return 1
        return 0


def pick_goldens(mine, limit):
    """At most `limit` goldens, chosen greedily so that as many distinct rules as possible keep a positive example."""
    if limit is None or len(mine) <= limit:
        return mine
    chosen, covered, rest = [], set(), list(mine)
    while rest and len(chosen) < limit:
        rest.sort(key=lambda ne: (-len(set(ne[1]["rules"]) - covered), ne[1].get("changed_fns", 0), ne[0]))
        n, e = rest.pop(0)
        chosen.append((n, e))
        covered |= set(e["rules"])
    return sorted(chosen)


def run_goldens(pid, mod, limit=None):
    """Evaluate the property's rules on the stored golden (mutated) programs; every golden must be reported."""
    import gzip
    gdir = os.path.join(VERIF, "selftest", "golden")
    idx = os.path.join(gdir, "index.json")
    if os.environ.get("RQ_NO_GOLDEN") or not os.path.exists(idx):
        return [], []
    with open(idx) as f:
        index = json.load(f)
    done, failed = [], []
    mine = [(n, e) for n, e in sorted(index.items()) if e["property"] == pid]
    if not mine:
        return done, failed
    mine = pick_goldens(mine, limit)
    with gzip.open(os.path.join(gdir, "base.facts.json.gz"), "rt") as f:
        base_text = f.read()
    for name, ent in mine:
        data = json.loads(base_text)
        with gzip.open(os.path.join(gdir, name + ".overlay.json.gz"), "rt") as f:
            overlay = json.load(f)
        for crate, ov in overlay.items():
            cd = data[crate]
            repl = {f["id"]: f for f in ov["fns"]}
            gone = set(ov.get("removed", []))
            cd["fns"] = [repl.pop(f["id"], f) for f in cd["fns"] if f["id"] not in gone] + list(repl.values())
            for k in ("literals", "adts", "impls"):
                if k in ov:
                    cd[k] = ov[k]
        from . import inline
        inline.apply(data)
        prog = facts.Program(data)
        from . import errflow
        errflow.PROG = prog
        prog.info = {"tree_hash": "golden:" + name}
        cg = callgraph.CallGraph(prog)
        ck = Check(pid, prog, cg, tier="golden", level=mod.LEVEL)
        ck.quiet = True
        try:
            mod.run(ck)
        except Exception as e:     # a rule crashing on its golden is a machinery failure as well
            failed.append("%s: exception %r" % (name, e))
            continue
        hit = sorted({o.rule for o in ck.obls if o.status == "violated"})
        if any(r in hit for r in ent["rules"]) or (not ent["rules"] and hit):
            done.append("%s -> %s" % (name, ",".join(hit)))
        else:
            failed.append("%s: expected a violation of %s, rules fired: %s" % (name, ent["rules"], hit))
    return done, failed


def load_known():
    if not os.path.exists(KNOWN):
        return {}
    with open(KNOWN) as f:
        data = json.load(f)
    out = {}
    for ent in data.get("findings", []):
        out[ent["key"]] = ent
    return out


def load_all(fresh=False):
    prog = facts.load_program(fresh=fresh)
    from . import errflow
    errflow.PROG = prog
    cg = callgraph.CallGraph(prog)
    return prog, cg


class RuleAlias:
    """A view of a Check under which another property's rules are recorded with a rule id of this property (one mechanism serving two
    properties: e.g. the grouping of related names, C07, is also what lets name resolution see earlier patches of the run, C16)."""

    def __init__(self, ck, rename):
        self._ck = ck
        self._rename = rename

    def __getattr__(self, name):
        return getattr(self._ck, name)

    def ok(self, rule, instance, detail="", where=""):
        r = self._rename(rule)
        if r is not None:
            self._ck.ok(r, instance, detail, where)

    def violate(self, rule, key, message, where=""):
        r = self._rename(rule)
        if r is not None:
            self._ck.violate(r, key, message, where)

    def info(self, rule, instance, detail="", where=""):
        r = self._rename(rule)
        if r is not None:
            self._ck.info(r, instance, detail, where)

    def require(self, cond, rule, instance, message, where="", ok_detail=""):
        r = self._rename(rule)
        if r is None:
            return cond
        return self._ck.require(cond, r, instance, message, where, ok_detail)

    def floor(self, rule, what, count, minimum):
        r = self._rename(rule)
        if r is not None:
            self._ck.floor(r, what, count, minimum)

    def anchor(self, suffix, rule="anchor"):
        return self._ck.anchor(suffix, rule)

    @property
    def quiet_subset(self):
        return True

    def count(self, what, n):
        pass

    def note(self, text):
        pass
