"""Engine C: value provenance over MIR locals.

`Defs(fn)` indexes the definitions of every local.  `expr(fn, operand)` builds a
normalised expression tree by following single-definition temporaries through
copies, moves, refs and derefs.  Trees are nested tuples:

  ("param", index, name)            function parameter (index is 1-based local)
  ("local", l, name)                local with several definitions / mutable borrow (opaque)
  ("const", value, ty)              literal (int / bytes / debug string)
  ("fn", path)                      function item value
  ("closure", path, ops)            closure value
  ("field", base, name)             base.name   (tuple fields use the index)
  ("downcast", base, variant)
  ("index", base, idx)
  ("call", path, (args...))         result of a call (resolved callee path)
  ("bin", op, a, b) ("un", op, a) ("cast", a, ty) ("discr", a) ("agg", name, variant, ops)
  ("other", text)

Refs and derefs are transparent: &x, *x and x all denote x.
"""
from .facts import callee_of

TRANSPARENT_CALLS = {
    # callee path -> index of the argument the result is "the same value as"
    "core::clone::Clone::clone": 0,
    "<T as core::convert::Into<U>>::into": 0,
    "<T as core::convert::From<T>>::from": 0,
    "core::convert::AsRef::as_ref": 0,
    "core::convert::AsMut::as_mut": 0,
    "core::ops::deref::Deref::deref": 0,
    "core::ops::deref::DerefMut::deref_mut": 0,
    "core::borrow::Borrow::borrow": 0,
    "core::iter::traits::collect::IntoIterator::into_iter": 0,
    "<I as core::iter::traits::collect::IntoIterator>::into_iter": 0,
}


class Defs:
    def __init__(self, fn):
        self.fn = fn
        self.defs = {}       # local -> list of ("stmt", bb, idx, stmt) / ("call", bb, term)
        self.mut_borrowed = set()
        self.partial = set()  # locals assigned through a projection (field writes)
        for bb, idx, s in fn.stmts():
            if s["k"] == "assign":
                lhs = s["lhs"]
                if "p" in lhs:
                    self.partial.add(lhs["l"])
                    self.defs.setdefault(lhs["l"], []).append(("pstmt", bb, idx, s))
                else:
                    self.defs.setdefault(lhs["l"], []).append(("stmt", bb, idx, s))
                rv = s["rv"]
                if rv["k"] in ("ref", "rawptr") and rv.get("mut"):
                    pl = rv["pl"]
                    # &mut *_x re-borrows do not make _x itself opaque (it is a reference)
                    if not (pl.get("p") and pl["p"][0] == "deref"):
                        self.mut_borrowed.add(pl["l"])
            elif s["k"] == "setdiscr":
                self.partial.add(s["lhs"]["l"])
        for bb, t in fn.calls():
            d = t["dest"]
            if "p" in d:
                self.partial.add(d["l"])
                self.defs.setdefault(d["l"], []).append(("pcall", bb, t))
            else:
                self.defs.setdefault(d["l"], []).append(("call", bb, t))

    def single(self, l):
        ds = self.defs.get(l, [])
        full = [d for d in ds if d[0] in ("stmt", "call")]
        if len(full) == 1 and len(ds) == 1:
            return full[0]
        return None

    def all(self, l):
        return self.defs.get(l, [])


def defs_of(fn):
    d = fn._cache.get("defs")
    if d is None:
        d = Defs(fn)
        fn._cache["defs"] = d
    return d


def _apply_proj(base, projs):
    e = base
    for p in projs:
        if p == "deref":
            continue
        if "f" in p:
            nm = p.get("name", p["f"])
            if isinstance(nm, str) and nm.isdigit():
                nm = int(nm)
            if isinstance(nm, int) and isinstance(e, tuple) and e and e[0] == "agg" and e[1] == "tuple" and nm < len(e[3]):
                e = e[3][nm]      # (a, b).0 is a
            else:
                e = ("field", e, nm)
        elif "downcast" in p:
            e = ("downcast", e, p["downcast"])
        elif "index" in p:
            e = ("index", e, ("localidx", p["index"]))
        elif "cindex" in p:
            e = ("index", e, ("const", (-1 if p["from_end"] else 1) * p["cindex"], "usize"))
        elif "subslice" in p:
            e = ("subslice", e, tuple(p["subslice"]))
        else:
            e = ("proj?", e)
    return e


def place_expr(fn, pl, depth=64, seen=None, through_calls=True):
    base = local_expr(fn, pl["l"], depth, seen, through_calls)
    return _apply_proj(base, pl.get("p", []))


def local_expr(fn, l, depth=64, seen=None, through_calls=True):
    seen = seen or frozenset()
    if 1 <= l <= fn.arg_count:
        return ("param", l, fn.local_name(l))
    d = defs_of(fn)
    if depth <= 0 or l in seen or l in d.mut_borrowed and fn.local_name(l):
        return ("local", l, fn.local_name(l))
    one = d.single(l)
    if one is None:
        return ("local", l, fn.local_name(l))
    seen = seen | {l}
    if one[0] == "stmt":
        return rvalue_expr(fn, one[3]["rv"], depth - 1, seen, through_calls)
    t = one[2]
    return call_expr(fn, t, depth - 1, seen, through_calls)


def call_expr(fn, t, depth=64, seen=None, through_calls=True):
    c = callee_of(t)
    args = tuple(operand_expr(fn, a, depth, seen, through_calls) for a in t["args"])
    if c["indirect"]:
        return ("callind", operand_expr(fn, t["func"], depth, seen, through_calls), args)
    path = c["rpath"]
    if through_calls:
        idx = TRANSPARENT_CALLS.get(c["path"])
        if idx is None:
            idx = TRANSPARENT_CALLS.get(path)
        if idx is not None and idx < len(args):
            return args[idx]
    return ("call", path, args)


def operand_expr(fn, op, depth=64, seen=None, through_calls=True):
    k = op.get("k")
    if k in ("copy", "move"):
        return place_expr(fn, op["pl"], depth, seen, through_calls)
    if k == "const":
        if "fn" in op:
            return ("fn", (op.get("res") or {}).get("rpath") or op["fn"])
        if "closure" in op:
            return ("closure", op["closure"], ())
        if "int" in op:
            return ("const", op["int"], op["ty"])
        if "bytes" in op:
            return ("const", op["bytes"], op["ty"])
        if "item" in op:
            return ("constitem", op["item"], op.get("promoted"))
        return ("const", op.get("dbg"), op["ty"])
    return ("other", str(op))


def rvalue_expr(fn, rv, depth=64, seen=None, through_calls=True):
    k = rv["k"]
    if k == "use":
        return operand_expr(fn, rv["op"], depth, seen, through_calls)
    if k in ("ref", "rawptr"):
        return place_expr(fn, rv["pl"], depth, seen, through_calls)
    if k == "cast":
        inner = operand_expr(fn, rv["op"], depth, seen, through_calls)
        ck = rv["ck"]
        if "Unsize" in ck or "PointerCoercion" in ck or "PtrToPtr" in ck or "Transmute" in ck and rv["ty"] == rv["from"]:
            return inner
        return ("cast", inner, rv["ty"])
    if k == "bin":
        return ("bin", rv["op"], operand_expr(fn, rv["a"], depth, seen, through_calls),
                operand_expr(fn, rv["b"], depth, seen, through_calls))
    if k == "un":
        return ("un", rv["op"], operand_expr(fn, rv["a"], depth, seen, through_calls))
    if k == "discr":
        return ("discr", place_expr(fn, rv["pl"], depth, seen, through_calls))
    if k == "agg":
        ops = tuple(operand_expr(fn, o, depth, seen, through_calls) for o in rv["ops"])
        if rv["ak"] == "closure":
            return ("closure", rv["closure"], ops)
        if rv["ak"] == "adt":
            return ("agg", rv["adt"], rv.get("variant"), ops)
        return ("agg", rv["ak"], None, ops)
    if k == "repeat":
        return ("repeat", operand_expr(fn, rv["op"], depth, seen, through_calls), rv["count"])
    return ("other", rv.get("dbg", k))


# ---- tree utilities -------------------------------------------------------------
def walk(e):
    """All sub-expressions, pre-order."""
    yield e
    if isinstance(e, tuple):
        for x in e[1:]:
            if isinstance(x, tuple):
                if x and isinstance(x[0], str):
                    yield from walk(x)
                else:
                    for y in x:
                        if isinstance(y, tuple):
                            yield from walk(y)


def mentions(e, pred):
    return any(pred(x) for x in walk(e))


def calls_in(e):
    return [x for x in walk(e) if isinstance(x, tuple) and x and x[0] == "call"]


def fields_in(e):
    return [x[2] for x in walk(e) if isinstance(x, tuple) and x and x[0] == "field"]


def show(e, maxlen=200):
    s = _show(e)
    return s if len(s) <= maxlen else s[:maxlen - 3] + "..."


def _show(e):
    if not isinstance(e, tuple) or not e:
        return repr(e)
    k = e[0]
    if k == "param":
        return str(e[2] or "arg%d" % e[1])
    if k == "local":
        return str(e[2] or "_%d" % e[1])
    if k == "const":
        return repr(e[1])
    if k == "constitem":
        return "const " + str(e[1]) + ("[promoted %s]" % e[2] if e[2] is not None else "")
    if k == "fn":
        return "fn " + e[1]
    if k == "closure":
        return "closure " + e[1]
    if k == "field":
        return "%s.%s" % (_show(e[1]), e[2])
    if k == "downcast":
        return "(%s as %s)" % (_show(e[1]), e[2])
    if k == "index":
        return "%s[%s]" % (_show(e[1]), _show(e[2]))
    if k == "localidx":
        return "_%d" % e[1]
    if k == "call":
        return "%s(%s)" % (short(e[1]), ", ".join(_show(a) for a in e[2]))
    if k == "callind":
        return "(%s)(%s)" % (_show(e[1]), ", ".join(_show(a) for a in e[2]))
    if k == "bin":
        return "%s(%s, %s)" % (e[1], _show(e[2]), _show(e[3]))
    if k == "un":
        return "%s(%s)" % (e[1], _show(e[2]))
    if k == "cast":
        return "(%s as %s)" % (_show(e[1]), e[2])
    if k == "discr":
        return "discr(%s)" % _show(e[1])
    if k == "agg":
        return "%s%s{%s}" % (short(e[1]), ("::" + e[2]) if e[2] else "", ", ".join(_show(a) for a in e[3]))
    return str(e)


def short(path):
    # drop generic noise for display
    return path


def all_def_exprs(fn, l, depth=64):
    """Expressions of every definition (whole-local assignments and call results) of local l."""
    out = []
    for dd in defs_of(fn).all(l):
        if dd[0] == "stmt":
            out.append(rvalue_expr(fn, dd[3]["rv"], depth, frozenset([l])))
        elif dd[0] == "call":
            out.append(call_expr(fn, dd[2], depth, frozenset([l])))
    return out


def defs_through_copies(fn, l, depth=4, _seen=None):
    """The definitions of local l, where a definition that merely copies / moves another whole local (the result slot of a helper
    that was inlined, a temporary) is replaced by that local's definitions."""
    _seen = _seen if _seen is not None else set()
    if l in _seen or depth < 0:
        return []
    _seen.add(l)
    out = []
    for dd in defs_of(fn).all(l):
        if dd[0] == "stmt" and dd[3]["rv"]["k"] == "use" and dd[3]["rv"]["op"].get("k") in ("copy", "move") and "p" not in dd[3]["rv"]["op"]["pl"] \
                and dd[3]["rv"]["op"]["pl"]["l"] > fn.arg_count:
            sub = defs_through_copies(fn, dd[3]["rv"]["op"]["pl"]["l"], depth - 1, _seen)
            out.extend(sub if sub else [dd])
        else:
            out.append(dd)
    return out


def adt_field_uses(fn, adt, blocks=None):
    """[(bb, field name)] for every place projection through a field of struct/enum `adt` in the given blocks of fn (default: all
    non-cleanup blocks), statements and terminators alike."""
    def projs(x):
        if isinstance(x, list):
            for v in x:
                yield from projs(v)
        elif isinstance(x, dict):
            if x.get("adt") == adt and "name" in x:
                yield x["name"]
            for v in x.values():
                if isinstance(v, (list, dict)):
                    yield from projs(v)
    out = []
    for bb, b in enumerate(fn.blocks):
        if b["cleanup"] or (blocks is not None and bb not in blocks):
            continue
        for nm in projs([b["stmts"], b["term"]]):
            out.append((bb, nm))
    return out


def alternatives(fn, e, limit=16, depth=3):
    """The expressions e can stand for when its opaque ("local", l, _) leaves are replaced by each of their whole-local definitions
    (a value assigned on two branches has two alternatives).  Correlation between leaves is deliberately forgotten, so use it only for
    rules of the form "every alternative satisfies P".  Returns None when there are more than `limit` alternatives or a leaf is
    assigned through a projection / mutably borrowed (not a plain value)."""
    if depth < 0:
        return [e]
    d = defs_of(fn)

    def expand(x):
        if not isinstance(x, tuple) or not x:
            return [x]
        if x[0] == "local":
            l = x[1]
            ds = d.all(l)
            if not ds or l in d.mut_borrowed or any(dd[0] not in ("stmt", "call") for dd in ds):
                return [x]
            outs = []
            for sub in all_def_exprs(fn, l):
                if sub == x:
                    return [x]
                alts = alternatives(fn, sub, limit, depth - 1)
                if alts is None:
                    return None
                outs.extend(alts)
            return outs
        if x[0] == "field" and isinstance(x[2], int):
            bs = expand(x[1])
            if bs is None:
                return None
            return [b[3][x[2]] if (isinstance(b, tuple) and b and b[0] == "agg" and b[1] == "tuple" and x[2] < len(b[3])) else ("field", b, x[2]) for b in bs]
        if isinstance(x[0], str):
            parts = [[x[0]]]
            for c in x[1:]:
                if isinstance(c, tuple) and c and isinstance(c[0], str):
                    alts = expand(c)
                    if alts is None:
                        return None
                elif isinstance(c, tuple):
                    alts = [()]
                    for y in c:
                        ys = expand(y) if isinstance(y, tuple) else [y]
                        if ys is None:
                            return None
                        alts = [a + (yy,) for a in alts for yy in ys]
                        if len(alts) > limit:
                            return None
                else:
                    alts = [c]
                parts = [p_ + [a] for p_ in parts for a in alts]
                if len(parts) > limit:
                    return None
            return [tuple(p_) for p_ in parts]
        return [x]
    out = expand(e)
    if out is None or len(out) > limit:
        return None
    uniq = []
    for o in out:
        if o not in uniq:
            uniq.append(o)
    return uniq


def mentions_deep(fn, e, pred, _seen=None, depth=6):
    """Like mentions(), but opaque ("local", l, _) nodes are expanded through all their definitions."""
    _seen = _seen if _seen is not None else set()
    for x in walk(e):
        if pred(x):
            return True
        if isinstance(x, tuple) and x and x[0] == "local" and depth > 0:
            l = x[1]
            if l in _seen:
                continue
            _seen.add(l)
            for d in all_def_exprs(fn, l):
                if mentions_deep(fn, d, pred, _seen, depth - 1):
                    return True
    return False


def is_call(x, *suffixes):
    return isinstance(x, tuple) and len(x) > 1 and x[0] == "call" and any(x[1] == s or x[1].endswith(s) for s in suffixes)


def is_const(x, *values):
    return isinstance(x, tuple) and len(x) > 1 and x[0] == "const" and (not values or x[1] in values)


def _place_item(pl):
    """(local, first-level field index or None) for a place; plus index locals."""
    out = []
    fld = None
    pr = pl.get("p", [])
    # skip leading derefs
    i = 0
    while i < len(pr) and pr[i] == "deref":
        i += 1
    if i < len(pr) and isinstance(pr[i], dict) and "f" in pr[i] and i == 0:
        fld = pr[i]["f"]
    out.append((pl["l"], fld))
    for p in pr:
        if isinstance(p, dict) and "index" in p:
            out.append((p["index"], None))
    return out


def _operand_items(op):
    if op.get("k") in ("copy", "move"):
        return _place_item(op["pl"])
    return []


def _rv_items(rv):
    out = []
    for key in ("op", "a", "b"):
        if key in rv and isinstance(rv[key], dict):
            out += _operand_items(rv[key])
    if "pl" in rv:
        out += _place_item(rv["pl"])
    for o in rv.get("ops", []):
        out += _operand_items(o)
    return out


def _operand_locals(op):
    return [l for l, f in _operand_items(op)]


def _rv_locals(rv):
    return [l for l, f in _rv_items(rv)]


def trace_items(fn, start_items):
    """Field-sensitive (one level, through tuple/ADT aggregates) backward trace. Returns set of (local, field)."""
    d = defs_of(fn)
    seen = set()
    stack = list(start_items)
    while stack:
        item = stack.pop()
        if item in seen:
            continue
        seen.add(item)
        l, fld = item
        defs = d.all(l)
        if fld is not None:
            full = [dd for dd in defs if dd[0] == "stmt"]
            if defs and len(full) == len(defs) and all(dd[3]["rv"]["k"] == "agg" and dd[3]["rv"].get("ak") in ("tuple", "adt")
                                                       and fld < len(dd[3]["rv"]["ops"]) for dd in full):
                for dd in full:
                    stack.extend(_operand_items(dd[3]["rv"]["ops"][fld]))
                continue
        for dd in defs:
            if dd[0] in ("stmt", "pstmt"):
                stack.extend(_rv_items(dd[3]["rv"]))
            else:
                for a in dd[2]["args"]:
                    stack.extend(_operand_items(a))
                stack.extend(_operand_items(dd[2]["func"]))
    return seen


def trace_locals(fn, start_locals):
    """All locals the given locals are computed from (through every definition, call arguments included)."""
    return {l for l, f in trace_items(fn, [(l, None) for l in start_locals])}


def operand_trace(fn, op):
    return {l for l, f in trace_items(fn, _operand_items(op))}


def place_trace(fn, pl):
    return {l for l, f in trace_items(fn, _place_item(pl))}


def try_payload_defs(fn, e, depth=0):
    """Look through `helper(..)?`: if e is (Try::branch(X) as Continue).0, the values X can carry in its Ok / Some variant.

    Returns [(payload_expr, bb)] - one entry per aggregate `Ok(v)` / `Some(v)` that can reach X (through copies and the result local of
    an inlined helper), bb being the block of that aggregate; None when e is not of this shape or X cannot be followed."""
    if not (isinstance(e, tuple) and e and e[0] == "field" and e[2] == 0 and isinstance(e[1], tuple) and e[1][0] == "downcast" and e[1][2] == "Continue"
            and is_call(e[1][1], "Try>::branch", "Try::branch")):
        return None
    x = e[1][1][2][0]
    out = []
    seen = set()

    def follow(v, d):
        if d > 8:
            return False
        if isinstance(v, tuple) and v and v[0] == "local":
            if v[1] in seen:
                return True
            seen.add(v[1])
            ok = True
            for dd in defs_of(fn).all(v[1]):
                if dd[0] == "stmt":
                    rv = dd[3]["rv"]
                    if rv["k"] == "agg" and rv.get("variant") in ("Ok", "Some") and len(rv["ops"]) == 1:
                        out.append((operand_expr(fn, rv["ops"][0]), dd[1]))
                    elif rv["k"] == "agg" and rv.get("variant") in ("Err", "None"):
                        pass
                    elif rv["k"] == "use" and rv["op"].get("k") in ("copy", "move") and "p" not in rv["op"]["pl"]:
                        ok = follow(("local", rv["op"]["pl"]["l"], None), d + 1) and ok
                    else:
                        ok = False
                elif dd[0] == "call":
                    c = dd[2]
                    # Err(..) built through a conversion stays an Err; anything else is opaque
                    if not (callee_of_path(c).endswith("from_residual")):
                        ok = False
                else:
                    ok = False
            return ok
        if isinstance(v, tuple) and v and v[0] == "agg" and v[2] in ("Ok", "Some") and len(v[3]) == 1:
            out.append((v[3][0], None))
            return True
        return False
    return out if follow(x, 0) and out else None


def callee_of_path(term):
    f = term.get("func", {})
    return (f.get("res") or {}).get("rpath") or f.get("fn") or ""


# ---- a value that arrives as a field of a parameter (arguments bundled into a struct by the caller) ---------------------------------
def agg_sources(fn, l, depth=8, _seen=None):
    """The struct-literal statements whose value can end up in local l of fn: through copies / moves / references, through `Ok(v)`
    and `?` (`Try::branch(..) as Continue`).  None when some definition is anything else (a call result, a projection ...)."""
    _seen = _seen if _seen is not None else set()
    if depth < 0:
        return None
    if l in _seen:
        return []
    _seen.add(l)
    d = defs_of(fn)
    out = []
    for dd in d.all(l):
        if dd[0] != "stmt":
            if dd[0] == "call" and (callee_of(dd[2]).get("path") or "").endswith("FromResidual::from_residual"):
                continue        # the error of a `?`: never the Ok value
            return None
        rv = dd[3]["rv"]
        if rv["k"] == "agg" and rv.get("ak") == "adt" and rv.get("variant") == "Ok" and len(rv["ops"]) == 1 and rv["ops"][0].get("k") in ("copy", "move") \
                and "p" not in rv["ops"][0]["pl"]:
            sub = agg_sources(fn, rv["ops"][0]["pl"]["l"], depth - 1, _seen)
            if sub is None:
                return None
            out += [("ok", s) for tag, s in sub]
        elif rv["k"] == "agg" and rv.get("ak") == "adt" and rv.get("variant") == "Err":
            continue
        elif rv["k"] == "agg" and rv.get("ak") == "adt" and rv.get("fields"):
            out.append(("plain", dd[3]))
        elif rv["k"] in ("use", "ref") and (rv.get("op", {}).get("k") in ("copy", "move") or rv["k"] == "ref"):
            pl = rv["op"]["pl"] if rv["k"] == "use" else rv["pl"]
            ps = [p_ for p_ in pl.get("p", []) if p_ != "deref"]
            if not ps:
                sub = agg_sources(fn, pl["l"], depth - 1, _seen)
                if sub is None:
                    return None
                out += sub
            elif len(ps) == 2 and isinstance(ps[0], dict) and ps[0].get("downcast") == "Continue" and isinstance(ps[1], dict) and ps[1].get("f") == 0:
                # the payload of `x?`: x's Ok values
                one = d.single(pl["l"])
                if not one or one[0] != "call" or not (callee_of(one[2]).get("path") or "").endswith("Try>::branch") and \
                        not (callee_of(one[2]).get("path") or "").endswith("Try::branch"):
                    return None
                a0 = one[2]["args"][0]
                if a0.get("k") not in ("copy", "move") or "p" in a0["pl"]:
                    return None
                sub = agg_sources(fn, a0["pl"]["l"], depth - 1, _seen)
                if sub is None:
                    return None
                out += [("plain", s) for tag, s in sub if tag == "ok"]
            else:
                return None
        else:
            return None
    return out


def param_field_sources(prog, fn, e, depth=3):
    """e is `<param i>.f1.f2..` of fn (through derefs): the expressions callers supply for that field, as [(caller, expr)].
    None when e is not of that form or some caller builds the argument in a way that is not followed."""
    path = []
    x = e
    while isinstance(x, tuple) and x and x[0] in ("field", "deref"):
        if x[0] == "field":
            if not isinstance(x[2], str):
                return None
            path.append(x[2])
        x = x[1]
    if not (isinstance(x, tuple) and x and x[0] == "param") or not path or depth < 0:
        return None
    path.reverse()
    i = x[1]
    out = []
    ncalls = 0
    for g in prog.fns.values():
        for bb, t in g.calls():
            if g.blocks[bb]["cleanup"] or (callee_of(t).get("rpath") or "") != fn.id or len(t["args"]) < i:
                continue
            ncalls += 1
            a = t["args"][i - 1]
            if a.get("k") not in ("copy", "move") or [p_ for p_ in a["pl"].get("p", []) if p_ != "deref"]:
                return None
            srcs = agg_sources(g, a["pl"]["l"])
            if not srcs:
                return None
            for tag, s in srcs:
                if tag != "plain":
                    return None
                cur = s
                expr = None
                for k, name in enumerate(path):
                    fields = cur["rv"].get("fields") or []
                    if name not in fields:
                        return None
                    op = cur["rv"]["ops"][fields.index(name)]
                    if k == len(path) - 1:
                        expr = operand_expr(g, op)
                    else:
                        if op.get("k") not in ("copy", "move") or "p" in op["pl"]:
                            return None
                        nxt = agg_sources(g, op["pl"]["l"])
                        if not nxt or len(nxt) != 1 or nxt[0][0] != "plain":
                            return None
                        cur = nxt[0][1]
                deeper = param_field_sources(prog, g, expr, depth - 1)
                if deeper:
                    out += deeper
                else:
                    out.append((g, expr))
    return out if ncalls else None
